(* C13 - proofs of the client-call theorems (Props/C13.v). *)
From Coq Require Import List NArith ZArith Bool Lia ZifyBool ZifyN ZifyNat.
From NV Require Import Prelude.Str Prelude.Res Prelude.Utf8 Model.Titan Model.ClientProto.
From NV Require Spec.C13.
Import ListNotations.
Open Scope N_scope.

(* ====================================================================== *)
(* break_crlf on a growing buffer                                          *)
(* ====================================================================== *)

Lemma bc_cons2 x y s :
  break_crlf (x :: y :: s) =
  if (x =? 13) && (y =? 10) then Some ([], s)
  else match break_crlf (y :: s) with Some (a, b) => Some (x :: a, b) | None => None end.
Proof. reflexivity. Qed.

Lemma bc_app_some : forall P l b d,
  break_crlf P = Some (l, b) -> break_crlf (P ++ d) = Some (l, b ++ d).
Proof.
  induction P as [|x P IH]; intros l b d H; [discriminate|].
  destruct P as [|y P]; [discriminate|].
  change ((x :: y :: P) ++ d) with (x :: y :: (P ++ d)).
  rewrite bc_cons2 in *.
  destruct ((x =? 13) && (y =? 10)).
  - inversion H; reflexivity.
  - destruct (break_crlf (y :: P)) as [[a b']|] eqn:E; [|discriminate].
    inversion H; subst.
    change (y :: P ++ d) with ((y :: P) ++ d). rewrite (IH a b d eq_refl). reflexivity.
Qed.

Lemma bc_some_eq : forall s l b, break_crlf s = Some (l, b) -> s = l ++ 13 :: 10 :: b.
Proof.
  induction s as [|x s IH]; intros l b H; [discriminate|].
  destruct s as [|y s]; [discriminate|].
  rewrite bc_cons2 in H.
  destruct ((x =? 13) && (y =? 10)) eqn:E.
  - inversion H; subst. apply andb_true_iff in E as [E1 E2].
    apply N.eqb_eq in E1, E2. subst. reflexivity.
  - destruct (break_crlf (y :: s)) as [[a b']|] eqn:E2; [|discriminate].
    inversion H; subst. rewrite (IH a b eq_refl). reflexivity.
Qed.

Lemma bc_has : forall l x, break_crlf (l ++ 13 :: 10 :: x) <> None.
Proof.
  induction l as [|a l IH]; intros x; [discriminate|].
  specialize (IH x).
  change ((a :: l) ++ 13 :: 10 :: x) with (a :: (l ++ 13 :: 10 :: x)).
  destruct (l ++ 13 :: 10 :: x) as [|y t] eqn:E; [destruct l; discriminate|].
  rewrite bc_cons2. destruct ((a =? 13) && (y =? 10)); [discriminate|].
  destruct (break_crlf (y :: t)) as [[p q]|]; [discriminate|contradiction].
Qed.

Lemma app_split : forall (c a b e : list N),
  a ++ b = c ++ e -> (length c <= length a)%nat -> exists x, a = c ++ x /\ e = x ++ b.
Proof.
  induction c as [|z c IH]; intros a b e H L.
  - exists a. split; [reflexivity|]. symmetry; exact H.
  - destruct a as [|w a]; [simpl in L; lia|].
    simpl in H. inversion H; subst.
    destruct (IH a b e H2) as [x [Hx He]]; [simpl in L; lia|].
    exists x. split; [simpl; f_equal; assumption|assumption].
Qed.

(* ---------- the adjusted length tested by _header_too_long ---------- *)
Definition adj13 (r : list N) (n : N) : N := match r with 13 :: _ => n - 1 | _ => n end.

Lemma adj13_spec r n :
  adj13 r n = match r with c :: _ => if c =? 13 then n - 1 else n | [] => n end.
Proof.
  destruct r as [|c t]; [reflexivity|]. unfold adj13.
  destruct c as [|p]; [reflexivity|].
  repeat (destruct p as [p|p|]; try reflexivity).
Qed.

Definition lli (b : str) : N := adj13 (rev b) (N.of_nat (length b)).

Lemma lli_eq b : Spec.C13.line_len_incomplete b = lli b.
Proof. reflexivity. Qed.

Lemma lli_le b : lli b <= N.of_nat (length b).
Proof. unfold lli. rewrite adj13_spec. destruct (rev b) as [|c t]; [lia|]. destruct (c =? 13); lia. Qed.
Lemma lli_ge b : N.of_nat (length b) - 1 <= lli b.
Proof. unfold lli. rewrite adj13_spec. destruct (rev b) as [|c t]; [lia|]. destruct (c =? 13); lia. Qed.
Lemma lli_snoc13 l : lli (l ++ [13]) = N.of_nat (length l).
Proof.
  unfold lli. rewrite adj13_spec, rev_app_distr, app_length. simpl. lia.
Qed.

Definition adj (b : str) : N :=
  match break_crlf b with Some (l, _) => N.of_nat (length l) | None => lli b end.

Lemma htl_adj b : header_too_long b = (max_header_line <? adj b).
Proof. unfold header_too_long, adj. destruct (break_crlf b) as [[l r]|]; reflexivity. Qed.

Lemma adj_mono P d : adj P <= adj (P ++ d).
Proof.
  unfold adj. destruct (break_crlf P) as [[l b]|] eqn:E.
  - rewrite (bc_app_some _ _ _ d E). lia.
  - destruct (break_crlf (P ++ d)) as [[l b]|] eqn:E2.
    + apply bc_some_eq in E2.
      destruct (Nat.le_gt_cases (length P) (length l)) as [L|L].
      * pose proof (lli_le P). lia.
      * destruct (app_split l P d (13 :: 10 :: b) E2) as [x [Hx He]]; [lia|].
        destruct x as [|x0 x]; [subst; rewrite app_nil_r in L; lia|].
        simpl in He. inversion He; subst x0.
        destruct x as [|x1 x].
        -- subst P. rewrite lli_snoc13. lia.
        -- simpl in H1. inversion H1; subst x1. subst P.
           exfalso. revert E. apply bc_has.
    + destruct d as [|d0 d]; [rewrite app_nil_r; lia|].
      pose proof (lli_le P). pose proof (lli_ge (P ++ d0 :: d)).
      rewrite app_length in *. simpl in *. lia.
Qed.

Lemma htl_mono P d : header_too_long P = true -> header_too_long (P ++ d) = true.
Proof. rewrite !htl_adj. pose proof (adj_mono P d). lia. Qed.

(* ====================================================================== *)
(* basic facts about the client state machine                              *)
(* ====================================================================== *)

Lemma cfut_set_err s k :
  cfut (set_err s k) = match cfut s with Pending => Done (RErr k) | Done r => Done r end.
Proof. unfold set_err. destruct (cfut s) eqn:E; [reflexivity|assumption]. Qed.
Lemma status_set_err s k : status (set_err s k) = status s.
Proof. unfold set_err. destruct (cfut s); reflexivity. Qed.
Lemma hdr_set_err s k : hdr (set_err s k) = hdr s.
Proof. unfold set_err. destruct (cfut s); reflexivity. Qed.
Lemma cbuf_set_err s k : cbuf (set_err s k) = cbuf s.
Proof. unfold set_err. destruct (cfut s); reflexivity. Qed.
Lemma meta_set_err s k : meta (set_err s k) = meta s.
Proof. unfold set_err. destruct (cfut s); reflexivity. Qed.

Lemma ph_done s line r : cfut s = Done r -> cfut (parse_header s line) = Done r.
Proof.
  intro H. unfold parse_header.
  destruct (partition 32 line) as [[st found] rest].
  destruct st as [|d1 [|d2 [|d3 st]]]; try (rewrite cfut_set_err, H; reflexivity).
  destruct (is_digit d1 && is_digit d2); [|rewrite cfut_set_err, H; reflexivity].
  cbv zeta.
  destruct (negb _); [rewrite cfut_set_err; cbn [cfut]; rewrite H; reflexivity|].
  destruct (_ || _); [rewrite cfut_set_err; cbn [cfut]; rewrite H; reflexivity|].
  cbn [cfut]. exact H.
Qed.

Ltac proj := cbn [cbuf hdr status meta cfut connected fst snd negb andb] in *.

Section Main.
Variable decode_body : bool.
Variable cap : N.
Variable dw : str -> str -> option str.

Notation spec := (Spec.C13.spec_result decode_body cap dw).
Notation closs := (connection_lost decode_body dw).

Lemma dr_done s d r : cfut s = Done r -> cfut (fst (data_received cap s d)) = Done r.
Proof.
  intro H. unfold data_received. proj.
  destruct (negb (hdr s) && header_too_long (cbuf s ++ d)).
  { proj. rewrite cfut_set_err. proj. rewrite H. reflexivity. }
  destruct (negb (hdr s)).
  2:{ proj. destruct (_ && _); proj; [rewrite cfut_set_err; proj; rewrite H|]; auto. }
  destruct (break_crlf (cbuf s ++ d)) as [[l body]|].
  2:{ proj. destruct (_ && _); proj; [rewrite cfut_set_err; proj; rewrite H|]; auto. }
  destruct (decode l) as [line|].
  2:{ proj. exact H. }
  set (s0 := {| cbuf := cbuf s ++ d; hdr := hdr s; status := status s; meta := meta s; cfut := cfut s; connected := connected s |}).
  assert (Hp : cfut (parse_header s0 line) = Done r) by (apply ph_done; exact H).
  destruct (status (parse_header s0 line)) as [v|]; proj; auto.
  destruct (is_2x v) eqn:E2; proj; rewrite ?E2; proj; auto.
  destruct (cap <? _); proj; [rewrite cfut_set_err; proj; rewrite Hp|]; auto.
Qed.

Lemma closs_done s e r : cfut s = Done r -> closs s e = s.
Proof. intro H. unfold connection_lost. rewrite H. reflexivity. Qed.

Definition tail_result (v : N) (m body : str) (exc : option str) : cresult :=
  if cap <? N.of_nat (length body) then RErr (lit "too_large")
  else match exc with
       | Some k => RErr (lit "conn:" ++ k)
       | None => if is_text_meta m && decode_body then
                   match dw (charset_of m) body with
                   | Some t => ROk {| cr_status := v; cr_meta := m; cr_body := CText t |}
                   | None => RErr (lit "decode")
                   end
                 else ROk {| cr_status := v; cr_meta := m; cr_body := CBytes body |}
       end.

Definition Inv (s : cst) (P : str) : Prop :=
  (hdr s = false /\ cfut s = Pending /\ status s = None /\ cbuf s = P /\
   break_crlf P = None /\ header_too_long P = false)
  \/ (hdr s = true /\ cfut s = Pending /\ exists v, status s = Some v /\ is_2x v = true /\
      (cap <? N.of_nat (length (cbuf s))) = false /\
      forall rest exc, spec (P ++ rest) exc = tail_result v (meta s) (cbuf s ++ rest) exc)
  \/ (exists r, cfut s = Done r /\ forall rest exc, spec (P ++ rest) exc = r).

Definition step_post (s1 : cst) (acts : list caction) (P' : str) : Prop :=
  if Spec.C13.has_escape acts
  then forall rest exc, cfut (closs s1 (Some (lit "UnicodeDecodeError"))) = Done (spec (P' ++ rest) exc)
  else if Spec.C13.has_close acts
  then forall rest exc, cfut (closs s1 None) = Done (spec (P' ++ rest) exc)
  else Inv s1 P'.

Lemma step_C s P d r :
  cfut s = Done r -> (forall rest exc, spec (P ++ rest) exc = r) ->
  step_post (fst (data_received cap s d)) (snd (data_received cap s d)) (P ++ d).
Proof.
  intros H Hs. pose proof (dr_done s d r H) as Hd.
  destruct (data_received cap s d) as [s1 acts]. proj. unfold step_post.
  destruct (Spec.C13.has_escape acts); [|destruct (Spec.C13.has_close acts)].
  - intros. rewrite (closs_done _ _ _ Hd), Hd, <- app_assoc, Hs. reflexivity.
  - intros. rewrite (closs_done _ _ _ Hd), Hd, <- app_assoc, Hs. reflexivity.
  - right; right. exists r. split; [assumption|]. intros. rewrite <- app_assoc. apply Hs.
Qed.

Lemma step_B s P d v :
  hdr s = true -> cfut s = Pending -> status s = Some v -> is_2x v = true ->
  (cap <? N.of_nat (length (cbuf s))) = false ->
  (forall rest exc, spec (P ++ rest) exc = tail_result v (meta s) (cbuf s ++ rest) exc) ->
  step_post (fst (data_received cap s d)) (snd (data_received cap s d)) (P ++ d).
Proof.
  intros Hh Hf Hst H2 Hc Hs. unfold data_received. proj. rewrite Hh. proj.
  rewrite Hst, H2. proj.
  destruct (cap <? N.of_nat (length (cbuf s ++ d))) eqn:E; proj; unfold step_post.
  - cbn [app Spec.C13.has_escape Spec.C13.has_close existsb orb].
    intros rest exc. rewrite <- app_assoc, Hs.
    rewrite (closs_done _ None (RErr (lit "too_large"))).
    2:{ rewrite cfut_set_err. proj. rewrite Hf. reflexivity. }
    rewrite cfut_set_err. proj. rewrite Hf. unfold tail_result.
    replace (cap <? N.of_nat (length (cbuf s ++ d ++ rest))) with true; [reflexivity|].
    rewrite !app_length in *. lia.
  - cbn [Spec.C13.has_escape Spec.C13.has_close existsb].
    right; left. proj. split; [reflexivity|]. split; [assumption|].
    exists v. repeat split; try assumption.
    intros rest exc. rewrite <- !app_assoc. apply Hs.
Qed.


(* the verdict of _parse_header on the decoded header line *)
Inductive verdict := VBad (k : str) | VErrSt (v : N) (m : str) (k : str) | VOk (v : N) (m : str).

Definition parse_line (line : str) : verdict :=
  let '(st_txt, found, rest) := partition 32 line in
  match st_txt with
  | [d1; d2] =>
      if is_digit d1 && is_digit d2 then
        let v := (d1 - 48) * 10 + (d2 - 48) in
        let m := if found then rest else [] in
        if negb ((10 <=? v) && (v <? 70)) then VErrSt v m (lit "out_of_range")
        else if mem 13 m || mem 10 m then VErrSt v m (lit "bad_meta")
        else VOk v m
      else VBad (lit "invalid_status")
  | _ => VBad (lit "invalid_status")
  end.

Lemma ph_eq s line : cfut s = Pending ->
  parse_header s line =
  match parse_line line with
  | VBad k => {| cbuf := cbuf s; hdr := hdr s; status := status s; meta := meta s;
                 cfut := Done (RErr k); connected := connected s |}
  | VErrSt v m k => {| cbuf := cbuf s; hdr := hdr s; status := Some v; meta := m;
                       cfut := Done (RErr k); connected := connected s |}
  | VOk v m => {| cbuf := cbuf s; hdr := hdr s; status := Some v; meta := m;
                  cfut := Pending; connected := connected s |}
  end.
Proof.
  intro H. unfold parse_header, parse_line.
  destruct (partition 32 line) as [[st found] rest].
  destruct st as [|d1 [|d2 [|d3 st]]]; try (unfold set_err; rewrite H; reflexivity).
  destruct (is_digit d1 && is_digit d2); [|unfold set_err; rewrite H; reflexivity].
  cbv zeta.
  destruct (negb _); [unfold set_err; proj; rewrite H; reflexivity|].
  destruct (_ || _); [unfold set_err; proj; rewrite H; reflexivity|].
  rewrite H. reflexivity.
Qed.

Definition after_header (l body : str) (exc : option str) : cresult :=
  match decode l with
  | None => RErr (lit "conn:UnicodeDecodeError")
  | Some line =>
      match parse_line line with
      | VBad k => RErr k
      | VErrSt _ _ k => RErr k
      | VOk v m => if is_2x v then tail_result v m body exc
                   else ROk {| cr_status := v; cr_meta := m; cr_body := CNone |}
      end
  end.

Lemma spec_some st l body exc :
  break_crlf st = Some (l, body) -> (max_header_line <? N.of_nat (length l)) = false ->
  spec st exc = after_header l body exc.
Proof.
  unfold Spec.C13.spec_result, after_header, tail_result, parse_line. intros -> ->.
  destruct (decode l) as [line|]; [|reflexivity].
  destruct (partition 32 line) as [[st' found] rest].
  destruct st' as [|d1 [|d2 [|d3 st']]]; try reflexivity.
  destruct (is_digit d1 && is_digit d2); [|reflexivity].
  cbv zeta.
  destruct (negb _); [reflexivity|].
  destruct (_ || _); reflexivity.
Qed.

Lemma spec_htl st exc : header_too_long st = true -> spec st exc = RErr (lit "header_too_long").
Proof.
  unfold header_too_long, Spec.C13.spec_result, Spec.C13.line_len_incomplete.
  destruct (break_crlf st) as [[l b]|]; intros ->; reflexivity.
Qed.

Lemma spec_none st exc : break_crlf st = None -> header_too_long st = false ->
  spec st exc = match exc with Some k => RErr (lit "conn:" ++ k) | None => RErr (lit "closed_before_header") end.
Proof.
  unfold header_too_long, Spec.C13.spec_result, Spec.C13.line_len_incomplete.
  intros ->. intros ->. reflexivity.
Qed.

Ltac esc := cbn [app Spec.C13.has_escape Spec.C13.has_close existsb orb].

Lemma step_A s d :
  hdr s = false -> cfut s = Pending -> status s = None ->
  break_crlf (cbuf s) = None -> header_too_long (cbuf s) = false ->
  step_post (fst (data_received cap s d)) (snd (data_received cap s d)) (cbuf s ++ d).
Proof.
  intros Hh Hf Hst Hn Ht. unfold data_received. proj. rewrite Hh. proj.
  destruct (header_too_long (cbuf s ++ d)) eqn:E1.
  { proj. unfold step_post. esc. intros rest exc.
    rewrite (closs_done _ None (RErr (lit "header_too_long"))).
    2:{ rewrite cfut_set_err. proj. rewrite Hf. reflexivity. }
    rewrite cfut_set_err. proj. rewrite Hf. f_equal. symmetry. apply spec_htl.
    apply htl_mono; assumption. }
  destruct (break_crlf (cbuf s ++ d)) as [[l body]|] eqn:E2.
  2:{ proj. rewrite Hst. proj. unfold step_post. esc. left. proj. repeat split; auto. }
  assert (Hl : (max_header_line <? N.of_nat (length l)) = false).
  { unfold header_too_long in E1. rewrite E2 in E1. exact E1. }
  assert (Hsp : forall rest exc, spec ((cbuf s ++ d) ++ rest) exc = after_header l (body ++ rest) exc).
  { intros. apply spec_some; [apply bc_app_some; assumption|assumption]. }
  unfold step_post.
  destruct (decode l) as [line|] eqn:E3.
  2:{ proj. esc. intros rest exc. rewrite Hsp. unfold after_header. rewrite E3.
      unfold connection_lost, set_err. proj. rewrite Hf. proj. rewrite ?Hf. reflexivity. }
  unfold after_header in Hsp. rewrite E3 in Hsp.
  rewrite ph_eq by exact Hf.
  destruct (parse_line line) as [k|v m k|v m]; proj.
  - rewrite Hst. proj. esc. intros rest exc. rewrite Hsp. reflexivity.
  - destruct (is_2x v) eqn:E4; proj; rewrite ?E4; proj.
    + destruct (cap <? N.of_nat (length body)) eqn:E5; proj; esc.
      * intros rest exc. rewrite Hsp. reflexivity.
      * right; right. exists (RErr k). proj. split; [reflexivity|]. intros; apply Hsp.
    + esc. intros rest exc. rewrite Hsp. reflexivity.
  - destruct (is_2x v) eqn:E4; proj; rewrite ?E4; proj.
    + destruct (cap <? N.of_nat (length body)) eqn:E5; proj; esc.
      * intros rest exc. rewrite Hsp. unfold tail_result.
        replace (cap <? N.of_nat (length (body ++ rest))) with true; [reflexivity|].
        rewrite app_length. lia.
      * right; left. proj. split; [reflexivity|]. split; [reflexivity|].
        exists v. repeat split; try assumption; try (intros; apply Hsp).
    + esc. intros rest exc. rewrite Hsp. unfold connection_lost. proj. rewrite E4. reflexivity.
Qed.

Lemma step_inv s P d : Inv s P ->
  step_post (fst (data_received cap s d)) (snd (data_received cap s d)) (P ++ d).
Proof.
  intros [H|[H|H]].
  - destruct H as (Hh & Hf & Hst & Hb & Hn & Ht). subst P. apply step_A; assumption.
  - destruct H as (Hh & Hf & v & Hst & H2 & Hc & Hs). eapply step_B; eassumption.
  - destruct H as (r & Hr & Hs). eapply step_C; eassumption.
Qed.

Lemma inv_end s P exc : Inv s P -> cfut (closs s exc) = Done (spec P exc).
Proof.
  intros [H|[H|H]].
  - destruct H as (Hh & Hf & Hst & Hb & Hn & Ht). rewrite spec_none by assumption.
    unfold connection_lost. rewrite Hf. destruct exc as [k|].
    + rewrite cfut_set_err, Hf. reflexivity.
    + rewrite Hh. proj. rewrite cfut_set_err, Hf. reflexivity.
  - destruct H as (Hh & Hf & v & Hst & H2 & Hc & Hs).
    specialize (Hs [] exc). rewrite !app_nil_r in Hs. rewrite Hs.
    unfold connection_lost, tail_result. rewrite Hf, Hc. destruct exc as [k|].
    + rewrite cfut_set_err, Hf. reflexivity.
    + rewrite Hh. proj. rewrite Hst, H2.
      destruct (is_text_meta (meta s) && decode_body); [|reflexivity].
      destruct (dw (charset_of (meta s)) (cbuf s)); [reflexivity|].
      rewrite cfut_set_err, Hf. reflexivity.
  - destruct H as (r & Hr & Hs).
    specialize (Hs [] exc). rewrite !app_nil_r in Hs. rewrite Hs.
    rewrite (closs_done _ _ _ Hr). exact Hr.
Qed.

Lemma deliver_spec : forall chunks s P exc, Inv s P ->
  cfut (Spec.C13.deliver decode_body cap dw s chunks exc) = Done (spec (P ++ concat chunks) exc).
Proof.
  induction chunks as [|d r IH]; intros s P exc H.
  - cbn [Spec.C13.deliver concat]. rewrite app_nil_r. apply inv_end; assumption.
  - cbn [Spec.C13.deliver concat]. pose proof (step_inv s P d H) as Hp.
    destruct (data_received cap s d) as [s1 acts]. proj. unfold step_post in Hp.
    rewrite app_assoc.
    destruct (Spec.C13.has_escape acts); [apply Hp|].
    destruct (Spec.C13.has_close acts); [apply Hp|].
    apply IH; assumption.
Qed.

Lemma inv_init : Inv cinit [].
Proof. left. repeat split; reflexivity. Qed.

Lemma refines_ chunks exc :
  cfut (Spec.C13.deliver decode_body cap dw cinit chunks exc) = Done (spec (concat chunks) exc).
Proof. apply (deliver_spec chunks cinit [] exc inv_init). Qed.

(* ====================================================================== *)
(* resolved                                                                *)
(* ====================================================================== *)

Definition J (s : cst) : Prop := cfut s = Pending -> hdr s = true -> status s <> None.

Lemma ph_J s line : cfut (parse_header s line) = Pending -> status (parse_header s line) <> None.
Proof.
  unfold parse_header.
  destruct (partition 32 line) as [[st found] rest].
  assert (E : forall k, cfut (set_err s k) = Pending -> status (set_err s k) <> None).
  { intros k. rewrite cfut_set_err. destruct (cfut s); discriminate. }
  destruct st as [|d1 [|d2 [|d3 st]]]; try apply E.
  destruct (is_digit d1 && is_digit d2); [|apply E].
  cbv zeta.
  destruct (negb _); [rewrite cfut_set_err, status_set_err; proj; discriminate|].
  destruct (_ || _); [rewrite cfut_set_err, status_set_err; proj; discriminate|].
  proj. discriminate.
Qed.

Lemma J_dr s d : J s -> J (fst (data_received cap s d)).
Proof.
  unfold J, data_received. proj. intros HJ.
  destruct (negb (hdr s) && header_too_long (cbuf s ++ d)).
  { proj. rewrite cfut_set_err. proj. destruct (cfut s); discriminate. }
  destruct (hdr s) eqn:Hh; proj.
  { destruct (_ && _); proj.
    - rewrite cfut_set_err. proj. destruct (cfut s); discriminate.
    - intros; apply HJ; auto. }
  destruct (break_crlf (cbuf s ++ d)) as [[l body]|].
  2:{ destruct (_ && _); proj.
      - rewrite cfut_set_err. proj. destruct (cfut s); discriminate.
      - intros; congruence. }
  destruct (decode l) as [line|].
  2:{ proj. intros; congruence. }
  set (s0 := {| cbuf := cbuf s ++ d; hdr := false; status := status s; meta := meta s; cfut := cfut s; connected := connected s |}).
  pose proof (ph_J s0 line) as Hp.
  destruct (status (parse_header s0 line)) as [v|] eqn:Es; proj.
  - destruct (is_2x v) eqn:E2; proj; rewrite ?E2; proj.
    + destruct (cap <? _); proj.
      * rewrite cfut_set_err. proj. destruct (cfut (parse_header s0 line)); discriminate.
      * intros; discriminate.
    + intros; discriminate.
  - intros Hc _. apply Hp in Hc. congruence.
Qed.

Lemma J_closs s exc : J s -> cfut (closs s exc) <> Pending.
Proof.
  unfold J, connection_lost. intro HJ.
  destruct (cfut s) eqn:Hf; [|rewrite Hf; discriminate].
  destruct exc as [k|].
  - rewrite cfut_set_err, Hf; discriminate.
  - destruct (hdr s) eqn:Hh; proj.
    + destruct (status s) as [v|] eqn:Hst.
      * destruct (is_2x v); [|proj; discriminate].
        destruct (_ && _); [|proj; discriminate].
        destruct (dw _ _); [proj; discriminate|].
        rewrite cfut_set_err, Hf; discriminate.
      * exfalso; apply HJ; auto.
    + rewrite cfut_set_err, Hf; discriminate.
Qed.

Section Run.
Variable request : list str.
Variable soc : bool.

Lemma J_cstep s e : J s -> J (fst (cstep request soc decode_body cap dw s e)).
Proof.
  intro HJ. destruct e as [| |d|exc]; cbn [cstep fst].
  - unfold J in *. proj. exact HJ.
  - exact HJ.
  - apply J_dr; assumption.
  - intros Hp. exfalso. revert Hp. apply J_closs; assumption.
Qed.

Lemma resolved_gen : forall evs s exc, J s ->
  cfut (fst (crun request soc decode_body cap dw s (evs ++ [CLost exc]))) <> Pending.
Proof.
  induction evs as [|e evs IH]; intros s exc HJ.
  - cbn [app crun cstep fst]. apply J_closs; assumption.
  - cbn [app crun]. pose proof (J_cstep s e HJ) as H1.
    destruct (cstep request soc decode_body cap dw s e) as [s1 acts]. proj.
    specialize (IH s1 exc H1).
    destruct (crun request soc decode_body cap dw s1 (evs ++ [CLost exc])) as [s2 l]. proj.
    exact IH.
Qed.

Lemma resolved_ evs exc :
  cfut (fst (crun request soc decode_body cap dw cinit (evs ++ [CLost exc]))) <> Pending.
Proof. apply resolved_gen. unfold J. cbn. discriminate. Qed.
End Run.

(* ====================================================================== *)
(* faithful, cap                                                           *)
(* ====================================================================== *)

Lemma faithful_ stream exc r :
  spec stream exc = ROk r ->
  exists l body, break_crlf stream = Some (l, body) /\
    10 <= cr_status r /\ cr_status r < 70 /\
    (cr_body r = CNone <-> is_2x (cr_status r) = false) /\
    (forall b, cr_body r = CBytes b -> b = body) /\
    (forall t, cr_body r = CText t -> dw (charset_of (cr_meta r)) body = Some t).
Proof.
  unfold Spec.C13.spec_result. intro H.
  destruct (break_crlf stream) as [[l body]|].
  2:{ destruct (_ <? _); [discriminate|destruct exc; discriminate]. }
  exists l, body. split; [reflexivity|].
  destruct (max_header_line <? _); [discriminate|].
  destruct (decode l) as [line|]; [|discriminate].
  destruct (partition 32 line) as [[st found] rest].
  destruct st as [|d1 [|d2 [|d3 st]]]; try discriminate.
  destruct (is_digit d1 && is_digit d2); [|discriminate].
  cbv zeta in H.
  remember ((d1 - 48) * 10 + (d2 - 48)) as v.
  remember (if found then rest else []) as m.
  destruct (negb ((10 <=? v) && (v <? 70))) eqn:Er; [discriminate|].
  destruct (mem 13 m || mem 10 m); [discriminate|].
  destruct (is_2x v) eqn:E2.
  - destruct (cap <? _); [discriminate|].
    destruct exc; [discriminate|].
    destruct (is_text_meta m && decode_body).
    + destruct (dw (charset_of m) body) eqn:Ed; [|discriminate].
      inversion H; subst r; cbn [cr_status cr_meta cr_body].
      repeat split; try lia; try discriminate; try congruence.
    + inversion H; subst r; cbn [cr_status cr_meta cr_body].
      repeat split; try lia; try discriminate; try congruence.
  - inversion H; subst r; cbn [cr_status cr_meta cr_body].
    repeat split; try lia; try discriminate; try congruence.
Qed.

Lemma cap_bound_ l body v m exc :
  break_crlf (l ++ [13; 10] ++ body) = Some (l, body) ->
  spec (l ++ [13; 10] ++ body) exc = ROk {| cr_status := v; cr_meta := m; cr_body := CBytes body |} ->
  N.of_nat (length body) <= cap.
Proof.
  unfold Spec.C13.spec_result. intros -> H.
  destruct (max_header_line <? _); [discriminate|].
  destruct (decode l) as [line|]; [|discriminate].
  destruct (partition 32 line) as [[st found] rest].
  destruct st as [|d1 [|d2 [|d3 st]]]; try discriminate.
  destruct (is_digit d1 && is_digit d2); [|discriminate].
  cbv zeta in H.
  destruct (negb _); [discriminate|].
  destruct (_ || _); [discriminate|].
  destruct (is_2x _); [|discriminate].
  destruct (cap <? N.of_nat (length body)) eqn:E; [discriminate|]. lia.
Qed.

End Main.

Definition refines := refines_.
Definition resolved := fun request soc decode_body cap dw => resolved_ decode_body cap dw request soc.
Definition faithful := faithful_.
Definition cap_bound := cap_bound_.

Lemma segmentation : forall decode_body cap dw c1 c2 exc, concat c1 = concat c2 ->
  cfut (Spec.C13.deliver decode_body cap dw cinit c1 exc) = cfut (Spec.C13.deliver decode_body cap dw cinit c2 exc).
Proof. intros. rewrite !refines. rewrite H. reflexivity. Qed.

Close Scope N_scope.
