(* General lemmas about the Model.Url functions (reused by the URL proofs). *)
From Coq Require Import List NArith Bool Lia ZifyBool ZifyN.
From NV Require Import Prelude.Str Prelude.Res Model.Url Spec.UrlOracle Proofs.StrLemmas.
Import ListNotations.
Open Scope N_scope.

(* ---------- span_until ---------- *)
Definition head_sat (p : N -> bool) (b : str) : Prop :=
  b = [] \/ exists y t, b = y :: t /\ p y = true.

Lemma span_until_spec p s a b : span_until p s = (a, b) ->
  s = a ++ b /\ (forall x, In x a -> p x = false) /\ head_sat p b.
Proof.
  unfold head_sat.
  revert a b; induction s as [|x s IH]; simpl; intros a b H.
  - inversion H; subst. split; [reflexivity|]. split; [intros x []|left; reflexivity].
  - destruct (p x) eqn:E.
    + inversion H; subst. split; [reflexivity|]. split; [intros y []|]. right. exists x, s. auto.
    + destruct (span_until p s) as [a' b'] eqn:E2. inversion H; subst.
      destruct (IH a' b eq_refl) as [-> [H1 H2]]. split; [reflexivity|]. split; [|assumption].
      intros y [Hy|Hy]; [subst; assumption|auto].
Qed.

Lemma span_until_app p a b : (forall x, In x a -> p x = false) -> head_sat p b ->
  span_until p (a ++ b) = (a, b).
Proof.
  unfold head_sat.
  intros Ha Hb. induction a as [|x a IH]; simpl.
  - destruct Hb as [->|[y [t [-> Hy]]]]; simpl; [reflexivity|rewrite Hy; reflexivity].
  - rewrite (Ha x (or_introl eq_refl)). rewrite IH; [reflexivity|]. intros; apply Ha; right; assumption.
Qed.

(* ---------- character classes ---------- *)
Definition safe (s : str) : Prop := forall x, In x s -> is_unsafe x = false.

Lemma safe_app a b : safe (a ++ b) <-> safe a /\ safe b.
Proof.
  unfold safe. split.
  - intro H. split; intros x Hx; apply H, in_or_app; auto.
  - intros [Ha Hb] x Hx. apply in_app_or in Hx as [Hx|Hx]; auto.
Qed.
Lemma safe_cons x s : safe (x :: s) <-> is_unsafe x = false /\ safe s.
Proof.
  unfold safe. split.
  - intro H. split; [apply H; left; reflexivity|intros y Hy; apply H; right; assumption].
  - intros [Hx Hs] y [Hy|Hy]; [subst; assumption|auto].
Qed.
Lemma safe_incl a b : (forall x, In x a -> In x b) -> safe b -> safe a.
Proof. unfold safe. auto. Qed.

Lemma clean_url_safe u : safe (clean_url u).
Proof. intros x Hx. unfold clean_url in Hx. apply In_remove_chars in Hx. tauto. Qed.

Lemma is_lower_safe x : is_lower x = true -> is_unsafe x = false.
Proof. unfold is_lower, is_unsafe. lia. Qed.
Lemma is_lower_nodelim x : is_lower x = true -> is_netloc_delim x = false.
Proof. unfold is_lower, is_netloc_delim. lia. Qed.
Lemma is_lower_ascii x : is_lower x = true -> is_ascii x = true.
Proof. unfold is_lower, is_ascii. lia. Qed.
Lemma is_digit_safe x : is_digit x = true -> is_unsafe x = false.
Proof. unfold is_digit, is_unsafe. lia. Qed.
Lemma is_digit_nodelim x : is_digit x = true -> is_netloc_delim x = false.
Proof. unfold is_digit, is_netloc_delim. lia. Qed.
Lemma is_digit_ascii x : is_digit x = true -> is_ascii x = true.
Proof. unfold is_digit, is_ascii. lia. Qed.

(* ---------- lower_host ---------- *)
Lemma lower_host_nil : lower_host [] = [].
Proof. reflexivity. Qed.
Lemma lower_host_cons x s :
  lower_host (x :: s) = if x =? ch_pct then x :: s else lower_ch x :: lower_host s.
Proof.
  unfold lower_host, partition. cbn [break_at]. destruct (x =? ch_pct) eqn:E.
  - apply N.eqb_eq in E. subst. reflexivity.
  - destruct (break_at ch_pct s) as [[a b]|]; reflexivity.
Qed.
Lemma lower_host_cons_nopct x s : x <> ch_pct -> lower_host (x :: s) = lower_ch x :: lower_host s.
Proof. intro H. rewrite lower_host_cons. apply N.eqb_neq in H. rewrite H. reflexivity. Qed.

Lemma lower_ch_pct x : (lower_ch x =? ch_pct) = (x =? ch_pct).
Proof.
  destruct (lower_ch_cases x) as [->|[Hu [-> _]]]; [reflexivity|].
  unfold is_upper, ch_pct in *. lia.
Qed.

Lemma lower_host_idem s : lower_host (lower_host s) = lower_host s.
Proof.
  induction s as [|x s IH]; [reflexivity|].
  rewrite lower_host_cons. destruct (x =? ch_pct) eqn:E.
  - rewrite lower_host_cons, E. reflexivity.
  - rewrite lower_host_cons, lower_ch_pct, E, lower_ch_idem, IH. reflexivity.
Qed.

Lemma In_lower_host c s : In c (lower_host s) -> In c s \/ is_lower c = true.
Proof.
  induction s as [|a s IH]; [simpl; auto|]. rewrite lower_host_cons.
  destruct (a =? ch_pct); [auto|].
  intros [H|H].
  - destruct (lower_ch_cases a) as [E|[_ [_ E]]]; [left; left; congruence|right; congruence].
  - apply IH in H as [H|H]; [left; right; assumption|right; assumption].
Qed.
Lemma notin_lower_host c s : is_lower c = false -> ~ In c s -> ~ In c (lower_host s).
Proof. intros Hc Hs H. apply In_lower_host in H as [H|H]; [auto|congruence]. Qed.

Lemma lower_host_nonempty s : s <> [] -> lower_host s <> [].
Proof.
  destruct s as [|x s]; [congruence|]. intros _. rewrite lower_host_cons.
  destruct (x =? ch_pct); discriminate.
Qed.

(* ---------- ipvfuture ---------- *)
Definition nothex (c : N) : bool := negb (is_hexdigit c).

Lemma ipvfuture_ok_118 r :
  ipvfuture_ok (118 :: r) =
  match span_until nothex r with
  | (_ :: _, 46 :: _ :: _) => true
  | _ => false
  end.
Proof. reflexivity. Qed.

Lemma ipvfuture_ok_head x r : ipvfuture_ok (x :: r) = true -> x = 118.
Proof.
  intro H. unfold ipvfuture_ok in H.
  destruct x as [|p]; [discriminate|].
  repeat (destruct p as [p|p|]; try discriminate). reflexivity.
Qed.

Lemma ipvfuture_ok_inv h : ipvfuture_ok h = true ->
  exists r a0 a y t, h = 118 :: r /\ span_until nothex r = (a0 :: a, 46 :: y :: t).
Proof.
  destruct h as [|x r]; [discriminate|]. intro H.
  pose proof (ipvfuture_ok_head _ _ H); subst x. rewrite ipvfuture_ok_118 in H.
  destruct (span_until nothex r) as [[|a0 a] [|d [|y t]]] eqn:Es; try discriminate.
  - destruct d as [|p]; [discriminate|].
    repeat (destruct p as [p|p|]; try discriminate).
  - assert (d = 46).
    { destruct d as [|p]; [discriminate|].
      repeat (destruct p as [p|p|]; try discriminate). reflexivity. }
    subst d. exists r, a0, a, y, t. auto.
Qed.

Lemma span_hex_lower_host r : forall a y t,
  span_until nothex r = (a, 46 :: y :: t) ->
  exists y' t', span_until nothex (lower_host r) = (lower a, 46 :: y' :: t').
Proof.
  induction r as [|x r IH]; intros a y t H; [simpl in H; discriminate|].
  cbn [span_until] in H. destruct (nothex x) eqn:E.
  - inversion H; subst. rewrite lower_host_cons_nopct by (unfold ch_pct; lia).
    change (lower_ch 46) with 46.
    destruct (lower_host (y :: t)) as [|y' t'] eqn:E2;
      [exfalso; revert E2; apply lower_host_nonempty; discriminate|].
    exists y', t'. reflexivity.
  - destruct (span_until nothex r) as [a' b'] eqn:E2. inversion H; subst.
    destruct (IH a' y t eq_refl) as [y' [t' IH']].
    rewrite lower_host_cons_nopct.
    2:{ unfold nothex, is_hexdigit, is_digit, ch_pct in *. lia. }
    cbn [span_until]. unfold nothex at 1. rewrite is_hexdigit_lower_ch.
    unfold nothex in E. rewrite E, IH'. exists y', t'. reflexivity.
Qed.

Lemma ipvfuture_ok_lower_host h : ipvfuture_ok h = true ->
  ipvfuture_ok (lower_host h) = true /\ prefixb [118] (lower_host h) = true.
Proof.
  intro H. apply ipvfuture_ok_inv in H as (r & a0 & a & y & t & -> & Hs).
  rewrite lower_host_cons_nopct by (unfold ch_pct; lia).
  change (lower_ch 118) with 118. split; [|reflexivity].
  rewrite ipvfuture_ok_118. apply span_hex_lower_host in Hs as (y' & t' & ->). reflexivity.
Qed.

(* the bracketed-host check of check_brackets, and its stability under lower_host *)
Definition bracket_check (ip6 : str -> option str) (bh : str) : option str :=
  if prefixb [118] bh then
    (if ipvfuture_ok bh then None else Some (lit "IPvFuture address is invalid"))
  else ip6 bh.

Lemma bracket_check_lower_host ip6 h : oracle_ok ip6 ->
  bracket_check ip6 h = None -> bracket_check ip6 (lower_host h) = None.
Proof.
  intros [Ho1 Ho2]. unfold bracket_check. destruct (prefixb [118] h) eqn:Ep.
  - destruct (ipvfuture_ok h) eqn:Ei; [|discriminate]. intros _.
    apply ipvfuture_ok_lower_host in Ei as [-> ->]. reflexivity.
  - intro Hi. assert (Hp : prefixb [118] (lower_host h) = false).
    { destruct h as [|x s]; [reflexivity|].
      specialize (Ho2 _ Hi). rewrite lower_host_cons. destruct (x =? ch_pct) eqn:E.
      - apply N.eqb_eq in E. subst. reflexivity.
      - assert (Hx : ip6_char x = true).
        { unfold partition in Ho2. cbn [break_at] in Ho2. rewrite E in Ho2.
          destruct (break_at ch_pct s) as [[a b]|]; cbn [fst forallb] in Ho2;
            apply andb_true_iff in Ho2; tauto. }
        cbn [prefixb] in *. rewrite andb_true_r in *.
        destruct (lower_ch_cases x) as [->|[Hu [-> _]]]; [assumption|].
        unfold ip6_char, is_hexdigit, is_digit, is_upper in *. lia. }
    rewrite Hp. auto.
Qed.

(* ---------- split_scheme ---------- *)
Lemma split_scheme_In u s r : split_scheme u = (s, r) -> forall x, In x r -> In x u.
Proof.
  unfold split_scheme.
  destruct (break_at ch_colon u) as [[[|c0 a] b]|] eqn:E;
    try (intro H; inversion H; subst; auto; fail).
  destruct (is_alpha c0 && forallb is_scheme_char (c0 :: a)); intro H; inversion H; subst; auto.
  apply break_at_Some in E as [-> _]. intros x Hx. apply in_or_app. right. right. assumption.
Qed.

Lemma split_scheme_gemini r : split_scheme (lit "gemini:" ++ r) = (gemini_s, r).
Proof.
  unfold split_scheme. change (lit "gemini:" ++ r) with (lit "gemini" ++ ch_colon :: r).
  rewrite break_at_app; [reflexivity|]. apply mem_false. reflexivity.
Qed.

(* ---------- urlsplit ---------- *)
Definition cut (c : N) (s : str) : str * str :=
  match break_at c s with Some (a, b) => (a, b) | None => (s, []) end.

Lemma urlsplit_unfold ip6 u0 : urlsplit ip6 u0 =
  let u := clean_url u0 in
  let (scheme, u1) := split_scheme u in
  let '(netloc, u2) :=
    if prefixb [47; 47] u1 then span_until is_netloc_delim (drop 2 u1) else ([], u1) in
  if negb (all_ascii netloc) then OutOfModel else
  match check_brackets ip6 netloc with
  | Some m => Err (lit "urlsplit") m
  | None =>
      let '(u3, frag) := cut ch_hash u2 in
      let '(path, query) := cut ch_qm u3 in
      Ok {| u_scheme := scheme; u_netloc := netloc; u_path := path; u_query := query; u_fragment := frag |}
  end.
Proof. reflexivity. Qed.

Lemma cut_inv c s a b : cut c s = (a, b) ->
  ~ In c a /\ (forall x, In x (a ++ b) -> In x s) /\
  (a = [] \/ exists y t t', a = y :: t /\ s = y :: t') /\
  ((s = a /\ b = []) \/ s = a ++ c :: b).
Proof.
  unfold cut. destruct (break_at c s) as [[x y]|] eqn:E; intro H; inversion H; subst.
  - apply break_at_Some in E as [-> Hn]. split; [assumption|]. split.
    + intros z Hz. apply in_app_or in Hz as [Hz|Hz]; apply in_or_app; [left|right; right]; assumption.
    + split; [|right; reflexivity]. destruct a as [|y0 t]; [left; reflexivity|right]. exists y0, t, (t ++ c :: b). auto.
  - apply break_at_None in E. split; [assumption|]. split.
    + intros z Hz. rewrite app_nil_r in Hz. assumption.
    + split; [|left; auto]. destruct a as [|y0 t]; [left; reflexivity|right]. exists y0, t, t. auto.
Qed.

Lemma url_tail_inv u2 u3 frag path query :
  head_sat is_netloc_delim u2 ->
  cut ch_hash u2 = (u3, frag) -> cut ch_qm u3 = (path, query) ->
  (path = [] \/ exists t, path = ch_slash :: t) /\ ~ In ch_qm path /\ ~ In ch_hash path /\
  ~ In ch_hash query /\ (forall x, In x (path ++ query) -> In x u2).
Proof.
  intros Hh H3 H4.
  apply cut_inv in H3 as (Hn3 & Hi3 & Hd3 & _).
  apply cut_inv in H4 as (Hn4 & Hi4 & Hd4 & _).
  assert (Hsub : forall x, In x (path ++ query) -> In x u3) by assumption.
  split; [|split; [assumption|split; [|split]]].
  - destruct Hd4 as [->|(y & t & t' & -> & ->)]; [left; reflexivity|right].
    destruct Hd3 as [Hd3|(y' & t1 & t1' & E1 & ->)]; [discriminate|]. inversion E1; subst y'.
    destruct Hh as [Hh|(y' & t2 & E2 & Hy)]; [discriminate|]. inversion E2; subst y'.
    exists t. f_equal.
    assert (y <> ch_hash) by (intro; subst; apply Hn3; left; reflexivity).
    assert (y <> ch_qm) by (intro; subst; apply Hn4; left; reflexivity).
    unfold is_netloc_delim, ch_hash, ch_qm, ch_slash in *. lia.
  - intro H. apply Hn3, Hsub, in_or_app. auto.
  - intro H. apply Hn3, Hsub, in_or_app. auto.
  - intros x Hx. apply Hi3, in_or_app. left. auto.
Qed.

Lemma urlsplit_inv ip6 u sp : urlsplit ip6 u = Ok sp -> u_netloc sp <> [] ->
  all_ascii (u_netloc sp) = true /\ check_brackets ip6 (u_netloc sp) = None /\
  (forall x, In x (u_netloc sp) -> is_netloc_delim x = false) /\
  safe (u_netloc sp ++ u_path sp ++ u_query sp) /\
  (u_path sp = [] \/ exists t, u_path sp = ch_slash :: t) /\
  ~ In ch_qm (u_path sp) /\ ~ In ch_hash (u_path sp) /\ ~ In ch_hash (u_query sp).
Proof.
  rewrite urlsplit_unfold. cbv zeta.
  destruct (split_scheme (clean_url u)) as [scheme u1] eqn:Es.
  destruct (prefixb [47; 47] u1) eqn:Ep.
  - destruct (span_until is_netloc_delim (drop 2 u1)) as [netloc u2] eqn:Esp.
    destruct (negb (all_ascii netloc)) eqn:Ea; [discriminate|].
    destruct (check_brackets ip6 netloc) eqn:Ec; [discriminate|].
    destruct (cut ch_hash u2) as [u3 frag] eqn:E3.
    destruct (cut ch_qm u3) as [path query] eqn:E4.
    intros H _. inversion H; subst; cbn [u_netloc u_path u_query].
    apply span_until_spec in Esp as (Hd & Hnd & Hhd).
    destruct (url_tail_inv _ _ _ _ _ Hhd E3 E4) as (T1 & T2 & T3 & T4 & T5).
    split; [apply negb_false_iff; assumption|]. split; [assumption|]. split; [assumption|].
    split; [|tauto].
    apply safe_incl with (b := clean_url u); [|apply clean_url_safe].
    intros x Hx. apply (split_scheme_In _ _ _ Es). apply In_drop with (n := 2%nat). rewrite Hd.
    apply in_app_or in Hx as [Hx|Hx]; apply in_or_app; auto.
  - cbv iota beta.
    destruct (negb (all_ascii [])) eqn:Ea; [discriminate|].
    destruct (check_brackets ip6 []) eqn:Ec; [discriminate|].
    destruct (cut ch_hash u1) as [u3 frag] eqn:E3.
    destruct (cut ch_qm u3) as [path query] eqn:E4.
    intros H Hn. inversion H; subst. cbn in Hn. congruence.
Qed.

Lemma urlsplit_build ip6 N P Q :
  all_ascii N = true -> check_brackets ip6 N = None ->
  (forall x, In x N -> is_netloc_delim x = false) ->
  safe (N ++ P ++ Q) -> (exists t, P = ch_slash :: t) ->
  ~ In ch_qm P -> ~ In ch_hash P -> ~ In ch_hash Q ->
  urlsplit ip6 (lit "gemini:" ++ lit "//" ++ N ++ P ++ match Q with [] => [] | _ => ch_qm :: Q end) =
  Ok {| u_scheme := gemini_s; u_netloc := N; u_path := P; u_query := Q; u_fragment := [] |}.
Proof.
  intros Ha Hc Hd Hs [t HP] Hq Hh1 Hh2.
  set (qpart := match Q with [] => [] | _ => ch_qm :: Q end).
  assert (Hsq : safe (N ++ P ++ qpart)).
  { apply safe_app in Hs as [Hs1 Hs2]. apply safe_app in Hs2 as [Hs2 Hs3].
    apply safe_app. split; [assumption|]. apply safe_app. split; [assumption|].
    unfold qpart. destruct Q; [intros ? []|]. apply safe_cons. split; [reflexivity|assumption]. }
  assert (Hcl : clean_url (lit "gemini:" ++ lit "//" ++ N ++ P ++ qpart) =
                lit "gemini:" ++ lit "//" ++ N ++ P ++ qpart).
  { unfold clean_url.
    change (lstrip_by is_c0_or_space (lit "gemini:" ++ lit "//" ++ N ++ P ++ qpart))
      with (lit "gemini:" ++ lit "//" ++ N ++ P ++ qpart).
    apply remove_chars_id. rewrite app_assoc. apply safe_app. split; [|assumption].
    intros x Hx. assert (Hf : forallb (fun c => negb (is_unsafe c)) (lit "gemini:" ++ lit "//") = true) by reflexivity.
    rewrite forallb_forall in Hf. apply Hf in Hx. apply negb_true_iff. assumption. }
  rewrite urlsplit_unfold. cbv zeta. rewrite Hcl, split_scheme_gemini.
  change (prefixb [47; 47] (lit "//" ++ N ++ P ++ qpart)) with true. cbv iota.
  change (drop 2 (lit "//" ++ N ++ P ++ qpart)) with (N ++ P ++ qpart).
  rewrite span_until_app; [|assumption|right; subst P; exists ch_slash; eexists; split; [reflexivity|reflexivity]].
  rewrite Ha. cbn [negb]. rewrite Hc.
  assert (Hh3 : ~ In ch_hash (P ++ qpart)).
  { apply notin_app; [assumption|]. unfold qpart. destruct Q; [intros []|].
    apply notin_cons; [discriminate|assumption]. }
  unfold cut at 1. rewrite (break_at_notin _ _ Hh3).
  unfold cut, qpart. destruct Q as [|q Q'].
  - rewrite app_nil_r. rewrite (break_at_notin _ _ Hq). reflexivity.
  - rewrite break_at_app by assumption. reflexivity.
Qed.

(* ---------- check_brackets ---------- *)
Lemma check_brackets_nobr ip6 N : ~ In ch_lbr N -> ~ In ch_rbr N -> check_brackets ip6 N = None.
Proof.
  intros H1 H2. unfold check_brackets.
  rewrite (notin_mem_false _ _ H1), (notin_mem_false _ _ H2). reflexivity.
Qed.

Lemma check_brackets_br ip6 a h p : ~ In ch_lbr a -> ~ In ch_rbr h ->
  check_brackets ip6 (a ++ ch_lbr :: h ++ ch_rbr :: p) = 
  if mem ch_rbr a then
    (if mem ch_lbr a then bracket_check ip6 h else bracket_check ip6 h)
  else bracket_check ip6 h.
Proof.
  intros H1 H2. unfold check_brackets.
  assert (HL : mem ch_lbr (a ++ ch_lbr :: h ++ ch_rbr :: p) = true).
  { apply In_mem_true, in_or_app. right. left. reflexivity. }
  assert (HR : mem ch_rbr (a ++ ch_lbr :: h ++ ch_rbr :: p) = true).
  { apply In_mem_true, in_or_app. right. right. apply in_or_app. right. left. reflexivity. }
  rewrite HL, HR. cbn [xorb]. cbv iota.
  rewrite partition_found by assumption. rewrite partition_found by assumption.
  destruct (mem ch_rbr a), (mem ch_lbr a); reflexivity.
Qed.

Lemma check_brackets_br' ip6 a h p : ~ In ch_lbr a -> ~ In ch_rbr h ->
  check_brackets ip6 (a ++ ch_lbr :: h ++ ch_rbr :: p) = bracket_check ip6 h.
Proof.
  intros H1 H2. rewrite check_brackets_br by assumption.
  destruct (mem ch_rbr a), (mem ch_lbr a); reflexivity.
Qed.

Lemma check_brackets_None_inv ip6 N : check_brackets ip6 N = None ->
  (~ In ch_lbr N /\ ~ In ch_rbr N) \/
  (exists a b h fr p, N = a ++ ch_lbr :: b /\ ~ In ch_lbr a /\
                      partition ch_rbr b = (h, fr, p) /\ bracket_check ip6 h = None).
Proof.
  unfold check_brackets. destruct (mem ch_lbr N) eqn:EL, (mem ch_rbr N) eqn:ER; cbn [xorb]; cbv iota;
    try discriminate.
  - destruct (partition ch_lbr N) as [[a fr0] b] eqn:E1.
    destruct (partition ch_rbr b) as [[h fr] p] eqn:E2.
    intro H. right. exists a, b, h, fr, p.
    apply partition_inv in E1 as [(_ & -> & Hn)|(_ & _ & _ & Hn)].
    + auto.
    + exfalso. apply Hn. apply mem_In. assumption.
  - intros _. left. split; apply mem_false; assumption.
Qed.

(* ---------- hostinfo ---------- *)
Definition hostinfo_hi (hi : str) : str * str :=
  match partition ch_lbr hi with
  | (_, true, bracketed) =>
      let '(h, _, p) := partition ch_rbr bracketed in
      let '(_, _, p') := partition ch_colon p in (h, p')
  | (_, false, _) =>
      let '(h, _, p) := partition ch_colon hi in (h, p)
  end.

Lemma hostinfo_eq N ui fr hi : rpartition ch_at N = (ui, fr, hi) -> hostinfo N = hostinfo_hi hi.
Proof. intro H. unfold hostinfo. rewrite H. reflexivity. Qed.

Lemma hostinfo_noat N : ~ In ch_at N -> hostinfo N = hostinfo_hi N.
Proof. intro H. apply hostinfo_eq with (ui := []) (fr := false). apply rpartition_notin. assumption. Qed.

Lemma hostinfo_hi_nobr hi : ~ In ch_lbr hi ->
  hostinfo_hi hi = let '(h, _, p) := partition ch_colon hi in (h, p).
Proof. intro H. unfold hostinfo_hi. rewrite partition_notin by assumption. reflexivity. Qed.

Lemma hostinfo_hi_br a b : ~ In ch_lbr a ->
  hostinfo_hi (a ++ ch_lbr :: b) =
  let '(h, _, p) := partition ch_rbr b in let '(_, _, p') := partition ch_colon p in (h, p').
Proof. intro H. unfold hostinfo_hi. rewrite partition_found by assumption. reflexivity. Qed.

Lemma userinfo_noat N : ~ In ch_at N -> userinfo N = (None, None).
Proof. intro H. unfold userinfo. rewrite rpartition_notin by assumption. reflexivity. Qed.

Lemma userinfo_falsy N un pw : userinfo N = (un, pw) -> truthy un || truthy pw = false ->
  exists pre ui fr hi, rpartition ch_at N = (ui, fr, hi) /\ N = pre ++ hi /\ ~ In ch_at hi /\
                       (forall x, In x pre -> x = ch_at \/ x = ch_colon).
Proof.
  unfold userinfo. destruct (rpartition ch_at N) as [[ui fr] hi] eqn:E.
  pose proof (rpartition_inv _ _ _ _ _ E) as [(-> & HN & Hh)|(-> & -> & -> & Hn)].
  - destruct (partition ch_colon ui) as [[un0 f2] pw0] eqn:E2.
    apply partition_inv in E2 as [(-> & Hu & _)|(-> & -> & -> & _)]; intros H Ht; inversion H; subst un pw.
    + destruct un0; [|discriminate]. destruct pw0; [|discriminate].
      exists ((ui ++ [ch_at])), ui, true, hi. split; [reflexivity|]. split.
      * rewrite <- app_assoc. assumption.
      * split; [assumption|]. subst ui. cbn. intuition.
    + destruct ui; [|discriminate].
      exists [ch_at], [], true, hi. split; [reflexivity|]. split; [assumption|]. split; [assumption|].
      cbn. intuition.
  - intros _ _. exists [], [], false, N. split; [reflexivity|]. split; [reflexivity|]. split; [assumption|].
    intros x [].
Qed.

Lemma check_brackets_prefix ip6 pre hi :
  ~ In ch_lbr pre -> ~ In ch_rbr pre -> check_brackets ip6 (pre ++ hi) = check_brackets ip6 hi.
Proof.
  intros H1 H2. unfold check_brackets. rewrite !mem_app.
  rewrite (notin_mem_false _ _ H1), (notin_mem_false _ _ H2). cbn [orb].
  destruct (mem ch_lbr hi) eqn:EL; [|reflexivity].
  destruct (mem ch_rbr hi) eqn:ER; [|reflexivity]. cbn [xorb]. cbv iota.
  unfold partition at 1 3. rewrite break_at_app_l by assumption.
  destruct (break_at ch_lbr hi) as [[x y]|] eqn:E; [reflexivity|].
  apply break_at_None in E. exfalso. apply E, mem_In. assumption.
Qed.

(* ---------- the host/port part: canonical re-rendering ---------- *)
Lemma hostinfo_hi_renorm ip6 hi h0 p0 portpart :
  oracle_ok ip6 -> ~ In ch_at hi -> check_brackets ip6 hi = None ->
  hostinfo_hi hi = (h0, p0) -> h0 <> [] ->
  (portpart = [] \/ exists n, portpart = ch_colon :: dec n) ->
  let h := lower_host h0 in
  let N' := (if mem ch_lbr hi then ch_lbr :: h ++ [ch_rbr] else h) ++ portpart in
  check_brackets ip6 N' = None /\
  hostinfo_hi N' = (h, match portpart with [] => [] | _ :: d => d end) /\
  ~ In ch_at N' /\ mem ch_lbr N' = mem ch_lbr hi /\
  (forall x, In x N' -> In x hi \/ is_lower x = true \/ is_digit x = true \/
                         x = ch_lbr \/ x = ch_rbr \/ x = ch_colon).
Proof.
  intros Ho Hat Hcb Hhi Hne Hpp h N'.
  assert (Hpp_at : ~ In ch_at portpart).
  { destruct Hpp as [->|[n ->]]; [intros []|]. apply notin_cons; [discriminate|].
    intro H. apply dec_digits in H. discriminate. }
  assert (Hpp_lbr : ~ In ch_lbr portpart).
  { destruct Hpp as [->|[n ->]]; [intros []|]. apply notin_cons; [discriminate|].
    intro H. apply dec_digits in H. discriminate. }
  assert (Hpp_rbr : ~ In ch_rbr portpart).
  { destruct Hpp as [->|[n ->]]; [intros []|]. apply notin_cons; [discriminate|].
    intro H. apply dec_digits in H. discriminate. }
  assert (Hpp_cls : forall x, In x portpart -> is_digit x = true \/ x = ch_colon).
  { destruct Hpp as [->|[n ->]]; [intros x []|]. intros x [Hx|Hx]; [right; auto|left].
    apply dec_digits in Hx. assumption. }
  apply check_brackets_None_inv in Hcb as [[HnL HnR]|(a & b & hh & fr & p & -> & HnL & Ep & Hbc)].
  - (* no brackets *)
    rewrite hostinfo_hi_nobr in Hhi by assumption.
    destruct (partition ch_colon hi) as [[hh f] pp] eqn:E. inversion Hhi; subst hh pp.
    assert (Hsub : forall x, In x h0 -> In x hi).
    { apply partition_inv in E as [(_ & -> & _)|(_ & -> & _)]; [|auto].
      intros x Hx. apply in_or_app. auto. }
    assert (Hc0 : ~ In ch_colon h0).
    { apply partition_inv in E as [(_ & _ & Hn)|(_ & -> & _ & Hn)]; assumption. }
    assert (HhL : ~ In ch_lbr h) by (apply notin_lower_host; [reflexivity|auto]).
    assert (HhR : ~ In ch_rbr h) by (apply notin_lower_host; [reflexivity|auto]).
    assert (HhA : ~ In ch_at h) by (apply notin_lower_host; [reflexivity|auto]).
    assert (HhC : ~ In ch_colon h) by (apply notin_lower_host; [reflexivity|auto]).
    unfold N'. rewrite (notin_mem_false _ _ HnL).
    split; [apply check_brackets_nobr; apply notin_app; assumption|].
    split.
    { rewrite hostinfo_hi_nobr by (apply notin_app; assumption).
      destruct Hpp as [->|[n ->]].
      - rewrite app_nil_r. rewrite partition_notin by assumption. reflexivity.
      - rewrite partition_found by assumption. reflexivity. }
    split; [apply notin_app; assumption|].
    split; [apply notin_mem_false, notin_app; assumption|].
    intros x Hx. apply in_app_or in Hx as [Hx|Hx].
    + apply In_lower_host in Hx as [Hx|Hx]; auto.
    + apply Hpp_cls in Hx as [Hx|Hx]; auto 10.
  - (* bracketed *)
    rewrite hostinfo_hi_br in Hhi by assumption. rewrite Ep in Hhi.
    destruct (partition ch_colon p) as [[x1 x2] p'] eqn:E. inversion Hhi; subst hh p'.
    assert (Hsub : forall x, In x h0 -> In x (a ++ ch_lbr :: b)).
    { intros x Hx. apply in_or_app. right. right.
      apply partition_inv in Ep as [(_ & -> & _)|(_ & -> & _)]; [|auto]. apply in_or_app. auto. }
    assert (HR0 : ~ In ch_rbr h0).
    { apply partition_inv in Ep as [(_ & _ & Hn)|(_ & -> & _ & Hn)]; assumption. }
    assert (HhR : ~ In ch_rbr h) by (apply notin_lower_host; [reflexivity|auto]).
    assert (HhA : ~ In ch_at h) by (apply notin_lower_host; [reflexivity|auto]).
    assert (HL : mem ch_lbr (a ++ ch_lbr :: b) = true).
    { apply In_mem_true, in_or_app. right. left. reflexivity. }
    unfold N'. rewrite HL.
    assert (EN : (ch_lbr :: h ++ [ch_rbr]) ++ portpart = [] ++ ch_lbr :: h ++ ch_rbr :: portpart).
    { cbn [app]. rewrite <- app_assoc. reflexivity. }
    rewrite EN.
    split.
    { rewrite check_brackets_br' by (auto; intros []). apply bracket_check_lower_host; assumption. }
    split.
    { rewrite hostinfo_hi_br by (intros []). rewrite partition_found by assumption.
      destruct Hpp as [->|[n ->]].
      - reflexivity.
      - unfold partition. cbn [break_at]. rewrite N.eqb_refl. reflexivity. }
    split.
    { cbn [app]. apply notin_cons; [discriminate|]. apply notin_app; [assumption|].
      apply notin_cons; [discriminate|assumption]. }
    split; [reflexivity|].
    cbn [app]. intros x [Hx|Hx]; [auto 10|].
    apply in_app_or in Hx as [Hx|[Hx|Hx]]; [|auto 10|].
    + apply In_lower_host in Hx as [Hx|Hx]; auto.
    + apply Hpp_cls in Hx as [Hx|Hx]; auto 10.
Qed.

(* ---------- the netloc accessors on a re-rendered netloc ---------- *)
Definition prt_of (po : option N) : N := match po with Some n => n | None => 1965 end.

Definition renorm_netloc (nl : str) (h : str) (prt : N) : str :=
  let host := if mem ch_lbr nl then ch_lbr :: h ++ [ch_rbr] else h in
  if prt =? 1965 then host else host ++ ch_colon :: dec prt.

Lemma port_bound N po : port N = Ok po -> prt_of po <= 65535.
Proof.
  unfold port. destruct (snd (hostinfo N)) as [|x p]; [intro H; inversion H; subst; cbn; lia|].
  destruct (undec (x :: p)) as [n|]; [|discriminate].
  destruct (n <=? 65535) eqn:E; [|discriminate]. intro H; inversion H; subst. cbn. lia.
Qed.

Lemma netloc_renorm ip6 N h un pw po :
  oracle_ok ip6 -> check_brackets ip6 N = None -> hostname N = Some h ->
  userinfo N = (un, pw) -> truthy un || truthy pw = false -> port N = Ok po ->
  let prt := prt_of po in
  let N' := renorm_netloc N h prt in
  check_brackets ip6 N' = None /\ hostname N' = Some h /\ userinfo N' = (None, None) /\
  port N' = Ok (if prt =? 1965 then None else Some prt) /\
  mem ch_lbr N' = mem ch_lbr N /\
  (forall x, In x N' -> In x N \/ is_lower x = true \/ is_digit x = true \/
                        x = ch_lbr \/ x = ch_rbr \/ x = ch_colon) /\
  prt <= 65535 /\ h <> [].
Proof.
  intros Ho Hcb Hh Hu Ht Hp prt N'.
  pose proof (port_bound _ _ Hp) as Hb. fold prt in Hb.
  destruct (userinfo_falsy _ _ _ Hu Ht) as (pre & ui & fr & hi & Er & EN & Hat & Hpre).
  assert (HpL : ~ In ch_lbr pre) by (intro H; apply Hpre in H as [H|H]; discriminate).
  assert (HpR : ~ In ch_rbr pre) by (intro H; apply Hpre in H as [H|H]; discriminate).
  assert (EL : mem ch_lbr N = mem ch_lbr hi).
  { rewrite EN, mem_app, (notin_mem_false _ _ HpL). reflexivity. }
  assert (Hcb' : check_brackets ip6 hi = None).
  { rewrite <- (check_brackets_prefix ip6 pre hi HpL HpR), <- EN. assumption. }
  pose proof (hostinfo_eq _ _ _ _ Er) as Ehi.
  destruct (hostinfo_hi hi) as [h0 p0] eqn:Ehh.
  unfold hostname in Hh. rewrite Ehi in Hh. cbn [fst] in Hh.
  assert (Hh0 : h0 <> [] /\ h = lower_host h0).
  { destruct h0; [discriminate|]. inversion Hh. split; [discriminate|reflexivity]. }
  destruct Hh0 as [Hne ->].
  set (portpart := if prt =? 1965 then [] else ch_colon :: dec prt).
  assert (EN' : N' = (if mem ch_lbr hi then ch_lbr :: lower_host h0 ++ [ch_rbr] else lower_host h0) ++ portpart).
  { unfold N', renorm_netloc, portpart. rewrite EL. destruct (prt =? 1965); [rewrite app_nil_r|]; reflexivity. }
  assert (Hpp : portpart = [] \/ exists n, portpart = ch_colon :: dec n).
  { unfold portpart. destruct (prt =? 1965); [left; reflexivity|right; eexists; reflexivity]. }
  destruct (hostinfo_hi_renorm ip6 hi h0 p0 portpart Ho Hat Hcb' Ehh Hne Hpp) as (C1 & C2 & C3 & C4 & C5).
  rewrite <- EN' in *.
  assert (Hne' : lower_host h0 <> []) by (apply lower_host_nonempty; assumption).
  split; [assumption|]. split.
  { unfold hostname. rewrite (hostinfo_noat _ C3), C2. cbn [fst].
    destruct (lower_host h0) as [|y l] eqn:E; [congruence|]. rewrite <- E, lower_host_idem. reflexivity. }
  split; [apply userinfo_noat; assumption|]. split.
  { unfold port. rewrite (hostinfo_noat _ C3), C2. cbn [snd]. unfold portpart.
    destruct (prt =? 1965); [reflexivity|].
    destruct (dec prt) as [|d ds] eqn:Ed; [exfalso; revert Ed; apply dec_nonempty|].
    rewrite <- Ed, undec_dec. apply N.leb_le in Hb. rewrite Hb. reflexivity. }
  split; [congruence|]. split; [|split; assumption].
  intros x Hx. apply C5 in Hx as [Hx|Hx]; [left|right; assumption].
  rewrite EN. apply in_or_app. auto.
Qed.

(* ---------- parse_url, one step unfolded ---------- *)
Definition parse_build (nl h : str) (po : option N) (P Q : str) : parsed :=
  let prt := match po with Some n => n | None => 1965 end in
  let path := match P with [] => [ch_slash] | x :: l => x :: l end in
  let host := if mem ch_lbr nl then ch_lbr :: h ++ [ch_rbr] else h in
  let netloc' := if prt =? 1965 then host else host ++ ch_colon :: dec prt in
  {| p_host := h; p_port := prt; p_path := path; p_query := Q;
     p_norm := urlunsplit_gemini netloc' path Q |}.

Lemma parse_url_inv ip6 u c : parse_url ip6 u = Ok c ->
  exists sp h un pw po,
    urlsplit ip6 u = Ok sp /\ u_scheme sp = gemini_s /\ hostname (u_netloc sp) = Some h /\
    userinfo (u_netloc sp) = (un, pw) /\ truthy un || truthy pw = false /\
    u_fragment sp = [] /\ port (u_netloc sp) = Ok po /\
    c = parse_build (u_netloc sp) h po (u_path sp) (u_query sp).
Proof.
  unfold parse_url. destruct u as [|u0 u']; [discriminate|].
  destruct (urlsplit ip6 (u0 :: u')) as [sp| |] eqn:Es; cbn [bind]; try discriminate.
  destruct (u_scheme sp) as [|s0 s'] eqn:Esch; [discriminate|].
  destruct (negb (eqb (s0 :: s') gemini_s)) eqn:Eg; [discriminate|].
  destruct (hostname (u_netloc sp)) as [h|] eqn:Eh; [|discriminate].
  destruct (userinfo (u_netloc sp)) as [un pw] eqn:Eu.
  destruct (truthy un || truthy pw) eqn:Et; [discriminate|].
  destruct (u_fragment sp) eqn:Ef; [|discriminate].
  destruct (port (u_netloc sp)) as [po| |] eqn:Ep; cbn [bind]; try discriminate.
  intro H. inversion H. exists sp, h, un, pw, po.
  apply negb_false_iff, eqb_spec in Eg.
  subst c. repeat (split; [first [assumption|congruence|reflexivity]|]). reflexivity.
Qed.

Lemma parse_url_intro ip6 u sp h po :
  u <> [] -> urlsplit ip6 u = Ok sp -> u_scheme sp = gemini_s -> hostname (u_netloc sp) = Some h ->
  userinfo (u_netloc sp) = (None, None) -> u_fragment sp = [] -> port (u_netloc sp) = Ok po ->
  parse_url ip6 u = Ok (parse_build (u_netloc sp) h po (u_path sp) (u_query sp)).
Proof.
  intros Hu Es Esch Eh Eu Ef Ep. unfold parse_url. destruct u as [|u0 u']; [congruence|].
  rewrite Es. cbn [bind]. rewrite Esch. change gemini_s with (103 :: lit "emini") at 1.
  cbv iota. change (103 :: lit "emini") with gemini_s. rewrite eqb_refl. cbn [negb].
  rewrite Eh, Eu. cbn [truthy orb]. rewrite Ef, Ep. cbn [bind]. reflexivity.
Qed.

Lemma urlunsplit_gemini_slash nl t Q :
  urlunsplit_gemini nl (ch_slash :: t) Q =
  lit "gemini:" ++ lit "//" ++ nl ++ (ch_slash :: t) ++ match Q with [] => [] | _ => ch_qm :: Q end.
Proof. reflexivity. Qed.

(* ---------- the host text is a piece of the netloc ---------- *)
Lemma partition_fst_incl c s a fr b : partition c s = (a, fr, b) -> forall x, In x a -> In x s.
Proof.
  intro H. apply partition_inv in H as [(_ & -> & _)|(_ & -> & _)]; [|auto].
  intros x Hx. apply in_or_app. auto.
Qed.
Lemma partition_snd_incl c s a fr b : partition c s = (a, fr, b) -> forall x, In x b -> In x s.
Proof.
  intro H. apply partition_inv in H as [(_ & -> & _)|(_ & _ & -> & _)]; [|intros x []].
  intros x Hx. apply in_or_app. right. right. assumption.
Qed.

Lemma hostinfo_fst_incl nl : forall x, In x (fst (hostinfo nl)) -> In x nl.
Proof.
  unfold hostinfo. destruct (rpartition ch_at nl) as [[ui fr] hi] eqn:Er.
  assert (Hhi : forall x, In x hi -> In x nl).
  { apply rpartition_inv in Er as [(_ & -> & _)|(_ & _ & -> & _)]; [|auto].
    intros x Hx. apply in_or_app. right. right. assumption. }
  destruct (partition ch_lbr hi) as [[a [|]] b] eqn:E1.
  - destruct (partition ch_rbr b) as [[h f2] p] eqn:E2.
    destruct (partition ch_colon p) as [[y1 y2] p'] eqn:E3. cbn [fst].
    intros x Hx. apply Hhi. apply (partition_snd_incl _ _ _ _ _ E1).
    apply (partition_fst_incl _ _ _ _ _ E2). assumption.
  - destruct (partition ch_colon hi) as [[h f2] p] eqn:E2. cbn [fst].
    intros x Hx. apply Hhi. apply (partition_fst_incl _ _ _ _ _ E2). assumption.
Qed.

Lemma hostname_Some_inv nl h : hostname nl = Some h ->
  h <> [] /\ nl <> [] /\ forall x, In x h -> In x nl \/ is_lower x = true.
Proof.
  unfold hostname. pose proof (hostinfo_fst_incl nl) as Hi.
  destruct (fst (hostinfo nl)) as [|y l] eqn:E; [discriminate|]. intro H. inversion H.
  split; [apply lower_host_nonempty; discriminate|]. split.
  - intro En. subst nl. apply (Hi y). left. reflexivity.
  - intros x Hx. apply In_lower_host in Hx as [Hx|Hx]; auto.
Qed.

Close Scope N_scope.
