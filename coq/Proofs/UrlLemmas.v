(* General lemmas about the Model.Url functions (reused by the URL proofs). *)
From Coq Require Import List NArith Bool Lia ZifyBool ZifyN.
From NV Require Import Prelude.Str Prelude.Res Model.Url Spec.UrlOracle Proofs.StrLemmas.
Import ListNotations.
Open Scope N_scope.

(* ---------- span_until ---------- *)
Definition head_sat (p : N -> bool) (b : str) : Prop :=
  b = [] \/ exists y t, b = y :: t /\ p y = true.

Lemma span_until_spec p s a b : span_until p s = (a, b) ->
  s = a ++ b /\ (forall x, In x a -> p x = false) /\ head_sat p b.
Proof.
  unfold head_sat.
  revert a b; induction s as [|x s IH]; simpl; intros a b H.
  - inversion H; subst. split; [reflexivity|]. split; [intros x []|left; reflexivity].
  - destruct (p x) eqn:E.
    + inversion H; subst. split; [reflexivity|]. split; [intros y []|]. right. exists x, s. auto.
    + destruct (span_until p s) as [a' b'] eqn:E2. inversion H; subst.
      destruct (IH a' b eq_refl) as [-> [H1 H2]]. split; [reflexivity|]. split; [|assumption].
      intros y [Hy|Hy]; [subst; assumption|auto].
Qed.

Lemma span_until_app p a b : (forall x, In x a -> p x = false) -> head_sat p b ->
  span_until p (a ++ b) = (a, b).
Proof.
  unfold head_sat.
  intros Ha Hb. induction a as [|x a IH]; simpl.
  - destruct Hb as [->|[y [t [-> Hy]]]]; simpl; [reflexivity|rewrite Hy; reflexivity].
  - rewrite (Ha x (or_introl eq_refl)). rewrite IH; [reflexivity|]. intros; apply Ha; right; assumption.
Qed.

(* ---------- character classes ---------- *)
Definition safe (s : str) : Prop := forall x, In x s -> is_unsafe x = false.

Lemma safe_app a b : safe (a ++ b) <-> safe a /\ safe b.
Proof.
  unfold safe. split.
  - intro H. split; intros x Hx; apply H, in_or_app; auto.
  - intros [Ha Hb] x Hx. apply in_app_or in Hx as [Hx|Hx]; auto.
Qed.
Lemma safe_cons x s : safe (x :: s) <-> is_unsafe x = false /\ safe s.
Proof.
  unfold safe. split.
  - intro H. split; [apply H; left; reflexivity|intros y Hy; apply H; right; assumption].
  - intros [Hx Hs] y [Hy|Hy]; [subst; assumption|auto].
Qed.
Lemma safe_incl a b : (forall x, In x a -> In x b) -> safe b -> safe a.
Proof. unfold safe. auto. Qed.

Lemma clean_url_safe u : safe (clean_url u).
Proof. intros x Hx. unfold clean_url in Hx. apply In_remove_chars in Hx. tauto. Qed.

Lemma is_lower_safe x : is_lower x = true -> is_unsafe x = false.
Proof. unfold is_lower, is_unsafe. lia. Qed.
Lemma is_lower_nodelim x : is_lower x = true -> is_netloc_delim x = false.
Proof. unfold is_lower, is_netloc_delim. lia. Qed.
Lemma is_lower_ascii x : is_lower x = true -> is_ascii x = true.
Proof. unfold is_lower, is_ascii. lia. Qed.
Lemma is_digit_safe x : is_digit x = true -> is_unsafe x = false.
Proof. unfold is_digit, is_unsafe. lia. Qed.
Lemma is_digit_nodelim x : is_digit x = true -> is_netloc_delim x = false.
Proof. unfold is_digit, is_netloc_delim. lia. Qed.
Lemma is_digit_ascii x : is_digit x = true -> is_ascii x = true.
Proof. unfold is_digit, is_ascii. lia. Qed.

(* ---------- lower_host ---------- *)
Lemma lower_host_nil : lower_host [] = [].
Proof. reflexivity. Qed.
Lemma lower_host_cons x s :
  lower_host (x :: s) = if x =? ch_pct then x :: s else lower_ch x :: lower_host s.
Proof.
  unfold lower_host, partition. cbn [break_at]. destruct (x =? ch_pct) eqn:E.
  - apply N.eqb_eq in E. subst. reflexivity.
  - destruct (break_at ch_pct s) as [[a b]|]; reflexivity.
Qed.
Lemma lower_host_cons_nopct x s : x <> ch_pct -> lower_host (x :: s) = lower_ch x :: lower_host s.
Proof. intro H. rewrite lower_host_cons. apply N.eqb_neq in H. rewrite H. reflexivity. Qed.

Lemma lower_ch_pct x : (lower_ch x =? ch_pct) = (x =? ch_pct).
Proof.
  destruct (lower_ch_cases x) as [->|[Hu [-> _]]]; [reflexivity|].
  unfold is_upper, ch_pct in *. lia.
Qed.

Lemma lower_host_idem s : lower_host (lower_host s) = lower_host s.
Proof.
  induction s as [|x s IH]; [reflexivity|].
  rewrite lower_host_cons. destruct (x =? ch_pct) eqn:E.
  - rewrite lower_host_cons, E. reflexivity.
  - rewrite lower_host_cons, lower_ch_pct, E, lower_ch_idem, IH. reflexivity.
Qed.

Lemma In_lower_host c s : In c (lower_host s) -> In c s \/ is_lower c = true.
Proof.
  induction s as [|a s IH]; [simpl; auto|]. rewrite lower_host_cons.
  destruct (a =? ch_pct); [auto|].
  intros [H|H].
  - destruct (lower_ch_cases a) as [E|[_ [_ E]]]; [left; left; congruence|right; congruence].
  - apply IH in H as [H|H]; [left; right; assumption|right; assumption].
Qed.
Lemma notin_lower_host c s : is_lower c = false -> ~ In c s -> ~ In c (lower_host s).
Proof. intros Hc Hs H. apply In_lower_host in H as [H|H]; [auto|congruence]. Qed.

Lemma lower_host_nonempty s : s <> [] -> lower_host s <> [].
Proof.
  destruct s as [|x s]; [congruence|]. intros _. rewrite lower_host_cons.
  destruct (x =? ch_pct); discriminate.
Qed.

(* ---------- ipvfuture ---------- *)
Definition nothex (c : N) : bool := negb (is_hexdigit c).

Lemma ipvfuture_ok_118 r :
  ipvfuture_ok (118 :: r) =
  match span_until nothex r with
  | (_ :: _, 46 :: _ :: _) => true
  | _ => false
  end.
Proof. reflexivity. Qed.

Lemma ipvfuture_ok_head x r : ipvfuture_ok (x :: r) = true -> x = 118.
Proof.
  intro H. unfold ipvfuture_ok in H.
  destruct x as [|p]; [discriminate|].
  repeat (destruct p as [p|p|]; try discriminate). reflexivity.
Qed.

Lemma ipvfuture_ok_inv h : ipvfuture_ok h = true ->
  exists r a0 a y t, h = 118 :: r /\ span_until nothex r = (a0 :: a, 46 :: y :: t).
Proof.
  destruct h as [|x r]; [discriminate|]. intro H.
  pose proof (ipvfuture_ok_head _ _ H); subst x. rewrite ipvfuture_ok_118 in H.
  destruct (span_until nothex r) as [[|a0 a] [|d [|y t]]]; try discriminate.
  - destruct d as [|p]; [discriminate|].
    repeat (destruct p as [p|p|]; try discriminate).
  - assert (d = 46).
    { destruct d as [|p]; [discriminate|].
      repeat (destruct p as [p|p|]; try discriminate). reflexivity. }
    subst d. exists r, a0, a, y, t. auto.
Qed.

Lemma span_hex_lower_host r : forall a y t,
  span_until nothex r = (a, 46 :: y :: t) ->
  exists y' t', span_until nothex (lower_host r) = (lower a, 46 :: y' :: t').
Proof.
  induction r as [|x r IH]; intros a y t H; [simpl in H; discriminate|].
  cbn [span_until] in H. destruct (nothex x) eqn:E.
  - inversion H; subst. rewrite lower_host_cons_nopct by (unfold ch_pct; lia).
    change (lower_ch 46) with 46.
    destruct (lower_host (y :: t)) as [|y' t'] eqn:E2;
      [exfalso; revert E2; apply lower_host_nonempty; discriminate|].
    exists y', t'. reflexivity.
  - destruct (span_until nothex r) as [a' b'] eqn:E2. inversion H; subst.
    destruct (IH a' y t eq_refl) as [y' [t' IH']].
    rewrite lower_host_cons_nopct.
    2:{ unfold nothex, is_hexdigit, is_digit, ch_pct in *. lia. }
    cbn [span_until]. unfold nothex at 1. rewrite is_hexdigit_lower_ch.
    unfold nothex in E. rewrite E, IH'. exists y', t'. reflexivity.
Qed.

Lemma ipvfuture_ok_lower_host h : ipvfuture_ok h = true ->
  ipvfuture_ok (lower_host h) = true /\ prefixb [118] (lower_host h) = true.
Proof.
  intro H. apply ipvfuture_ok_inv in H as (r & a0 & a & y & t & -> & Hs).
  rewrite lower_host_cons_nopct by (unfold ch_pct; lia).
  change (lower_ch 118) with 118. split; [|reflexivity].
  rewrite ipvfuture_ok_118. apply span_hex_lower_host in Hs as (y' & t' & ->). reflexivity.
Qed.

(* the bracketed-host check of check_brackets, and its stability under lower_host *)
Definition bracket_check (ip6 : str -> option str) (bh : str) : option str :=
  if prefixb [118] bh then
    (if ipvfuture_ok bh then None else Some (lit "IPvFuture address is invalid"))
  else ip6 bh.

Lemma bracket_check_lower_host ip6 h : oracle_ok ip6 ->
  bracket_check ip6 h = None -> bracket_check ip6 (lower_host h) = None.
Proof.
  intros [Ho1 Ho2]. unfold bracket_check. destruct (prefixb [118] h) eqn:Ep.
  - destruct (ipvfuture_ok h) eqn:Ei; [|discriminate]. intros _.
    apply ipvfuture_ok_lower_host in Ei as [-> ->]. reflexivity.
  - intro Hi. assert (Hp : prefixb [118] (lower_host h) = false).
    { destruct h as [|x s]; [reflexivity|].
      specialize (Ho2 _ Hi). rewrite lower_host_cons. destruct (x =? ch_pct) eqn:E.
      - apply N.eqb_eq in E. subst. reflexivity.
      - assert (Hx : ip6_char x = true).
        { unfold partition in Ho2. cbn [break_at] in Ho2. rewrite E in Ho2.
          destruct (break_at ch_pct s) as [[a b]|]; cbn [fst forallb] in Ho2;
            apply andb_true_iff in Ho2; tauto. }
        cbn [prefixb] in *. rewrite andb_true_r in *.
        destruct (lower_ch_cases x) as [->|[Hu [-> _]]]; [assumption|].
        unfold ip6_char, is_hexdigit, is_digit, is_upper in *. lia. }
    rewrite Hp. auto.
Qed.

Close Scope N_scope.
