(* Proofs for Props/C06.v (PyOpenSSL pump bookkeeping) and Props/C20.v (TLS floor / gate). *)
From Coq Require Import List NArith Bool Arith Lia ZifyBool ZifyN ZifyNat.
From NV Require Import Prelude.Str Model.ServerProto Model.TlsPump Model.TlsConfig.
Import ListNotations.

(* ---------- the two chunk sizes: only positivity is ever needed ---------- *)
Lemma record_max_pos : 0 < record_max.
Proof. apply Nat.ltb_lt. vm_compute. reflexivity. Qed.
Lemma bio_piece_pos : 0 < bio_piece.
Proof. apply Nat.ltb_lt. vm_compute. reflexivity. Qed.
Lemma record_max_lt_65536 : (N.of_nat record_max < 65536)%N.
Proof. unfold record_max. rewrite N2Nat.id. reflexivity. Qed.

Global Opaque record_max bio_piece.

(* ---------- generic chunking loop ---------- *)
Section Chunks.
  Variable n : nat.
  Hypothesis Hn : 0 < n.

  Fixpoint chunks_fuel (fuel : nat) (d : str) : list str :=
    match fuel with
    | O => []
    | S f => match d with
             | [] => []
             | _ => take n d :: chunks_fuel f (drop n d)
             end
    end.

  Lemma chunks_ok : forall fuel d, length d <= fuel ->
    concat (chunks_fuel fuel d) = d /\
    Forall (fun r => r <> [] /\ length r <= n) (chunks_fuel fuel d).
  Proof.
    induction fuel as [|f IH]; intros d Hd.
    - destruct d; [|simpl in Hd; lia]. simpl. split; [reflexivity|constructor].
    - destruct d as [|x d'].
      + simpl. split; [reflexivity|constructor].
      + remember (x :: d') as d eqn:Ed.
        assert (Hlen : 1 <= length d) by (subst d; simpl; lia).
        assert (Hs : chunks_fuel (S f) d = take n d :: chunks_fuel f (drop n d))
          by (subst d; reflexivity).
        rewrite Hs. clear Hs.
        assert (Hdrop : length (drop n d) <= f) by (rewrite drop_length; lia).
        destruct (IH _ Hdrop) as [IH1 IH2].
        split.
        * change (take n d ++ concat (chunks_fuel f (drop n d)) = d).
          rewrite IH1. apply take_drop.
        * constructor; [|exact IH2]. split.
          -- intro E. apply (f_equal (@length N)) in E. rewrite take_length in E.
             simpl in E. lia.
          -- rewrite take_length. lia.
  Qed.
End Chunks.

Lemma sendall_fuel_chunks : forall fuel d, sendall_fuel fuel d = chunks_fuel record_max fuel d.
Proof.
  induction fuel as [|f IH]; intros d; [reflexivity|].
  destruct d as [|x d']; [reflexivity|].
  change (sendall_fuel (S f) (x :: d'))
    with (take record_max (x :: d') :: sendall_fuel f (drop record_max (x :: d'))).
  change (chunks_fuel record_max (S f) (x :: d'))
    with (take record_max (x :: d') :: chunks_fuel record_max f (drop record_max (x :: d'))).
  rewrite IH. reflexivity.
Qed.

Lemma flush_fuel_chunks : forall fuel d, flush_fuel fuel d = chunks_fuel bio_piece fuel d.
Proof.
  induction fuel as [|f IH]; intros d; [reflexivity|].
  destruct d as [|x d']; [reflexivity|].
  change (flush_fuel (S f) (x :: d'))
    with (take bio_piece (x :: d') :: flush_fuel f (drop bio_piece (x :: d'))).
  change (chunks_fuel bio_piece (S f) (x :: d'))
    with (take bio_piece (x :: d') :: chunks_fuel bio_piece f (drop bio_piece (x :: d'))).
  rewrite IH. reflexivity.
Qed.

(* ---------- C06 ---------- *)
Theorem sendall_complete : forall d,
  concat (sendall d) = d /\ Forall (fun r => r <> [] /\ length r <= record_max) (sendall d).
Proof.
  intro d. unfold sendall. rewrite sendall_fuel_chunks.
  apply chunks_ok; [exact record_max_pos|lia].
Qed.

Theorem flush_complete : forall b,
  concat (flush b) = b /\ Forall (fun p => p <> [] /\ length p <= bio_piece) (flush b).
Proof.
  intro b. unfold flush. rewrite flush_fuel_chunks.
  apply chunks_ok; [exact bio_piece_pos|lia].
Qed.

(* the header's two length bytes recombine to the record length *)
Lemma hdr_len : forall L : nat,
  N.to_nat (N.of_nat L / 256 * 256 + N.of_nat L mod 256)%N = L.
Proof.
  intro L.
  rewrite (N.mul_comm (N.of_nat L / 256) 256).
  rewrite <- (N.div_mod (N.of_nat L) 256) by discriminate.
  apply Nat2N.id.
Qed.

Lemma frame_eq : forall r,
  frame r = 23%N :: 3%N :: 3%N :: (N.of_nat (length r) / 256)%N :: (N.of_nat (length r) mod 256)%N :: r.
Proof. reflexivity. Qed.

Lemma deframe_fuel_step : forall f a b c hi lo rest,
  deframe_fuel (S f) (a :: b :: c :: hi :: lo :: rest) =
  take (N.to_nat (hi * 256 + lo)%N) rest ++ deframe_fuel f (drop (N.to_nat (hi * 256 + lo)%N) rest).
Proof. reflexivity. Qed.

Lemma deframe_fuel_frames : forall rs fuel, length rs <= fuel ->
  deframe_fuel fuel (concat (map frame rs)) = concat rs.
Proof.
  induction rs as [|r rs IH]; intros fuel Hf.
  - destruct fuel; reflexivity.
  - destruct fuel as [|f]; [simpl in Hf; lia|].
    change (concat (map frame (r :: rs))) with (frame r ++ concat (map frame rs)).
    rewrite frame_eq.
    change ((23%N :: 3%N :: 3%N :: (N.of_nat (length r) / 256)%N :: (N.of_nat (length r) mod 256)%N :: r)
              ++ concat (map frame rs))
      with (23%N :: 3%N :: 3%N :: (N.of_nat (length r) / 256)%N :: (N.of_nat (length r) mod 256)%N
              :: (r ++ concat (map frame rs))).
    rewrite deframe_fuel_step. rewrite hdr_len.
    rewrite take_app_length, drop_app_length.
    change (concat (r :: rs)) with (r ++ concat rs).
    f_equal. apply IH. simpl in Hf. lia.
Qed.

Lemma frames_length : forall rs, length rs <= length (concat (map frame rs)).
Proof.
  induction rs as [|r rs IH]; [simpl; lia|].
  change (concat (map frame (r :: rs))) with (frame r ++ concat (map frame rs)).
  rewrite app_length, frame_eq. simpl length. lia.
Qed.

Lemma deframe_frames : forall rs, deframe (concat (map frame rs)) = concat rs.
Proof. intro rs. unfold deframe. apply deframe_fuel_frames, frames_length. Qed.

Lemma concat_wrapper_write : forall d, concat (wrapper_write d) = concat (map frame (sendall d)).
Proof. intro d. unfold wrapper_write. apply flush_complete. Qed.

Theorem pump_delivers : forall d, deframe (concat (wrapper_write d)) = d.
Proof.
  intro d. rewrite concat_wrapper_write, deframe_frames. apply sendall_complete.
Qed.

Theorem response_delivers : forall r,
  let (h, b) := serialize r in
  deframe (concat (wrapper_write h ++ wrapper_write b)) = h ++ b.
Proof.
  intro r. destruct (serialize r) as [h b].
  rewrite concat_app, !concat_wrapper_write, <- concat_app, <- map_app, deframe_frames.
  rewrite concat_app.
  rewrite (proj1 (sendall_complete h)), (proj1 (sendall_complete b)). reflexivity.
Qed.

Theorem single_send_truncates : exists d : str, fst (ssl_send d) <> d.
Proof.
  exists (repeat 0%N (S record_max)). unfold ssl_send, fst. intro E.
  apply (f_equal (@length N)) in E. rewrite take_length, repeat_length in E. lia.
Qed.

(* ---------- C20 ---------- *)

(* The statement of Props/C20.v C20_negotiation_floor is FALSE for the oracle `negotiate`
   as modelled: when the peer offers more than the context's maximum, `negotiate` answers
   the context's maximum without comparing it to the minimum. *)
Lemma negotiation_floor_counterexample :
  exists ops offered v,
    Nat.leb (vnum TLS1_2) (vnum (effective_min ops)) = true /\
    negotiate ops offered = Some v /\ ~ vnum TLS1_2 <= vnum v.
Proof.
  exists [SetMin TLS1_2; SetMax TLS1_0], TLS1_3, TLS1_0.
  split; [reflexivity|]. split; [reflexivity|]. simpl. lia.
Qed.

(* strongest variant: with the ceiling also >= TLS 1.2 (exactly what floor_ok checks) *)
Theorem negotiation_floor_partial : forall ops offered v,
  Nat.leb (vnum TLS1_2) (vnum (effective_min ops)) = true ->
  Nat.leb (vnum TLS1_2) (vnum (effective_max ops)) = true ->
  negotiate ops offered = Some v -> vnum TLS1_2 <= vnum v.
Proof.
  intros ops offered v Hmin Hmax. unfold negotiate.
  apply Nat.leb_le in Hmin. apply Nat.leb_le in Hmax.
  destruct (Nat.leb (vnum (effective_min ops)) (vnum offered)) eqn:E1; [|discriminate].
  apply Nat.leb_le in E1.
  destruct (Nat.leb (vnum offered) (vnum (effective_max ops))) eqn:E2;
    intro H; inversion H; subst; lia.
Qed.

(* same conclusion for any consistent configuration (floor <= ceiling) *)
Theorem negotiation_floor_partial_consistent : forall ops offered v,
  Nat.leb (vnum TLS1_2) (vnum (effective_min ops)) = true ->
  vnum (effective_min ops) <= vnum (effective_max ops) ->
  negotiate ops offered = Some v -> vnum TLS1_2 <= vnum v.
Proof.
  intros ops offered v Hmin Hc. apply negotiation_floor_partial; [exact Hmin|].
  apply Nat.leb_le. apply Nat.leb_le in Hmin. lia.
Qed.

(* and exactly when the original conclusion holds, given the floor *)
Theorem negotiation_floor_iff : forall ops offered v,
  Nat.leb (vnum TLS1_2) (vnum (effective_min ops)) = true ->
  negotiate ops offered = Some v ->
  (vnum TLS1_2 <= vnum v <->
   (vnum offered <= vnum (effective_max ops) \/ vnum TLS1_2 <= vnum (effective_max ops))).
Proof.
  intros ops offered v Hmin. unfold negotiate. apply Nat.leb_le in Hmin.
  destruct (Nat.leb (vnum (effective_min ops)) (vnum offered)) eqn:E1; [|discriminate].
  apply Nat.leb_le in E1.
  destruct (Nat.leb (vnum offered) (vnum (effective_max ops))) eqn:E2;
    intro H; inversion H; subst.
  - apply Nat.leb_le in E2. split; intro; [left; exact E2|lia].
  - apply Nat.leb_gt in E2. split; intro; [right; assumption|lia].
Qed.

(* --- the phase machine --- *)
Lemma In_map_TInnerData : forall a pl, In a (map TInnerData pl) -> exists d, a = TInnerData d.
Proof. intros a pl H. apply in_map_iff in H. destruct H as [d [E _]]. exists d. auto. Qed.

Lemma tstep_made : forall s e,
  In TInnerMade (snd (tstep s e)) -> exists pl, e = TRead HsDone pl.
Proof.
  intros [p t i] e H. unfold tstep in H.
  destruct p; destruct e as [v pl| |]; try destruct v; cbn [ph hs_timer inner snd] in H;
    try (exists pl; reflexivity);
    try (destruct t); try (destruct i); cbn [snd In] in H;
    try (apply In_map_TInnerData in H; destruct H as [d H]; discriminate);
    repeat (destruct H as [H|H]; try discriminate); try contradiction.
Qed.

Lemma trun_cons : forall s e r,
  trun s (e :: r) = (fst (trun (fst (tstep s e)) r), snd (tstep s e) ++ snd (trun (fst (tstep s e)) r)).
Proof.
  intros s e r. cbn [trun]. destruct (tstep s e) as [s1 a]. cbn [fst snd].
  destruct (trun s1 r) as [s2 b]. reflexivity.
Qed.

Lemma gate_gen : forall evs s,
  In TInnerMade (snd (trun s evs)) -> exists pre pl post, evs = pre ++ TRead HsDone pl :: post.
Proof.
  induction evs as [|e r IH]; intros s H.
  - simpl in H. contradiction.
  - rewrite trun_cons in H. cbn [snd] in H. apply in_app_or in H. destruct H as [H|H].
    + apply tstep_made in H. destruct H as [pl ->]. exists [], pl, r. reflexivity.
    + apply IH in H. destruct H as [pre [pl [post ->]]].
      exists (e :: pre), pl, post. reflexivity.
Qed.

Theorem gate : forall evs,
  In TInnerMade (snd (trun tinit evs)) -> exists pre pl post, evs = pre ++ TRead HsDone pl :: post.
Proof. intro evs. apply gate_gen. Qed.

Definition pre_hs (s : tst) : Prop := ph s <> Established /\ inner s = false.

Lemma tstep_pre_hs : forall s e, pre_hs s -> (forall pl, e <> TRead HsDone pl) ->
  pre_hs (fst (tstep s e)) /\ forall a, In a (snd (tstep s e)) -> a = TClose.
Proof.
  intros [p t i] e [Hp Hi] He. cbn [ph inner] in Hp, Hi. subst i. unfold tstep, pre_hs.
  destruct p; [| exfalso; apply Hp; reflexivity |];
    destruct e as [v pl| |]; try destruct v; try (exfalso; apply (He pl); reflexivity);
    try destruct t; cbn [ph hs_timer inner fst snd]; (split; [split; [discriminate|reflexivity]|]);
    intros a Ha; cbn [In] in Ha; repeat (destruct Ha as [Ha|Ha]; try (symmetry; exact Ha));
    try contradiction.
Qed.

Lemma plaintext_gen : forall evs s, pre_hs s ->
  (forall pl, ~ In (TRead HsDone pl) evs) ->
  forall a, In a (snd (trun s evs)) -> a = TClose.
Proof.
  induction evs as [|e r IH]; intros s Hs Hn a Ha.
  - simpl in Ha. contradiction.
  - rewrite trun_cons in Ha. cbn [snd] in Ha.
    assert (He : forall pl, e <> TRead HsDone pl).
    { intros pl E. apply (Hn pl). left. exact E. }
    destruct (tstep_pre_hs s e Hs He) as [Hs1 Hact].
    apply in_app_or in Ha. destruct Ha as [Ha|Ha].
    + apply Hact. exact Ha.
    + apply (IH (fst (tstep s e))); [exact Hs1| |exact Ha].
      intros pl Hin. apply (Hn pl). right. exact Hin.
Qed.

Theorem plaintext : forall evs,
  (forall pl, ~ In (TRead HsDone pl) evs) ->
  forall a, In a (snd (trun tinit evs)) -> a = TClose.
Proof.
  intros evs Hn. apply plaintext_gen; [|exact Hn]. split; [discriminate|reflexivity].
Qed.

Definition timer_inv (s : tst) : Prop := ph s = Handshaking -> hs_timer s = true.

Lemma tstep_timer_inv : forall s e, timer_inv s -> timer_inv (fst (tstep s e)).
Proof.
  intros [p t i] e Hs. unfold timer_inv in *. cbn [ph hs_timer] in Hs. unfold tstep.
  destruct p; destruct e as [v pl| |]; try destruct v; try destruct t;
    cbn [ph hs_timer inner fst]; intro H; try discriminate; try reflexivity; auto.
Qed.

Lemma trun_timer_inv : forall evs s, timer_inv s -> timer_inv (fst (trun s evs)).
Proof.
  induction evs as [|e r IH]; intros s Hs; [exact Hs|].
  rewrite trun_cons. cbn [fst]. apply IH, tstep_timer_inv, Hs.
Qed.

Theorem handshake_timer : forall evs,
  let s := fst (trun tinit evs) in
  ph s = Handshaking -> hs_timer s = true /\
  tstep s TTimer = ({| ph := Dead; hs_timer := false; inner := inner s |}, [TClose]).
Proof.
  intros evs s Hph.
  assert (Ht : hs_timer s = true).
  { apply (trun_timer_inv evs tinit); [intros _; reflexivity|exact Hph]. }
  split; [exact Ht|]. unfold tstep. rewrite Hph, Ht. reflexivity.
Qed.

Print Assumptions sendall_complete.
Print Assumptions flush_complete.
Print Assumptions pump_delivers.
Print Assumptions response_delivers.
Print Assumptions single_send_truncates.
Print Assumptions negotiation_floor_counterexample.
Print Assumptions negotiation_floor_partial.
Print Assumptions negotiation_floor_partial_consistent.
Print Assumptions negotiation_floor_iff.
Print Assumptions gate.
Print Assumptions plaintext.
Print Assumptions handshake_timer.
