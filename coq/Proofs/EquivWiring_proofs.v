(* Proofs of the lemmas stated in Equiv/EquivWiring.v about the WIRING of the middleware chain, over the definitions
   regenerated from /repo's current source by translate/py2coq_wiring.py (Gen/WiringGen.v).  No proof mentions a generated
   local name: the generated functions are unfolded and evaluated by case analysis on their inputs; the one loop
   (get_certificate_auth_config) is handled by induction on its list, the fixpoint being taken from the goal. *)
From Coq Require Import List NArith ZArith QArith Bool String Lia.
From NV Require Import Prelude.Str Prelude.Res Equiv.WiringGlue.
From NV Require Import Gen.WiringGen.
From NV Require Model.Ip Model.CertAuth Model.Proxy Model.ServerProto Gen.PyGen Equiv.Equiv Gen.MwGen Equiv.EquivMw.
Import ListNotations.
Open Scope list_scope.

(* ---------- helper definitions of Equiv/EquivWiring.v, restated verbatim ---------- *)
Definition is_some {A : Type} (o : option A) : bool := match o with Some _ => true | None => false end.

Definition wiring_order : list mwclass := [K_CertificateAuth; K_AccessControl; K_RateLimiter].

Section Start.
Variables (en : bool) (rl : option py_RateLimitConfig) (ac : option py_AccessControlConfig) (ca : option py_CertificateAuthConfig).

Definition configured (k : mwclass) : bool :=
  match k with K_CertificateAuth => is_some ca | K_AccessControl => is_some ac | K_RateLimiter => en end.

Definition mw_spec : list mwkind :=
  (match ca with Some c => [Mw_CertificateAuth (Some c)] | None => [] end) ++
  (match ac with Some c => [Mw_AccessControl (Some c)] | None => [] end) ++
  (if en then [Mw_RateLimiter rl] else []).

Definition mws := gen_middlewares en rl ac ca.
Definition chain := gen_chain en rl ac ca.

Lemma middlewares_tie : mws = mw_spec.
Proof. unfold mws, mw_spec. destruct en, ac, ca; reflexivity. Qed.

Lemma each_configured_once : forall k,
  List.length (filter (fun m => mwclass_eqb (class_of m) k) mws) = if configured k then 1%nat else 0%nat.
Proof. intro k. rewrite middlewares_tie. unfold mw_spec, configured. destruct k, en, ac, ca; reflexivity. Qed.

Lemma wiring_order_tie : map class_of mws = filter configured wiring_order.
Proof. rewrite middlewares_tie. unfold mw_spec, configured, wiring_order. destruct en, ac, ca; reflexivity. Qed.

Lemma carries_configuration : forall m, In m mws ->
  m = Mw_CertificateAuth ca \/ m = Mw_AccessControl ac \/ m = Mw_RateLimiter rl.
Proof.
  intro m. rewrite middlewares_tie. unfold mw_spec.
  destruct en, ac, ca; cbn [app In]; intuition (subst; auto).
Qed.

Lemma chain_tie : chain = match mws with [] => None | l => Some (mk_py_MiddlewareChain l) end.
Proof. unfold chain, mws. destruct en, ac, ca; reflexivity. Qed.

Lemma chain_none_iff : chain = None <-> (forall k, configured k = false).
Proof.
  rewrite chain_tie, middlewares_tie. unfold mw_spec, configured. split.
  - intros H k. destruct en, ac, ca; try discriminate H; destruct k; reflexivity.
  - intro H. pose proof (H K_CertificateAuth) as H1. pose proof (H K_AccessControl) as H2. pose proof (H K_RateLimiter) as H3.
    cbn in H1, H2, H3. destruct en, ac, ca; try discriminate; reflexivity.
Qed.

Lemma chain_over_middlewares : forall ch, chain = Some ch -> MiddlewareChain_middlewares ch = mws.
Proof. intros ch. rewrite chain_tie. destruct mws; intro H; inversion H. reflexivity. Qed.

(* gen_setup at any types of protocol objects / ssl contexts *)
Lemma setup_tie : forall P S : Type,
  @gen_setup P S en rl ac ca = (mws, chain, @gen_setup_effects P S en rl ac ca).
Proof. intros. unfold mws, chain. destruct en, ac, ca; reflexivity. Qed.

Lemma setup_effects_tie : forall P S : Type,
  @gen_setup_effects P S en rl ac ca = if en then [EffCall (Mw_RateLimiter rl) "start"%string] else [].
Proof. intros. destruct en, ac, ca; reflexivity. Qed.

(* ----- the listener ----- *)
Section Listen.
Context {T_router T_ssl T_pyctx A_route U : Type}.
Variables (attr_route : T_router -> A_route) (config : py_ServerConfig) (router : T_router)
          (ssl_context : option T_ssl) (pyopenssl_ctx : option T_pyctx).

Definition uses_pyopenssl : bool :=
  ServerConfig_require_client_cert config ||
  match ca with
  | Some c => existsb (fun r => CertificateAuthPathRule_require_cert r || is_some (CertificateAuthPathRule_allowed_fingerprints r))
                      (CertificateAuthConfig_path_rules c)
  | None => false
  end.

Definition app_factory : unit -> proto A_route py_MiddlewareChain U T_pyctx :=
  fun _ => PGemini (attr_route router) chain None.

Definition expected_listener : effect mwkind (proto A_route py_MiddlewareChain U T_pyctx) T_ssl :=
  match (if uses_pyopenssl then pyopenssl_ctx else None) with
  | Some x => EffListen (fun _ => PTls app_factory x) (ServerConfig_host config) (ServerConfig_port config) None
  | None => EffListen app_factory (ServerConfig_host config) (ServerConfig_port config) ssl_context
  end.

Definition started := gen_start (U_upload := U) attr_route config en rl ac ca router ssl_context pyopenssl_ctx.

Lemma existsb_if {A} (p q : A -> bool) l : (forall x, p x = q x) -> existsb p l = existsb q l.
Proof. intro H. induction l as [|x l IH]; [reflexivity|]. cbn. rewrite H, IH. reflexivity. Qed.

Lemma start_tie : started = (mws, chain, gen_setup_effects en rl ac ca ++ [expected_listener]).
Proof.
  unfold started, expected_listener, app_factory, chain, mws, uses_pyopenssl, gen_start.
  assert (E : forall c : py_CertificateAuthConfig,
    (if existsb (fun rule => CertificateAuthPathRule_require_cert rule ||
                   negb match CertificateAuthPathRule_allowed_fingerprints rule with None => true | Some _ => false end)
          (CertificateAuthConfig_path_rules c) then true else false) =
    existsb (fun r => CertificateAuthPathRule_require_cert r || is_some (CertificateAuthPathRule_allowed_fingerprints r))
            (CertificateAuthConfig_path_rules c)).
  { intro c. rewrite (existsb_if _ (fun r => CertificateAuthPathRule_require_cert r || is_some (CertificateAuthPathRule_allowed_fingerprints r))).
    - destruct (existsb _ _); reflexivity.
    - intro x. destruct (CertificateAuthPathRule_allowed_fingerprints x); reflexivity. }
  destruct ca as [c|].
  - rewrite E. destruct (ServerConfig_require_client_cert config || existsb _ _), en, ac, pyopenssl_ctx; reflexivity.
  - destruct (ServerConfig_require_client_cert config || false), en, ac, pyopenssl_ctx; reflexivity.
Qed.

Lemma one_listener_in_every_case : List.length (listen_factories (snd started)) = 1%nat.
Proof.
  rewrite start_tie. cbn [snd]. rewrite setup_effects_tie. unfold expected_listener.
  destruct en, (if uses_pyopenssl then pyopenssl_ctx else None); reflexivity.
Qed.

Lemma listen_factories_tie : exists f, listen_factories (snd started) = [f] /\
  app_proto (f tt) = (attr_route router, chain, None) /\
  is_tls_wrapped (f tt) = uses_pyopenssl && is_some pyopenssl_ctx /\
  listen_ssl (snd started) = [if uses_pyopenssl && is_some pyopenssl_ctx then None else ssl_context].
Proof.
  rewrite start_tie. cbn [snd]. rewrite setup_effects_tie. unfold expected_listener, app_factory.
  destruct uses_pyopenssl, pyopenssl_ctx, en; eexists; repeat split; reflexivity.
Qed.

Lemma every_factory_same_chain_and_router : forall f, In f (listen_factories (snd started)) ->
  app_proto (f tt) = (attr_route router, chain, None).
Proof.
  destruct listen_factories_tie as [g [E [H _]]]. intros f Hf. rewrite E in Hf.
  destruct Hf as [<-|[]]. exact H.
Qed.

Lemma backend_choice : forall f, In f (listen_factories (snd started)) ->
  is_tls_wrapped (f tt) = uses_pyopenssl && is_some pyopenssl_ctx.
Proof.
  destruct listen_factories_tie as [g [E [_ [H _]]]]. intros f Hf. rewrite E in Hf.
  destruct Hf as [<-|[]]. exact H.
Qed.

Lemma start_calls : calls (snd started) = if en then [(Mw_RateLimiter rl, "start"%string)] else [].
Proof.
  rewrite start_tie. cbn [snd]. rewrite setup_effects_tie. unfold expected_listener.
  destruct en, (if uses_pyopenssl then pyopenssl_ctx else None); reflexivity.
Qed.

(* what the protocol object of a connection consults is the list assembled above *)
Lemma protocol_consults_the_wired_list : forall f, In f (listen_factories (snd started)) ->
  match snd (fst (app_proto (f tt))) with
  | Some ch => MiddlewareChain_middlewares ch = mws
  | None => mws = []
  end.
Proof.
  intros f Hf. rewrite (every_factory_same_chain_and_router f Hf). cbn [fst snd].
  rewrite chain_tie. destruct mws; reflexivity.
Qed.
End Listen.

(* ----- the selection of the TLS contexts, then the listener (gen_boot) ----- *)
Definition opt_truthy (o : option pathlike) : bool := match o with Some v => pathlike_truthy v | None => false end.
Definition opt_path_str (o : option pathlike) : str := match o with Some v => pathlike_str v | None => lit "None" end.

Section Boot.
Context {T_router A_route T_sslctx T_pyctx U : Type}.
Variables (attr_route : T_router -> A_route)
          (o_server : str -> str -> bool -> T_sslctx) (o_self_signed : bool -> T_sslctx)
          (o_pyopenssl : str -> str -> bool -> T_pyctx) (o_self_signed_pyopenssl : unit -> T_pyctx)
          (config : py_ServerConfig) (router : T_router).

Definition has_cert_files : bool := opt_truthy (ServerConfig_certfile config) && opt_truthy (ServerConfig_keyfile config).
Definition cert_text : str := opt_path_str (ServerConfig_certfile config).
Definition key_text : str := opt_path_str (ServerConfig_keyfile config).

Definition chosen_builder : string :=
  if uses_pyopenssl config
  then (if has_cert_files then "create_pyopenssl_server_context" else "_create_self_signed_pyopenssl_context")
  else (if has_cert_files then "create_server_context" else "_create_self_signed_context").
Definition chosen_pyctx : option T_pyctx :=
  if uses_pyopenssl config
  then Some (if has_cert_files then o_pyopenssl cert_text key_text true else o_self_signed_pyopenssl tt)
  else None.
Definition chosen_sslctx : option T_sslctx :=
  if uses_pyopenssl config
  then None
  else Some (if has_cert_files then o_server cert_text key_text false else o_self_signed false).

Definition booted := gen_boot (U_upload := U) attr_route o_server o_self_signed o_pyopenssl o_self_signed_pyopenssl
                              config en rl ac ca router.

Lemma boot_tie :
  booted = (mws, chain, EffBuild chosen_builder ::
            snd (started (U := U) attr_route config router chosen_sslctx chosen_pyctx)).
Proof.
  rewrite start_tie. cbn [snd]. rewrite setup_effects_tie.
  unfold booted, expected_listener, app_factory, chain, mws, chosen_builder, chosen_pyctx, chosen_sslctx, has_cert_files,
         cert_text, key_text, opt_truthy, opt_path_str, uses_pyopenssl, gen_boot.
  assert (E : forall c : py_CertificateAuthConfig,
    (if existsb (fun rule => CertificateAuthPathRule_require_cert rule ||
                   negb match CertificateAuthPathRule_allowed_fingerprints rule with None => true | Some _ => false end)
          (CertificateAuthConfig_path_rules c) then true else false) =
    existsb (fun r => CertificateAuthPathRule_require_cert r || is_some (CertificateAuthPathRule_allowed_fingerprints r))
            (CertificateAuthConfig_path_rules c)).
  { intro c. rewrite (existsb_if _ (fun r => CertificateAuthPathRule_require_cert r || is_some (CertificateAuthPathRule_allowed_fingerprints r))).
    - destruct (existsb _ _); reflexivity.
    - intro x. destruct (CertificateAuthPathRule_allowed_fingerprints x); reflexivity. }
  destruct ca as [c|].
  - rewrite E. destruct (ServerConfig_require_client_cert config || existsb _ _);
      destruct (ServerConfig_certfile config) as [p|]; destruct (ServerConfig_keyfile config) as [q|];
      try destruct (pathlike_truthy p); try destruct (pathlike_truthy q); destruct en, ac; reflexivity.
  - destruct (ServerConfig_require_client_cert config || false);
      destruct (ServerConfig_certfile config) as [p|]; destruct (ServerConfig_keyfile config) as [q|];
      try destruct (pathlike_truthy p); try destruct (pathlike_truthy q); destruct en, ac; reflexivity.
Qed.

(* exactly one builder is called: the one for (client certificates requested?) x (certfile and keyfile given?) *)
Lemma context_choice : builds (snd booted) = [chosen_builder].
Proof.
  rewrite boot_tie, start_tie. cbn [snd]. rewrite setup_effects_tie. unfold expected_listener.
  destruct en, (if uses_pyopenssl config then chosen_pyctx else None); reflexivity.
Qed.

(* the single listener is TLS-protected: the PyOpenSSL wrapper with the context just built, or ssl= the context just built *)
Lemma listener_protection : exists f, listen_factories (snd booted) = [f] /\
  app_proto (f tt) = (attr_route router, chain, None) /\
  is_tls_wrapped (f tt) = uses_pyopenssl config /\
  (uses_pyopenssl config = true -> exists ctx, chosen_pyctx = Some ctx /\ f tt = PTls (app_factory (U := U) attr_route router) ctx) /\
  listen_ssl (snd booted) = [chosen_sslctx] /\
  (uses_pyopenssl config = false -> exists ctx, chosen_sslctx = Some ctx).
Proof.
  rewrite boot_tie, start_tie. cbn [snd]. rewrite setup_effects_tie.
  unfold expected_listener, app_factory, chosen_pyctx, chosen_sslctx.
  destruct (uses_pyopenssl config), en; eexists; repeat split; try reflexivity; intro H; try discriminate H; eexists; try split; reflexivity.
Qed.

Lemma no_plaintext_listener : exists f s, listen_factories (snd booted) = [f] /\ listen_ssl (snd booted) = [s] /\
  ((exists inner ctx, f tt = PTls inner ctx) \/ (exists ctx, s = Some ctx /\ is_tls_wrapped (f tt) = false)).
Proof.
  destruct listener_protection as [f [Hf [_ [Hw [Hpy [Hs Hssl]]]]]].
  exists f, chosen_sslctx. split; [exact Hf|]. split; [exact Hs|].
  destruct (uses_pyopenssl config) eqn:U0.
  - left. destruct (Hpy eq_refl) as [ctx [_ E]]. eexists. exists ctx. exact E.
  - right. destruct (Hssl eq_refl) as [ctx E]. exists ctx. split; [exact E|exact Hw].
Qed.
End Boot.

(* ----- composition with MiddlewareChain.process_request (PyGen.gen_chain_process) ----- *)
Definition verdict : Type := bool * option str.
Definition run_opt (sem : mwkind -> str -> str -> option str -> verdict) (m : option mwkind) (url ip : str) (fp : option str) : verdict :=
  match m with Some x => sem x url ip fp | None => (true, None) end.

Lemma chain_decision : forall sem url ip fp,
  PyGen.gen_chain_process (map sem mws) url ip fp =
  let d1 := run_opt sem (option_map (fun c => Mw_CertificateAuth (Some c)) ca) url ip fp in
  let d2 := run_opt sem (option_map (fun c => Mw_AccessControl (Some c)) ac) url ip fp in
  let d3 := run_opt sem (if en then Some (Mw_RateLimiter rl) else None) url ip fp in
  if negb (fst d1) then (false, snd d1)
  else if negb (fst d2) then (false, snd d2)
  else if negb (fst d3) then (false, snd d3)
  else (true, None).
Proof.
  intros. rewrite middlewares_tie. unfold mw_spec, run_opt.
  destruct en, ac as [a|], ca as [c|]; cbn;
    repeat match goal with |- context [sem ?m url ip fp] => destruct (sem m url ip fp) as [[|] ?]; cbn end; reflexivity.
Qed.
End Start.

Lemma chain_admits_iff_all : forall (l : list (str -> str -> option str -> bool * option str)) url ip fp,
  fst (PyGen.gen_chain_process l url ip fp) = true <-> (forall m, In m l -> fst (m url ip fp) = true).
Proof.
  intros l url ip fp. induction l as [|m l IH].
  - cbn. split; [intros _ x []|reflexivity].
  - cbn [PyGen.gen_chain_process]. destruct (m url ip fp) as [[|] r] eqn:E; cbn [negb].
    + fold (PyGen.gen_chain_process l url ip fp). rewrite IH. split.
      * intros H x [<-|Hx]; [rewrite E; reflexivity|exact (H x Hx)].
      * intros H x Hx. apply H. right. exact Hx.
    + cbn. split; [discriminate|]. intro H. specialize (H m (or_introl eq_refl)). rewrite E in H. exact H.
Qed.

Lemma first_rejection_supplies : forall (l1 l2 : list (str -> str -> option str -> bool * option str)) m url ip fp,
  (forall x, In x l1 -> fst (x url ip fp) = true) -> fst (m url ip fp) = false ->
  PyGen.gen_chain_process (l1 ++ m :: l2) url ip fp = (false, snd (m url ip fp)).
Proof.
  intros l1 l2 m url ip fp. induction l1 as [|x l1 IH]; intros H1 Hm.
  - cbn. destruct (m url ip fp) as [[|] r]; [discriminate Hm|reflexivity].
  - cbn [app PyGen.gen_chain_process]. pose proof (H1 x (or_introl eq_refl)) as Hx.
    destruct (x url ip fp) as [[|] r]; [|discriminate Hx]. cbn [negb].
    apply IH; [|exact Hm]. intros y Hy. apply H1. right. exact Hy.
Qed.

Lemma wired_chain_admits_iff : forall en rl ac ca sem url ip fp,
  fst (PyGen.gen_chain_process (map sem (gen_middlewares en rl ac ca)) url ip fp) = true <->
  (forall m, In m (gen_middlewares en rl ac ca) -> fst (sem m url ip fp) = true).
Proof.
  intros. rewrite chain_admits_iff_all. split.
  - intros H m Hm. apply (H (sem m)). apply in_map. exact Hm.
  - intros H f Hf. apply in_map_iff in Hf as [m [<- Hm]]. exact (H m Hm).
Qed.

Lemma wired_first_rejection_supplies : forall en rl ac ca sem l1 m l2 url ip fp,
  gen_middlewares en rl ac ca = l1 ++ m :: l2 ->
  (forall x, In x l1 -> fst (sem x url ip fp) = true) -> fst (sem m url ip fp) = false ->
  PyGen.gen_chain_process (map sem (gen_middlewares en rl ac ca)) url ip fp = (false, snd (sem m url ip fp)).
Proof.
  intros en rl ac ca sem l1 m l2 url ip fp E H1 Hm. rewrite E, map_app. cbn [map].
  apply (first_rejection_supplies (map sem l1) (map sem l2) (sem m)); [|exact Hm].
  intros f Hf. apply in_map_iff in Hf as [x [<- Hx]]. exact (H1 x Hx).
Qed.

(* ----- the factory table ----- *)
Lemma factories_same_arguments : exists h, forall r, In r factories ->
  fr_handler r = h /\ fr_middleware r = Some chain_var /\ fr_upload r = None /\
  last (fr_callables r) ""%string = "GeminiServerProtocol"%string.
Proof.
  eexists. intros r Hr. cbv [factories] in Hr. cbn [In] in Hr.
  repeat match type of Hr with _ \/ _ => destruct Hr as [<-|Hr] end; [..|destruct Hr]; repeat split; reflexivity.
Qed.

Lemma factories_cover_backend_condition : exists c,
  map (fun r => (fr_cond r, fr_branch r)) factories = [(c, true); (c, false)].
Proof. eexists. reflexivity. Qed.

Lemma factories_backends :
  map (fun r => existsb (String.eqb "TLSServerProtocol") (fr_callables r)) factories = [true; false].
Proof. reflexivity. Qed.

(* ----- ServerConfig.get_*_config ----- *)
Definition sconf_of (c : py_ServerConfig) : Ip.sconf :=
  {| Ip.sc_enabled := ServerConfig_enable_access_control c; Ip.sc_allow := ServerConfig_access_control_allow_list c;
     Ip.sc_deny := ServerConfig_access_control_deny_list c; Ip.sc_default := ServerConfig_access_control_default_allow c |}.

Lemma access_control_config_tie : forall c,
  gen_get_access_control_config c =
  if Ip.wants_component (sconf_of c)
  then Some (mk_py_AccessControlConfig (ServerConfig_access_control_allow_list c) (ServerConfig_access_control_deny_list c)
                                       (ServerConfig_access_control_default_allow c))
  else None.
Proof.
  intro c. unfold gen_get_access_control_config, Ip.wants_component, sconf_of, Ip.olist. cbn.
  destruct (ServerConfig_enable_access_control c), (ServerConfig_access_control_allow_list c) as [[|]|],
           (ServerConfig_access_control_deny_list c) as [[|]|], (ServerConfig_access_control_default_allow c); reflexivity.
Qed.

Lemma rate_limit_config_tie : forall c,
  gen_get_rate_limit_config c =
  mk_py_RateLimitConfig (ServerConfig_rate_limit_capacity c) (ServerConfig_rate_limit_refill_rate c) (ServerConfig_rate_limit_retry_after c).
Proof. reflexivity. Qed.

Definition rule_of_entry (p : str) (e : path_entry) : py_CertificateAuthPathRule :=
  mk_py_CertificateAuthPathRule p (match pe_require_cert e with Some b => b | None => false end) (pe_allowed_fingerprints e).
Fixpoint rules_of (es : list path_entry) : option (list py_CertificateAuthPathRule) :=
  match es with
  | [] => Some []
  | e :: es' => match pe_prefix e with
                | Some p => match rules_of es' with Some rs => Some (rule_of_entry p e :: rs) | None => None end
                | None => None
                end
  end.
Definition cert_config_spec (paths : option (list path_entry)) : res (option py_CertificateAuthConfig) :=
  match paths with
  | None | Some [] => Ok None
  | Some es => match rules_of es with
               | Some rs => Ok (Some (mk_py_CertificateAuthConfig rs))
               | None => Err (lit "KeyError") []
               end
  end.

Lemma certificate_auth_config_tie : forall c,
  gen_get_certificate_auth_config c = cert_config_spec (ServerConfig_certificate_auth_paths c).
Proof.
  intro c. unfold gen_get_certificate_auth_config, cert_config_spec.
  destruct (ServerConfig_certificate_auth_paths c) as [es|]; [|reflexivity].
  cbv beta match zeta delta [negb].
  match goal with |- context [?F es ?a] =>
    assert (G : forall l acc, F l acc = match rules_of l with
                                        | Some rs => Ok (Some (mk_py_CertificateAuthConfig (acc ++ rs)))
                                        | None => Err (lit "KeyError") []
                                        end)
  end.
  { induction l as [|x l IH]; intro acc.
    - cbn. rewrite app_nil_r. reflexivity.
    - cbn [rules_of]. cbn -[rules_of]. destruct (pe_prefix x) as [p|]; [|reflexivity].
      rewrite IH. destruct (rules_of l) as [rs|]; [|reflexivity].
      rewrite <- app_assoc. unfold rule_of_entry. destruct (pe_allowed_fingerprints x); reflexivity. }
  rewrite G. destruct es as [|e es]; reflexivity.
Qed.

(* the entries of a parsed TOML table that the model describes (Model.CertAuth.toml_rule): every entry has its prefix *)
Definition entry_of_toml (t : CertAuth.toml_rule) : path_entry :=
  mk_path_entry (Some (CertAuth.tr_prefix t)) (CertAuth.tr_require t) (CertAuth.tr_allowed t).
Definition py_rule (r : CertAuth.rule) : py_CertificateAuthPathRule :=
  mk_py_CertificateAuthPathRule (CertAuth.ru_prefix r) (CertAuth.ru_require r) (CertAuth.ru_allowed r).

Lemma rules_of_toml : forall l, rules_of (map entry_of_toml l) = Some (map (fun t => py_rule (CertAuth.rule_of_toml t)) l).
Proof. induction l as [|t l IH]; [reflexivity|]. cbn [map rules_of entry_of_toml pe_prefix]. rewrite IH. reflexivity. Qed.

Lemma certificate_auth_config_model : forall c l,
  ServerConfig_certificate_auth_paths c = Some (map entry_of_toml l) ->
  gen_get_certificate_auth_config c =
  Ok (match l with [] => None | _ => Some (mk_py_CertificateAuthConfig (map (fun t => py_rule (CertAuth.rule_of_toml t)) l)) end).
Proof.
  intros c l H. rewrite certificate_auth_config_tie, H. unfold cert_config_spec.
  destruct l as [|t l]; [reflexivity|]. rewrite rules_of_toml. reflexivity.
Qed.

(* ----- __main__: the arguments of start_server, and the wiring they produce ----- *)
Definition serve_spec (c : py_ServerConfig) (require_client_cert : bool) :=
  match gen_get_certificate_auth_config c with
  | Ok cac =>
      if require_client_cert && negb (is_some cac) then Err (lit "TypeError") []
      else Ok (c, ServerConfig_enable_rate_limiting c, Some (gen_get_rate_limit_config c), gen_get_access_control_config c, cac)
  | Err k m => Err k m
  | OutOfModel => OutOfModel
  end.

Lemma serve_args_tie : forall c flag, gen_serve_args c flag = serve_spec c flag.
Proof.
  intros c flag. unfold gen_serve_args, serve_spec.
  destruct (gen_get_certificate_auth_config c) as [[x|]| |], flag; reflexivity.
Qed.

Definition config_wants (c : py_ServerConfig) (k : mwclass) : bool :=
  match k with
  | K_CertificateAuth => match ServerConfig_certificate_auth_paths c with Some (_ :: _) => true | _ => false end
  | K_AccessControl => Ip.wants_component (sconf_of c)
  | K_RateLimiter => ServerConfig_enable_rate_limiting c
  end.

Lemma cli_wiring : forall c flag c' en rl ac cac,
  gen_serve_args c flag = Ok (c', en, rl, ac, cac) ->
  c' = c /\ map class_of (gen_middlewares en rl ac cac) = filter (config_wants c) wiring_order /\
  (gen_chain en rl ac cac = None <-> forall k, config_wants c k = false).
Proof.
  intros c flag c' en rl ac cac H. rewrite serve_args_tie in H. unfold serve_spec in H.
  destruct (gen_get_certificate_auth_config c) as [x| |] eqn:E; try discriminate H.
  destruct (flag && negb (is_some x)); [discriminate H|].
  inversion H as [[Hc Hen Hrl Hac Hca]]. subst c' en rl ac cac. clear H.
  assert (W : forall k, configured (ServerConfig_enable_rate_limiting c) (gen_get_access_control_config c) x k = config_wants c k).
  { intro k. rewrite certificate_auth_config_tie in E. unfold cert_config_spec in E.
    destruct k; cbn [configured config_wants]; try reflexivity;
      try (rewrite access_control_config_tie; destruct (Ip.wants_component (sconf_of c)); reflexivity).
    destruct (ServerConfig_certificate_auth_paths c) as [[|e es]|];
      [inversion E; reflexivity | destruct (rules_of (e :: es)); inversion E; reflexivity | inversion E; reflexivity]. }
  split; [reflexivity|]. split.
  - fold (mws (ServerConfig_enable_rate_limiting c) (Some (gen_get_rate_limit_config c)) (gen_get_access_control_config c) x).
    rewrite wiring_order_tie. unfold wiring_order. cbn [filter]. rewrite !W. reflexivity.
  - fold (chain (ServerConfig_enable_rate_limiting c) (Some (gen_get_rate_limit_config c)) (gen_get_access_control_config c) x).
    rewrite chain_none_iff. split; intros H k; [rewrite <- W|rewrite W]; apply H.
Qed.

(* ================= C17: locations -> router ================= *)
(* a or d on Optional int / int: None and 0 are false *)
Definition value_or (o : option Z) (d : Z) : Z := match o with Some v => if Z.eqb v 0 then d else v | None => d end.

(* the handler of a location, from THAT location's fields (and the two documented fall-backs: the server-wide listing flag
   and max_file_size); AssertionError: create_handler's asserts *)
Definition handler_of (c : py_ServerConfig) (edl : bool) (loc : py_LocationConfig) : res handler :=
  match LocationConfig_handler_type loc with
  | HandlerType_STATIC =>
      match LocationConfig_document_root loc with
      | Some d => Ok (H_StaticFileHandler d (Some (LocationConfig_default_indices loc))
                                          (LocationConfig_enable_directory_listing loc || edl)
                                          (Some (value_or (LocationConfig_max_file_size loc) (ServerConfig_max_file_size c))))
      | None => Err (lit "AssertionError") []
      end
  | HandlerType_PROXY =>
      match LocationConfig_upstream loc with
      | Some u => Ok (H_ProxyHandler u (LocationConfig_prefix loc) (LocationConfig_strip_prefix loc) (LocationConfig_timeout loc))
      | None => Err (lit "AssertionError") []
      end
  end.

Section Routes.
Variables (REQ RX : Type) (rc : str -> option RX) (handle_of : handler -> REQ -> ServerProto.resp)
          (c : py_ServerConfig) (edl : bool).

Definition route_of (loc : py_LocationConfig) (h : handler) : MwGen.py_Route REQ RX :=
  MwGen.mk_py_Route (LocationConfig_prefix loc) (handle_of h) MwGen.RouteType_PREFIX None.

(* one route per location, in order; the first location whose handler cannot be built stops everything *)
Fixpoint routes_of (ls : list py_LocationConfig) : res (list (MwGen.py_Route REQ RX)) :=
  match ls with
  | [] => Ok []
  | l :: ls' =>
      match handler_of c edl l with
      | Ok h => match routes_of ls' with Ok rs => Ok (route_of l h :: rs) | Err k m => Err k m | OutOfModel => OutOfModel end
      | Err k m => Err k m
      | OutOfModel => OutOfModel
      end
  end.

Definition location_router_spec : res (option (routes REQ RX)) :=
  match ServerConfig_locations c with
  | None | Some [] => Ok None
  | Some ls => match routes_of ls with Ok rs => Ok (Some rs) | Err k m => Err k m | OutOfModel => OutOfModel end
  end.
End Routes.

(* LocationConfig.__post_init__ *)
Definition norm_prefix (p : str) : str := if prefixb (lit "/") p then p else lit "/" ++ p.
Definition post_init_spec (ex isd : pathlike -> bool) (l : py_LocationConfig) : res py_LocationConfig :=
  let p := norm_prefix (LocationConfig_prefix l) in
  match LocationConfig_handler_type l with
  | HandlerType_STATIC =>
      match LocationConfig_document_root l with
      | None => Err (lit "ValueError") []
      | Some d =>
          let d' := if pathlike_is_str d then pathlike_to_path d else d in
          if ex d' then
            if isd d' then Ok (mk_py_LocationConfig p HandlerType_STATIC (Some d') (LocationConfig_enable_directory_listing l)
                                 (LocationConfig_default_indices l) (LocationConfig_max_file_size l) (LocationConfig_upstream l)
                                 (LocationConfig_strip_prefix l) (LocationConfig_timeout l))
            else Err (lit "ValueError") []
          else Err (lit "ValueError") []
      end
  | HandlerType_PROXY =>
      match LocationConfig_upstream l with
      | None => Err (lit "ValueError") []
      | Some u =>
          if prefixb (lit "gemini://") u
          then Ok (mk_py_LocationConfig p HandlerType_PROXY (LocationConfig_document_root l) (LocationConfig_enable_directory_listing l)
                     (LocationConfig_default_indices l) (LocationConfig_max_file_size l) (Some u)
                     (LocationConfig_strip_prefix l) (LocationConfig_timeout l))
          else Err (lit "ValueError") []
      end
  end.

(* the URL a handler object forwards to (ProxyHandler.__init__ keeps upstream.rstrip("/"), prefix, strip_prefix: checked by
   the translator; _handle_async's URL construction is PyGen.gen_upstream_url, Equiv.upstream_url_tie) *)
Definition handler_upstream_url (h : handler) (path query : str) : option str :=
  match h with
  | H_ProxyHandler u p s _ => Some (PyGen.gen_upstream_url (Proxy.rstrip_slash u) p s path query)
  | H_StaticFileHandler _ _ _ _ => None
  end.

Lemma location_router_tie : forall REQ RX rc handle_of c edl,
  gen_get_location_router REQ RX rc handle_of c edl = location_router_spec REQ RX handle_of c edl.
Proof.
  intros. unfold gen_get_location_router, location_router_spec.
  destruct (ServerConfig_locations c) as [ls|]; [|reflexivity].
  cbv beta match zeta delta [negb].
  match goal with |- context [?F ls ?a] =>
    assert (G : forall l acc, F l acc = match routes_of REQ RX handle_of c edl l with
                                        | Ok rs => Ok (Some (acc ++ rs))
                                        | Err k m => Err k m
                                        | OutOfModel => OutOfModel
                                        end)
  end.
  { induction l as [|x l IH]; intro acc.
    - cbn. rewrite app_nil_r. reflexivity.
    - cbn [routes_of]. unfold handler_of.
      destruct x as [p ht dr li di mf up sp tm]. cbn -[routes_of MwGen.gen_router_add_route].
      destruct ht; cbn -[routes_of MwGen.gen_router_add_route].
      + destruct dr as [d|]; [|reflexivity]. cbn. rewrite IH.
        destruct (routes_of REQ RX handle_of c edl l); try reflexivity. rewrite <- app_assoc. reflexivity.
      + destruct up as [u|]; [|reflexivity]. cbn. rewrite IH.
        destruct (routes_of REQ RX handle_of c edl l); try reflexivity. rewrite <- app_assoc. reflexivity. }
  rewrite G. destruct ls as [|l ls]; [reflexivity|].
  destruct (routes_of REQ RX handle_of c edl (l :: ls)); reflexivity.
Qed.

(* exactly one route per location, in the order of the locations, PREFIX with the location's prefix, the handler built
   from that location *)
Lemma routes_of_each : forall REQ RX handle_of c edl ls rs,
  routes_of REQ RX handle_of c edl ls = Ok rs ->
  Forall2 (fun loc r => exists h, handler_of c edl loc = Ok h /\ r = route_of REQ RX handle_of loc h) ls rs.
Proof.
  intros REQ RX handle_of c edl. induction ls as [|l ls IH]; intros rs H.
  - inversion H. constructor.
  - cbn [routes_of] in H. destruct (handler_of c edl l) as [h| |] eqn:E; try discriminate H.
    destruct (routes_of REQ RX handle_of c edl ls) as [rs'| |]; try discriminate H. inversion H; subst.
    constructor; [exists h; split; [exact E|reflexivity]|apply IH; reflexivity].
Qed.

Lemma routes_of_shape : forall REQ RX handle_of c edl ls rs,
  routes_of REQ RX handle_of c edl ls = Ok rs ->
  List.length rs = List.length ls /\
  map (fun r => (MwGen.Route_pattern r, MwGen.Route_route_type r)) rs =
  map (fun loc => (LocationConfig_prefix loc, MwGen.RouteType_PREFIX)) ls.
Proof.
  intros REQ RX handle_of c edl ls rs H. apply routes_of_each in H.
  induction H as [|loc r ls rs [h [_ ->]] _ [IH1 IH2]]; [split; reflexivity|].
  cbn. rewrite IH1, IH2. split; reflexivity.
Qed.

(* Router.route over those routes: the first location whose prefix matches, with that location's handler *)
Lemma location_routing : forall REQ RX handle_of c edl req_path rxm ls rs dflt request,
  routes_of REQ RX handle_of c edl ls = Ok rs ->
  MwGen.gen_router_route REQ RX req_path rxm rs dflt request =
  match find (fun loc => prefixb (LocationConfig_prefix loc) (req_path request)) ls with
  | Some loc => match handler_of c edl loc with Ok h => handle_of h request | _ => EquivMw.or_default dflt request end
  | None => EquivMw.or_default dflt request
  end.
Proof.
  intros REQ RX handle_of c edl req_path rxm ls rs dflt request H.
  rewrite EquivMw.router_route_first_match. apply routes_of_each in H.
  induction H as [|loc r ls rs [h [E ->]] _ IH]; [reflexivity|].
  cbn [find]. change (EquivMw.py_matches rxm (req_path request) (route_of REQ RX handle_of loc h))
    with (prefixb (LocationConfig_prefix loc) (req_path request)).
  destruct (prefixb (LocationConfig_prefix loc) (req_path request)); [rewrite E; reflexivity|exact IH].
Qed.

(* two locations get the same handler only if every field a handler is built from agrees *)
Lemma handler_of_injective : forall c edl l1 l2 h,
  handler_of c edl l1 = Ok h -> handler_of c edl l2 = Ok h ->
  LocationConfig_handler_type l1 = LocationConfig_handler_type l2 /\
  match h with
  | H_ProxyHandler _ _ _ _ =>
      LocationConfig_upstream l1 = LocationConfig_upstream l2 /\ LocationConfig_prefix l1 = LocationConfig_prefix l2 /\
      LocationConfig_strip_prefix l1 = LocationConfig_strip_prefix l2 /\ LocationConfig_timeout l1 = LocationConfig_timeout l2
  | H_StaticFileHandler _ _ _ _ =>
      LocationConfig_document_root l1 = LocationConfig_document_root l2 /\
      LocationConfig_default_indices l1 = LocationConfig_default_indices l2 /\
      (LocationConfig_enable_directory_listing l1 || edl) = (LocationConfig_enable_directory_listing l2 || edl) /\
      value_or (LocationConfig_max_file_size l1) (ServerConfig_max_file_size c) =
      value_or (LocationConfig_max_file_size l2) (ServerConfig_max_file_size c)
  end.
Proof.
  intros c edl l1 l2 h H1 H2. unfold handler_of in H1, H2.
  destruct (LocationConfig_handler_type l1), (LocationConfig_handler_type l2);
    destruct (LocationConfig_document_root l1), (LocationConfig_document_root l2);
    destruct (LocationConfig_upstream l1), (LocationConfig_upstream l2);
    try discriminate H1; try discriminate H2; inversion H1; subst h; inversion H2; subst;
    repeat split; try reflexivity; try congruence.
Qed.

(* a proxy location forwards to ITS upstream with ITS prefix / strip_prefix (Model.Proxy.upstream_url: the C17 object) *)
Lemma proxy_location_url : forall c edl loc u path query,
  LocationConfig_handler_type loc = HandlerType_PROXY -> LocationConfig_upstream loc = Some u ->
  exists h, handler_of c edl loc = Ok h /\
  handler_upstream_url h path query =
  Some (Proxy.upstream_url {| Proxy.px_upstream := u; Proxy.px_prefix := LocationConfig_prefix loc;
                              Proxy.px_strip := LocationConfig_strip_prefix loc |} path query).
Proof.
  intros c edl loc u path query Ht Hu. unfold handler_of. rewrite Ht, Hu. eexists. split; [reflexivity|].
  cbn [handler_upstream_url]. f_equal.
  exact (Equiv.upstream_url_tie {| Proxy.px_upstream := u; Proxy.px_prefix := LocationConfig_prefix loc;
                                   Proxy.px_strip := LocationConfig_strip_prefix loc |} path query).
Qed.

Lemma location_post_init_tie : forall ex isd l, gen_location_post_init ex isd l = post_init_spec ex isd l.
Proof.
  intros ex isd [p ht dr li di mf up sp tm]. unfold gen_location_post_init, post_init_spec, norm_prefix.
  cbn [LocationConfig_prefix LocationConfig_handler_type LocationConfig_document_root LocationConfig_enable_directory_listing
       LocationConfig_default_indices LocationConfig_max_file_size LocationConfig_upstream LocationConfig_strip_prefix LocationConfig_timeout].
  destruct (prefixb (lit "/") p), ht, dr as [d|], up as [u|]; cbn -[prefixb]; try reflexivity;
    try (destruct (pathlike_is_str d); cbn -[prefixb]);
    repeat match goal with |- context [ex ?x] => destruct (ex x); cbn -[prefixb] end;
    repeat match goal with |- context [isd ?x] => destruct (isd x); cbn -[prefixb] end;
    repeat match goal with |- context [prefixb ?a u] => destruct (prefixb a u); cbn -[prefixb] end; reflexivity.
Qed.

(* a location that passed __post_init__: prefix starts with "/", its handler can be built (no assert fails), a proxy's
   upstream is a gemini:// URL *)
Lemma validated_location : forall ex isd l0 l c edl,
  gen_location_post_init ex isd l0 = Ok l ->
  prefixb (lit "/") (LocationConfig_prefix l) = true /\
  LocationConfig_prefix l = norm_prefix (LocationConfig_prefix l0) /\
  (exists h, handler_of c edl l = Ok h) /\
  (LocationConfig_handler_type l = HandlerType_PROXY ->
   exists u, LocationConfig_upstream l = Some u /\ prefixb (lit "gemini://") u = true /\
             LocationConfig_upstream l0 = Some u /\ LocationConfig_strip_prefix l = LocationConfig_strip_prefix l0 /\
             LocationConfig_timeout l = LocationConfig_timeout l0).
Proof.
  intros ex isd l0 l c edl H. rewrite location_post_init_tie in H. unfold post_init_spec in H.
  assert (N : prefixb (lit "/") (norm_prefix (LocationConfig_prefix l0)) = true).
  { unfold norm_prefix. destruct (prefixb (lit "/") (LocationConfig_prefix l0)) eqn:E; [exact E|reflexivity]. }
  destruct (LocationConfig_handler_type l0) eqn:Ht.
  - destruct (LocationConfig_document_root l0) as [d|]; [|discriminate H].
    cbv zeta in H. destruct (ex _); [|discriminate H]. destruct (isd _); [|discriminate H].
    inversion H; subst l; clear H. cbn. repeat split; try exact N.
    + unfold handler_of; cbn. eexists; reflexivity.
    + discriminate.
  - destruct (LocationConfig_upstream l0) as [u|] eqn:Hu; [|discriminate H].
    destruct (prefixb (lit "gemini://") u) eqn:G; [|discriminate H].
    inversion H; subst l; clear H. cbn. repeat split; try exact N.
    + unfold handler_of; cbn. eexists; reflexivity.
    + intros _. exists u. repeat split; assumption || reflexivity.
Qed.
