(* Server protocol model: C07 at_most_once / trailing_ignored, C01 single_response /
   silent_after_lost, C15 state theorems, C04 no_invocation_without_allow. *)
From Coq Require Import List NArith ZArith Bool Lia ZifyBool ZifyN ZifyNat.
From NV Require Import Prelude.Str Prelude.Res Prelude.Utf8 Model.Url Model.Titan Model.ServerProto Spec.ServerTrace.
From NV Require Spec.C01 Spec.C07 Spec.C15.
From NV Require Import Proofs.Server_inv Proofs.Server_basic.
Import ListNotations.
Set Default Proof Using "Type".

Lemma send_invocs s r : invocs (snd (send_response s r)) = 0%nat.
Proof. rewrite send_response_eq. destruct (muted s); cbn [snd]; [reflexivity|apply resp_acts_invocs]. Qed.
Lemma send_start s r : existsb is_start (snd (send_response s r)) = false.
Proof. rewrite send_response_eq. destruct (muted s); cbn [snd]; [reflexivity|apply resp_acts_start]. Qed.
Lemma send_oom s r : existsb is_oom (snd (send_response s r)) = false.
Proof. rewrite send_response_eq. destruct (muted s); cbn [snd]; [reflexivity|apply resp_acts_oom]. Qed.

Section Proto.
Variable ip6 : str -> option str.
Variable handler : str -> hres.
Variable has_mw has_upload : bool.
Variable up_call_fails : option str.
Variable peer_ip : str.
Variable peer_fp : option str.

Notation route := (route handler).
Notation handle_gemini := (handle_gemini ip6 handler has_mw peer_ip peer_fp).
Notation start_upload := (start_upload has_upload up_call_fails).
Notation process_titan_upload := (process_titan_upload has_mw has_upload up_call_fails peer_ip peer_fp).
Notation handle_titan_url := (handle_titan_url ip6 has_mw has_upload up_call_fails peer_ip peer_fp).
Notation data_received := (data_received ip6 handler has_mw has_upload up_call_fails peer_ip peer_fp).
Notation feed := (feed ip6 handler has_mw has_upload up_call_fails peer_ip peer_fp).
Notation task_done := (task_done handler has_upload up_call_fails).
Notation step := (step ip6 handler has_mw has_upload up_call_fails peer_ip peer_fp).
Notation run := (run ip6 handler has_mw has_upload up_call_fails peer_ip peer_fp).
Notation final := (final ip6 handler has_mw has_upload up_call_fails peer_ip peer_fp).
Notation Inv := (Inv has_upload).
Notation Eff_step := (Eff_step ip6 handler has_mw has_upload up_call_fails peer_ip peer_fp).
Notation Inv_step := (Inv_step ip6 handler has_mw has_upload up_call_fails peer_ip peer_fp).
Notation Inv_final := (Inv_final ip6 handler has_mw has_upload up_call_fails peer_ip peer_fp).

(* ================= C07 ================= *)
Theorem at_most_once_gen evs : Spec.C07.at_most_once (run init evs) = true.
Proof.
  unfold Spec.C07.at_most_once, Spec.C07.invocations.
  pose proof (run_invocs ip6 handler has_mw has_upload up_call_fails peer_ip peer_fp evs init) as H.
  unfold invocs in H. change (cap init) with 1%nat in H.
  apply Nat.leb_le. slia.
Qed.

Theorem trailing_ignored_gen s d : line_rcvd s = true -> await_titan s = false ->
  data_received s d = (set_buf s (buf s ++ d) true, []).
Proof. intros L A. unfold ServerProto.data_received. cbn. rewrite L, A. reflexivity. Qed.

(* ================= C01 single / silent ================= *)
Theorem single_response_gen evs : Spec.C01.clause_single (run init evs) = true.
Proof.
  unfold Spec.C01.clause_single.
  pose proof (run_closes ip6 handler has_mw has_upload up_call_fails peer_ip peer_fp evs init) as H.
  unfold closes in H. apply Nat.leb_le.
  change (fun a : action => match a with AClose => true | _ => false end) with is_close.
  unfold cs in H. destruct (sent (final init evs)); cbn in H; slia.
Qed.

Lemma step_lost_tr s : tr (fst (step s ELost)) = false /\ snd (step s ELost) = [].
Proof. cbn. destruct (tr s) eqn:T; cbn; auto. Qed.

Lemma silent_run evs : forall s lost, (lost = true -> tr s = false) ->
  Spec.C01.clause_silent_after_lost evs (run s evs) lost = true.
Proof.
  induction evs as [|e r IH]; intros s lost H; [reflexivity|].
  rewrite run_cons. cbn [Spec.C01.clause_silent_after_lost].
  change (fun a : action => match a with AWrite _ => true | _ => false end) with is_write.
  destruct (event_eq_lost e) as [->|NL].
  - destruct (step_lost_tr s) as [H1 H2]. rewrite H2. rewrite orb_true_r. cbn [existsb negb andb].
    apply IH. intros _. exact H1.
  - pose proof (Eff_step s e NL) as E.
    replace (lost || match e with ELost => true | _ => false end) with lost
      by (destruct e; try congruence; rewrite orb_false_r; reflexivity).
    apply andb_true_iff. split.
    + destruct lost; [|reflexivity]. rewrite (e_silent _ _ _ E); [reflexivity|auto].
    + apply IH. intro HL. rewrite (e_tr _ _ _ E). auto.
Qed.

Theorem silent_after_lost_gen evs : Spec.C01.clause_silent_after_lost evs (run init evs) false = true.
Proof. apply silent_run. discriminate. Qed.

(* ================= C15 state theorems ================= *)
Theorem not_armed_while_answering_gen evs :
  let s := final init evs in pending s <> [] -> timer s <> TArmed.
Proof.
  intros s P T. pose proof (Inv_final evs init (Inv_init has_upload)) as I.
  destruct (i_armed _ _ I T) as [H _]. contradiction.
Qed.

Theorem timeout_response_gen evs :
  let s := final init evs in
  timer s = TArmed -> sent s = false -> snd (step s ETimer) = [AWrite timeout_line; AClose].
Proof.
  intros s T S. pose proof (Inv_final evs init (Inv_init has_upload)) as I. fold s in I.
  destruct (i_armed _ _ I T) as [_ TR]. pose proof (i_sent _ _ I) as C.
  cbn. rewrite T. cbn. rewrite TR, <- C, S. reflexivity.
Qed.

(* ---- no stuck state (as long as the request line is inside the URL model) ---- *)
(* armed only while the request is incomplete *)
Definition NS (s : st) : Prop :=
  closing s = true \/ (timer s = TArmed /\ (line_rcvd s = false \/ await_titan s = true)) \/ pending s <> [].
Definition AB (s : st) : Prop := closing s = true \/ pending s <> [].

Lemma send_closing s r : sent s = closing s -> tr s = true -> closing (fst (send_response s r)) = true.
Proof.
  intros I T. rewrite send_response_eq. unfold muted. rewrite T. cbn.
  destruct (sent s) eqn:S; cbn; [|reflexivity]. rewrite <- I. reflexivity.
Qed.

Lemma spawn_pending s k : pending (fst (spawn s k)) <> [].
Proof. cbn. destruct (pending s); discriminate. Qed.

Lemma AB_route s line : sent s = closing s -> tr s = true -> AB (fst (route s line)).
Proof.
  intros I T. unfold ServerProto.route. destruct (handler line).
  - left. pose proof (send_closing s r I T). destruct (send_response s r); assumption.
  - left. rewrite send_error_eq. pose proof (send_closing s (err_resp 40 (lit "Server error: " ++ msg)) I T).
    destruct (send_response s _); assumption.
  - right. rewrite spawn_let. cbn [fst]. apply spawn_pending.
Qed.

Lemma AB_handle_gemini s line : sent s = closing s -> tr s = true ->
  existsb is_oom (snd (handle_gemini s line)) = false -> AB (fst (handle_gemini s line)).
Proof.
  intros I T. unfold ServerProto.handle_gemini. destruct (gemini_from_line ip6 line).
  - intros _. destruct has_mw; [|apply AB_route; assumption].
    right. rewrite spawn_let. cbn [fst]. apply spawn_pending.
  - intros _. left. rewrite send_error_eq. apply send_closing; assumption.
  - cbn. discriminate.
Qed.

Lemma AB_start_upload s : sent s = closing s -> tr s = true ->
  titan s <> None -> has_upload = true -> AB (fst (start_upload s)).
Proof.
  intros I T Ht Hu. unfold ServerProto.start_upload. destruct (titan s); [|contradiction].
  rewrite Hu. destruct up_call_fails as [msg|].
  - left. rewrite upload_failed_eq.
    pose proof (send_closing s (err_resp 40 (lit "Upload error: " ++ msg)) I T).
    destruct (send_response s _); assumption.
  - right. rewrite spawn_let. cbn [fst]. apply spawn_pending.
Qed.

Lemma AB_ptu s : sent s = closing s -> tr s = true -> AB (fst (process_titan_upload s)).
Proof.
  intros I T. unfold ServerProto.process_titan_upload.
  set (s1 := set_await s false) in *.
  assert (I1 : sent s1 = closing s1) by exact I. assert (T1 : tr s1 = true) by exact T.
  destruct (titan s1) eqn:Et.
  - destruct (negb has_upload) eqn:Eu; [left; rewrite send_error_eq; apply send_closing; assumption|].
    destruct has_mw.
    + right. rewrite spawn_let. cbn [fst]. apply spawn_pending.
    + apply AB_start_upload; [assumption|assumption|congruence|]. destruct has_upload; [reflexivity|discriminate].
  - left; rewrite send_error_eq; apply send_closing; assumption.
Qed.

Lemma NS_htu s line : sent s = closing s -> tr s = true ->
  existsb is_oom (snd (handle_titan_url s line)) = false ->
  AB (fst (handle_titan_url s line)) \/
  (timer (fst (handle_titan_url s line)) = timer s /\ await_titan (fst (handle_titan_url s line)) = true).
Proof.
  intros I T. unfold ServerProto.handle_titan_url.
  destruct (negb has_upload) eqn:Eu;
    [intros _; left; left; rewrite send_error_eq; apply send_closing; assumption|].
  destruct (titan_from_line ip6 line) as [t|k m|].
  - intros _. fold (set_titan s t). set (s1 := set_titan s t).
    destruct (N.eqb (t_size t) 0).
    + left. apply AB_ptu; rewrite cancel_timer_eq; assumption.
    + destruct (N.leb _ _); [|right; split; reflexivity].
      left. apply AB_ptu; rewrite cancel_timer_eq; assumption.
  - intros _. left; left. rewrite send_error_eq; apply send_closing; assumption.
  - cbn. discriminate.
Qed.

Lemma AB_NS s : AB s -> NS s.
Proof. unfold AB, NS. intros [H|H]; [left|right; right]; assumption. Qed.

Lemma closing_mono s s' a : Inv s -> Inv s' -> (closes a + cs s = cs s')%nat ->
  closing s = true -> closing s' = true.
Proof.
  intros I I' E C. rewrite <- (i_sent _ _ I'). rewrite <- (i_sent _ _ I) in C.
  unfold cs in E. rewrite C in E. destruct (sent s'); [reflexivity|slia].
Qed.

Lemma NS_data_received s d : Inv s -> tr s = true ->
  existsb is_oom (snd (data_received s d)) = false -> NS s -> NS (fst (data_received s d)).
Proof.
  intros I T O [C|[[A PH]|P]].
  - left. eapply closing_mono; [exact I|apply Inv_data_received; exact I| |exact C].
    apply (e_closes _ _ _ (Eff_data_received ip6 handler has_mw has_upload up_call_fails peer_ip peer_fp s d)).
  - revert O. pose proof (i_sent _ _ I) as SC. unfold ServerProto.data_received.
    set (s1 := set_buf s (buf s ++ d) (line_rcvd s)).
    assert (SC1 : sent s1 = closing s1) by exact SC. assert (T1 : tr s1 = true) by exact T.
    assert (A1 : timer s1 = TArmed) by exact A.
    change (line_rcvd s1) with (line_rcvd s). change (await_titan s1) with (await_titan s).
    destruct (line_rcvd s) eqn:L; cbn [negb].
    + destruct PH as [PH|PH]; [discriminate|]. rewrite PH.
      assert (K : NS s1) by (right; left; split; [exact A|right; exact PH]).
      destruct (titan s1); [|intros _; exact K].
      destruct (N.leb _ _); [|intros _; exact K].
      intros _. apply AB_NS, AB_ptu; cbn [sent closing tr set_content]; rewrite cancel_timer_eq; assumption.
    + assert (K : NS s1) by (right; left; split; [exact A|left; reflexivity]).
      destruct (break_crlf (buf s1)) as [[line rest]|].
      * destruct (N.ltb 1024 _); [intros _; left; rewrite send_error_eq; apply send_closing; assumption|].
        set (s2 := set_buf s1 rest true).
        destruct (decode line) as [url|];
          [|intros _; left; rewrite send_error_eq; apply send_closing; assumption].
        destruct (prefixb titan_prefix url).
        -- intro O. destruct (NS_htu s2 url SC1 T1 O) as [H|[H1 H2]]; [apply AB_NS, H|].
           right; left. split; [rewrite H1; exact A|right; exact H2].
        -- intro O. apply AB_NS, AB_handle_gemini; try assumption; rewrite cancel_timer_eq; assumption.
      * destruct (N.ltb 1024 _); [intros _; left; rewrite send_error_eq; apply send_closing; assumption|].
        intros _. exact K.
  - destruct (i_pend _ _ I P) as [L W]. rewrite (trailing_ignored_gen s d L W). right; right. exact P.
Qed.

Lemma NS_feed sl : forall s, Inv s -> tr s = true ->
  existsb is_oom (snd (feed s sl)) = false -> NS s -> NS (fst (feed s sl)).
Proof.
  induction sl as [|d r IH]; intros s I T; cbn; [auto|].
  pose proof (NS_data_received s d I T) as H1.
  pose proof (Inv_data_received ip6 handler has_mw has_upload up_call_fails peer_ip peer_fp s d I) as I1.
  pose proof (e_tr _ _ _ (Eff_data_received ip6 handler has_mw has_upload up_call_fails peer_ip peer_fp s d)) as T1.
  destruct (data_received s d) as [s1 a1]. cbn [fst snd] in *.
  specialize (IH s1 I1). destruct (feed s1 r) as [s2 a2]. cbn [fst snd] in *.
  rewrite existsb_app. intros O N. apply orb_false_iff in O as [O1 O2].
  apply IH; [congruence|assumption|]. apply H1; assumption.
Qed.

Lemma NS_task_done s id o : Inv s -> tr s = true -> NS s -> NS (fst (task_done s id o)).
Proof.
  intros I T N. unfold ServerProto.task_done.
  destruct (take_task_small id (pending s) (i_len _ _ I)) as [->|[k [P ->]]]; [exact N|].
  destruct (Ready_after_take has_upload s k id I P) as [R K]. set (s1 := set_pending s []) in *.
  assert (SC1 : sent s1 = closing s1) by exact (i_sent _ _ I). assert (T1 : tr s1 = true) by exact T.
  assert (S : forall r, NS (fst (send_response s1 r))) by (intro; left; apply send_closing; assumption).
  destruct k; destruct o as [r|m|[|] text|]; norm_err; try apply S;
    try (apply AB_NS, AB_route; assumption).
  all: apply AB_NS, AB_start_upload; try assumption; apply K; reflexivity.
Qed.

Lemma NS_step s e : Inv s -> tr s = true -> e <> ELost ->
  existsb is_oom (snd (step s e)) = false -> NS s -> NS (fst (step s e)).
Proof.
  intros I T NL. destruct e; cbn [ServerProto.step]; try congruence.
  - rewrite T. apply NS_feed; assumption.
  - intros _ N. destruct (timer s) eqn:A; try exact N.
    cbn. rewrite T. cbn. destruct (negb (closing s) && negb (sent s)) eqn:E; cbn; left; [reflexivity|].
    cbn. rewrite (i_sent _ _ I) in E. destruct (closing s); [reflexivity|discriminate].
  - intros _. apply NS_task_done; assumption.
Qed.

Lemma NS_final evs : forall s, Inv s -> tr s = true -> has_lost evs = false ->
  existsb is_oom (flat (run s evs)) = false -> NS s -> NS (final s evs).
Proof.
  induction evs as [|e r IH]; intros s I T L O N; [exact N|].
  rewrite run_cons, flat_cons, existsb_app in O. apply orb_false_iff in O as [O1 O2].
  assert (NL : e <> ELost) by (intro; subst; discriminate).
  assert (L' : has_lost r = false) by (destruct e; try congruence; exact L).
  rewrite final_cons. apply IH; auto.
  - apply Inv_step; assumption.
  - rewrite (e_tr _ _ _ (Eff_step s e NL)). assumption.
  - apply NS_step; assumption.
Qed.

Theorem no_stuck_partial_gen evs :
  has_lost evs = false ->
  existsb (fun a => match a with AOutOfModel => true | _ => false end) (flat (run init evs)) = false ->
  let s := final init evs in closing s = true \/ timer s = TArmed \/ pending s <> [].
Proof.
  intros L O. assert (H : NS (final init evs)).
  { apply NS_final; auto.
    - apply Inv_init.
    - right; left; split; [reflexivity|left; reflexivity]. }
  destruct H as [H|[[H _]|H]]; auto.
Qed.

(* ================= started => timer not armed ================= *)
Lemma start_htu s line : existsb is_start (snd (handle_titan_url s line)) = true ->
  timer (fst (handle_titan_url s line)) <> TArmed.
Proof.
  unfold ServerProto.handle_titan_url.
  destruct (negb has_upload); [rewrite send_error_eq, send_start; discriminate|].
  destruct (titan_from_line ip6 line) as [t|k m|].
  - fold (set_titan s t). set (s1 := set_titan s t).
    pose proof (fun x => e_timer _ _ _ (Eff_ptu has_mw has_upload up_call_fails peer_ip peer_fp x)) as H.
    destruct (N.eqb (t_size t) 0).
    + intros _. apply H, cancel_timer_not_armed.
    + destruct (N.leb _ _); [|cbn; discriminate].
      intros _. apply H. cbn [timer set_content]. apply cancel_timer_not_armed.
  - rewrite send_error_eq, send_start; discriminate.
  - cbn. discriminate.
Qed.

Lemma start_data_received s d : existsb is_start (snd (data_received s d)) = true ->
  timer (fst (data_received s d)) <> TArmed.
Proof.
  unfold ServerProto.data_received. set (s1 := set_buf s (buf s ++ d) (line_rcvd s)).
  destruct (negb (line_rcvd s1)).
  - destruct (break_crlf (buf s1)) as [[line rest]|].
    + destruct (N.ltb 1024 _); [rewrite send_error_eq, send_start; discriminate|].
      destruct (decode line) as [url|]; [|rewrite send_error_eq, send_start; discriminate].
      destruct (prefixb titan_prefix url); [apply start_htu|].
      intros _. apply (e_timer _ _ _ (Eff_handle_gemini ip6 handler has_mw peer_ip peer_fp _ _)).
      apply cancel_timer_not_armed.
    + destruct (N.ltb 1024 _); [rewrite send_error_eq, send_start; discriminate|cbn; discriminate].
  - destruct (await_titan s1); [|cbn; discriminate]. destruct (titan s1); [|cbn; discriminate].
    destruct (N.leb _ _); [|cbn; discriminate].
    intros _. apply (e_timer _ _ _ (Eff_ptu has_mw has_upload up_call_fails peer_ip peer_fp _)).
    cbn [timer set_content]. apply cancel_timer_not_armed.
Qed.

Lemma start_feed sl : forall s, existsb is_start (snd (feed s sl)) = true ->
  timer (fst (feed s sl)) <> TArmed.
Proof.
  induction sl as [|d r IH]; intros s; cbn; [discriminate|].
  pose proof (start_data_received s d) as H1. destruct (data_received s d) as [s1 a1].
  specialize (IH s1).
  pose proof (e_timer _ _ _ (Eff_feed ip6 handler has_mw has_upload up_call_fails peer_ip peer_fp r s1)) as M.
  destruct (feed s1 r) as [s2 a2]. cbn [fst snd] in *.
  rewrite existsb_app. intro H. apply orb_true_iff in H as [H|H]; auto.
Qed.

Lemma start_step s e : Inv s -> existsb is_start (snd (step s e)) = true ->
  timer (fst (step s e)) <> TArmed.
Proof.
  intro I. destruct e; cbn [ServerProto.step].
  - destruct (tr s); [apply start_feed|cbn; discriminate].
  - destruct (timer s); cbn; try discriminate.
    destruct (tr s && negb (closing s) && negb (sent s)); cbn; discriminate.
  - unfold ServerProto.task_done at 1.
    destruct (take_task_small id (pending s) (i_len _ _ I)) as [E|[k [P E]]].
    + unfold ServerProto.task_done. rewrite E. cbn. discriminate.
    + intros _. apply (e_timer _ _ _ (Eff_task_done handler has_upload up_call_fails s id o)).
      intro A. destruct (i_armed _ _ I A) as [H _]. congruence.
  - destruct (tr s); cbn; discriminate.
Qed.

Lemma step_timer_mono s e : timer s <> TArmed -> timer (fst (step s e)) <> TArmed.
Proof.
  destruct (event_eq_lost e) as [->|NL]; [|apply (e_timer _ _ _ (Eff_step s e NL))].
  cbn. destruct (tr s); cbn; auto. intros _. apply cancel_timer_not_armed.
Qed.

Lemma not_armed_run evs : forall s started, Inv s -> (started = true -> timer s <> TArmed) ->
  Spec.C15.not_armed_after_complete (run s evs) started = true.
Proof.
  induction evs as [|e r IH]; intros s started I H; [reflexivity|].
  rewrite run_cons. cbn [Spec.C15.not_armed_after_complete].
  change (fun x : action => match spawn_id x with Some _ => true | None => is_invocation x end) with is_start.
  set (st' := started || existsb is_start (snd (step s e))).
  assert (H' : st' = true -> timer (fst (step s e)) <> TArmed).
  { unfold st'. intro E. apply orb_true_iff in E as [E|E].
    - apply step_timer_mono; auto.
    - apply start_step; assumption. }
  apply andb_true_iff. split.
  - destruct st'; [|reflexivity]. destruct (timer (fst (step s e))); try reflexivity.
    exfalso. apply H'; reflexivity.
  - apply IH; [apply Inv_step; assumption|assumption].
Qed.

(* ================= timer firing on an unanswered connection ================= *)
Lemma timeout_run evs : forall s ab resp, Inv s ->
  ab = (match timer s with TArmed => true | _ => false end) -> (resp = false -> sent s = false) ->
  Spec.C15.timeout_response evs (run s evs) ab resp = true.
Proof.
  induction evs as [|e r IH]; intros s ab resp I A R; [reflexivity|].
  rewrite run_cons. cbn [Spec.C15.timeout_response].
  change (fun x : action => match x with AClose => true | _ => false end) with is_close.
  apply andb_true_iff. split.
  - destruct e; try reflexivity. destruct ab; [|reflexivity]. destruct resp; [reflexivity|]. cbn [negb andb].
    destruct (timer s) eqn:T; try discriminate.
    destruct (i_armed _ _ I T) as [_ TR]. pose proof (i_sent _ _ I) as C. specialize (R eq_refl).
    cbn. rewrite T. cbn. rewrite TR, <- C, R. cbn. reflexivity.
  - apply IH; [apply Inv_step; assumption|reflexivity|].
    intro H. apply orb_false_iff in H as [H1 H2]. specialize (R H1).
    pose proof (step_closes ip6 handler has_mw has_upload up_call_fails peer_ip peer_fp s e) as E.
    apply existsb_count in H2. unfold closes, cs in E. rewrite H2, R in E.
    destruct (sent (fst (step s e))); [slia|reflexivity].
Qed.

(* ================= C04: no invocation without an allow verdict ================= *)
Section NoAllow.
Hypothesis MW : has_mw = true.

Lemma na_handle_gemini s line : invocs (snd (handle_gemini s line)) = 0%nat.
Proof using MW.
  unfold ServerProto.handle_gemini. rewrite MW. destruct (gemini_from_line ip6 line).
  - rewrite spawn_let. reflexivity.
  - rewrite send_error_eq. apply send_invocs.
  - reflexivity.
Qed.

Lemma na_ptu s : invocs (snd (process_titan_upload s)) = 0%nat.
Proof using MW.
  unfold ServerProto.process_titan_upload. rewrite MW. destruct (titan (set_await s false)).
  - destruct (negb has_upload); [rewrite send_error_eq; apply send_invocs|].
    rewrite spawn_let. reflexivity.
  - rewrite send_error_eq; apply send_invocs.
Qed.

Lemma na_htu s line : invocs (snd (handle_titan_url s line)) = 0%nat.
Proof using MW.
  unfold ServerProto.handle_titan_url.
  destruct (negb has_upload); [rewrite send_error_eq; apply send_invocs|].
  destruct (titan_from_line ip6 line) as [t|k m|].
  - destruct (N.eqb (t_size t) 0); [apply na_ptu|].
    destruct (N.leb _ _); [apply na_ptu|reflexivity].
  - rewrite send_error_eq; apply send_invocs.
  - reflexivity.
Qed.

Lemma na_data_received s d : invocs (snd (data_received s d)) = 0%nat.
Proof using MW.
  unfold ServerProto.data_received. set (s1 := set_buf s (buf s ++ d) (line_rcvd s)).
  destruct (negb (line_rcvd s1)).
  - destruct (break_crlf (buf s1)) as [[line rest]|].
    + destruct (N.ltb 1024 _); [rewrite send_error_eq; apply send_invocs|].
      destruct (decode line) as [url|]; [|rewrite send_error_eq; apply send_invocs].
      destruct (prefixb titan_prefix url); [apply na_htu|apply na_handle_gemini].
    + destruct (N.ltb 1024 _); [rewrite send_error_eq; apply send_invocs|reflexivity].
  - destruct (await_titan s1); [|reflexivity]. destruct (titan s1); [|reflexivity].
    destruct (N.leb _ _); [apply na_ptu|reflexivity].
Qed.

Lemma na_feed sl : forall s, invocs (snd (feed s sl)) = 0%nat.
Proof using MW.
  induction sl as [|d r IH]; intros s; cbn; [reflexivity|].
  pose proof (na_data_received s d) as H1. destruct (data_received s d) as [s1 a1].
  specialize (IH s1). destruct (feed s1 r) as [s2 a2]. cbn [fst snd] in *.
  rewrite invocs_app, H1, IH. reflexivity.
Qed.

Definition not_allow (o : outcome) : Prop := forall t, o <> OMw true t.

Lemma na_task_done s id o : not_allow o -> invocs (snd (task_done s id o)) = 0%nat.
Proof using MW.
  intro NA. unfold ServerProto.task_done.
  destruct (take_task id (pending s)) as [[k|] rest]; [|reflexivity].
  destruct k; destruct o as [r|m|[|] text|]; norm_err; try apply send_invocs;
    exfalso; eapply NA; reflexivity.
Qed.

Lemma na_step s e : (forall i t, e <> EDone i (OMw true t)) -> invocs (snd (step s e)) = 0%nat.
Proof using MW.
  intro NA. destruct e; cbn [ServerProto.step].
  - destruct (tr s); [apply na_feed|reflexivity].
  - destruct (timer s); try reflexivity. cbn.
    destruct (tr s && negb (closing s) && negb (sent s)); reflexivity.
  - apply na_task_done. intros t E. apply (NA id t). congruence.
  - destruct (tr s); reflexivity.
Qed.

Lemma na_run evs : forall s, (forall i t, ~ In (EDone i (OMw true t)) evs) ->
  invocs (flat (run s evs)) = 0%nat.
Proof using MW.
  induction evs as [|e r IH]; intros s NA; [reflexivity|].
  rewrite run_cons, flat_cons, invocs_app, na_step, IH; [reflexivity| |].
  - intros i t H. apply (NA i t). right. assumption.
  - intros i t H. apply (NA i t). left. assumption.
Qed.
End NoAllow.

End Proto.
