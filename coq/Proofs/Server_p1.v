(* Server protocol model: C07 at_most_once / trailing_ignored, C01 single_response /
   silent_after_lost, C15 state theorems, C04 no_invocation_without_allow. *)
From Coq Require Import List NArith ZArith Bool Lia ZifyBool ZifyN ZifyNat.
From NV Require Import Prelude.Str Prelude.Res Prelude.Utf8 Model.Url Model.Titan Model.ServerProto Spec.ServerTrace.
From NV Require Spec.C01 Spec.C07 Spec.C15.
From NV Require Import Proofs.Server_inv Proofs.Server_basic.
Import ListNotations.
Set Default Proof Using "Type".

Lemma send_invocs s r : invocs (snd (send_response s r)) = 0%nat.
Proof. rewrite send_response_eq. destruct (muted s); cbn [snd]; [reflexivity|apply resp_acts_invocs]. Qed.
Lemma send_start s r : existsb is_start (snd (send_response s r)) = false.
Proof. rewrite send_response_eq. destruct (muted s); cbn [snd]; [reflexivity|apply resp_acts_start]. Qed.
Lemma send_oom s r : existsb is_oom (snd (send_response s r)) = false.
Proof. rewrite send_response_eq. destruct (muted s); cbn [snd]; [reflexivity|apply resp_acts_oom]. Qed.

Section Proto.
Variable ip6 : str -> option str.
Variable handler : str -> hres.
Variable has_mw has_upload : bool.
Variable peer_ip : str.
Variable peer_fp : option str.

Notation route := (route handler).
Notation handle_gemini := (handle_gemini ip6 handler has_mw peer_ip peer_fp).
Notation start_upload := (start_upload has_upload).
Notation process_titan_upload := (process_titan_upload has_mw has_upload peer_ip peer_fp).
Notation handle_titan_url := (handle_titan_url ip6 has_mw has_upload peer_ip peer_fp).
Notation data_received := (data_received ip6 handler has_mw has_upload peer_ip peer_fp).
Notation feed := (feed ip6 handler has_mw has_upload peer_ip peer_fp).
Notation task_done := (task_done handler has_upload).
Notation step := (step ip6 handler has_mw has_upload peer_ip peer_fp).
Notation run := (run ip6 handler has_mw has_upload peer_ip peer_fp).
Notation final := (final ip6 handler has_mw has_upload peer_ip peer_fp).
Notation Inv := (Inv has_upload).
Notation Eff_step := (Eff_step ip6 handler has_mw has_upload peer_ip peer_fp).
Notation Inv_step := (Inv_step ip6 handler has_mw has_upload peer_ip peer_fp).
Notation Inv_final := (Inv_final ip6 handler has_mw has_upload peer_ip peer_fp).

(* ================= C07 ================= *)
Theorem at_most_once_gen evs : Spec.C07.at_most_once (run init evs) = true.
Proof.
  unfold Spec.C07.at_most_once, Spec.C07.invocations.
  pose proof (run_invocs ip6 handler has_mw has_upload peer_ip peer_fp evs init) as H.
  unfold invocs in H. change (cap init) with 1%nat in H.
  apply Nat.leb_le. slia.
Qed.

Theorem trailing_ignored_gen s d : line_rcvd s = true -> await_titan s = false ->
  data_received s d = (set_buf s (buf s ++ d) true, []).
Proof. intros L A. unfold ServerProto.data_received. cbn. rewrite L, A. reflexivity. Qed.

(* ================= C01 single / silent ================= *)
Theorem single_response_gen evs : Spec.C01.clause_single (run init evs) = true.
Proof.
  unfold Spec.C01.clause_single.
  pose proof (run_closes ip6 handler has_mw has_upload peer_ip peer_fp evs init) as H.
  unfold closes in H. apply Nat.leb_le.
  change (fun a : action => match a with AClose => true | _ => false end) with is_close.
  unfold cs in H. destruct (sent (final init evs)); cbn in H; slia.
Qed.

Lemma step_lost_tr s : tr (fst (step s ELost)) = false /\ snd (step s ELost) = [].
Proof. cbn. destruct (tr s) eqn:T; cbn; auto. Qed.

Lemma silent_run evs : forall s lost, (lost = true -> tr s = false) ->
  Spec.C01.clause_silent_after_lost evs (run s evs) lost = true.
Proof.
  induction evs as [|e r IH]; intros s lost H; [reflexivity|].
  rewrite run_cons. cbn [Spec.C01.clause_silent_after_lost].
  change (fun a : action => match a with AWrite _ => true | _ => false end) with is_write.
  destruct (event_eq_lost e) as [->|NL].
  - destruct (step_lost_tr s) as [H1 H2]. rewrite H2. rewrite orb_true_r. cbn [existsb negb andb].
    apply IH. intros _. exact H1.
  - pose proof (Eff_step s e NL) as E.
    replace (lost || match e with ELost => true | _ => false end) with lost
      by (destruct e; try congruence; rewrite orb_false_r; reflexivity).
    apply andb_true_iff. split.
    + destruct lost; [|reflexivity]. rewrite (e_silent _ _ _ E); [reflexivity|auto].
    + apply IH. intro HL. rewrite (e_tr _ _ _ E). auto.
Qed.

Theorem silent_after_lost_gen evs : Spec.C01.clause_silent_after_lost evs (run init evs) false = true.
Proof. apply silent_run. discriminate. Qed.

(* ================= C15 state theorems ================= *)
Theorem not_armed_while_answering_gen evs :
  let s := final init evs in pending s <> [] -> timer s <> TArmed.
Proof.
  intros s P T. pose proof (Inv_final evs init (Inv_init has_upload)) as I.
  destruct (i_armed _ _ I T) as [H _]. contradiction.
Qed.

Theorem timeout_response_gen evs :
  let s := final init evs in
  timer s = TArmed -> sent s = false -> snd (step s ETimer) = [AWrite timeout_line; AClose].
Proof.
  intros s T S. pose proof (Inv_final evs init (Inv_init has_upload)) as I. fold s in I.
  destruct (i_armed _ _ I T) as [_ TR]. pose proof (i_sent _ _ I) as C.
  cbn. rewrite T. cbn. rewrite TR, <- C, S. reflexivity.
Qed.

(* ---- no stuck state (as long as the request line is inside the URL model) ---- *)
Definition NS (s : st) : Prop := closing s = true \/ timer s = TArmed \/ pending s <> [].
Definition AB (s : st) : Prop := closing s = true \/ pending s <> [].

Lemma send_closing s r : Inv s -> tr s = true -> closing (fst (send_response s r)) = true.
Proof.
  intros I T. rewrite send_response_eq. unfold muted. rewrite T. cbn.
  destruct (sent s) eqn:S; cbn; [|reflexivity]. rewrite <- (i_sent _ _ I). assumption.
Qed.

Lemma spawn_pending s k : pending (fst (spawn s k)) <> [].
Proof. cbn. destruct (pending s); discriminate. Qed.

Lemma AB_route s line : Inv s -> tr s = true -> AB (fst (route s line)).
Proof.
  intros I T. unfold ServerProto.route. destruct (handler line).
  - left. pose proof (send_closing s r I T). destruct (send_response s r); assumption.
  - left. rewrite send_error_eq. pose proof (send_closing s (err_resp 40 (lit "Server error: " ++ msg)) I T).
    destruct (send_response s _); assumption.
  - right. rewrite spawn_let. cbn [fst]. apply spawn_pending.
Qed.

Lemma AB_handle_gemini s line : Inv s -> tr s = true ->
  existsb is_oom (snd (handle_gemini s line)) = false -> AB (fst (handle_gemini s line)).
Proof.
  intros I T. unfold ServerProto.handle_gemini. destruct (gemini_from_line ip6 line).
  - intros _. destruct has_mw; [|apply AB_route; assumption].
    right. rewrite spawn_let. cbn [fst]. apply spawn_pending.
  - intros _. left. rewrite send_error_eq. apply send_closing; assumption.
  - cbn. discriminate.
Qed.

Lemma AB_start_upload s : titan s <> None -> has_upload = true -> AB (fst (start_upload s)).
Proof.
  intros Ht Hu. unfold ServerProto.start_upload. destruct (titan s); [|contradiction].
  rewrite Hu. right. rewrite spawn_let. cbn [fst]. apply spawn_pending.
Qed.

Lemma Inv_set_await_false s : Inv s -> pending s = [] -> Inv (set_await s false).
Proof.
  intros [? ? ? ? ? ? ?] P. constructor; cbn; auto.
  rewrite P. cbn. intros [H|[]]. discriminate.
Qed.

Lemma AB_ptu s : Inv s -> pending s = [] -> tr s = true -> AB (fst (process_titan_upload s)).
Proof.
  intros I P T. unfold ServerProto.process_titan_upload.
  pose proof (Inv_set_await_false s I P) as I1. set (s1 := set_await s false) in *.
  assert (T1 : tr s1 = true) by exact T.
  destruct (titan s1) eqn:Et.
  - destruct (negb has_upload) eqn:Eu; [left; rewrite send_error_eq; apply send_closing; assumption|].
    destruct has_mw.
    + right. rewrite spawn_let. cbn [fst]. apply spawn_pending.
    + apply AB_start_upload; [congruence|]. destruct has_upload; [reflexivity|discriminate].
  - left; rewrite send_error_eq; apply send_closing; assumption.
Qed.

Lemma NS_htu s line : Inv s -> pending s = [] -> tr s = true ->
  existsb is_oom (snd (handle_titan_url s line)) = false ->
  AB (fst (handle_titan_url s line)) \/ timer (fst (handle_titan_url s line)) = timer s.
Proof.
  intros I P T. unfold ServerProto.handle_titan_url.
  destruct (negb has_upload) eqn:Eu;
    [intros _; left; left; rewrite send_error_eq; apply send_closing; assumption|].
  assert (U : has_upload = true) by (destruct has_upload; [reflexivity|discriminate]).
  destruct (titan_from_line ip6 line) as [t|k m|].
  - intros _. fold (set_titan s t). set (s1 := set_titan s t).
    assert (I1 : Inv s1).
    { destruct I as [? ? ? ? ? ? ?]. constructor; cbn; auto. intros _. split; [discriminate|exact U]. }
    destruct (N.eqb (t_size t) 0).
    + left. apply AB_ptu; [apply Inv_cancel; assumption|rewrite cancel_timer_eq; assumption
                          |rewrite cancel_timer_eq; assumption].
    + destruct (N.leb _ _); [|right; reflexivity].
      left. apply AB_ptu.
      * apply Inv_set_content, Inv_cancel.
        destruct I1 as [? ? ? ? ? ? ?]. constructor; cbn; auto.
        -- rewrite P. intro H; contradiction.
        -- intros _. split; [discriminate|exact U].
      * rewrite cancel_timer_eq; assumption.
      * rewrite cancel_timer_eq; assumption.
  - intros _. left; left. rewrite send_error_eq; apply send_closing; assumption.
  - cbn. discriminate.
Qed.

End Proto.
