(* Gen = Model for the URL and request-line functions translated from /repo/src/nauyaca/utils/url.py and
   protocol/request.py (Gen/UrlGen.v, regenerated on every run by translate/py2coq_url.py).  Statements only; the
   proofs are in Proofs/EquivUrl_proofs.v.

   Every statement is an equality of `res` values: the returned record, or the exception *kind and message*, or
   OutOfModel.  The library functions are instantiated by the hand-written models of CPython (Model/Url.v urlsplit /
   hostname / port / userinfo, Equiv/UrlGlue.v urlparse / urlunparse on top of them, Model/Titan.v py_int / ustrip),
   the callees by the generated callee, so the theorems compose.  The Python records are compared through the views
   purl_of_parsed / greq_of_parsed / gtreq_of_treq (Equiv/UrlGlue.v): the fields the model does not carry are
   thereby proved constant (ParsedURL.scheme = "gemini" resp. "titan", ParsedURL.fragment = "").

   The one difference found: the model abbreviates the message of validate_url's "too long" error.  It is stated
   twice: exactly, against the model with the full text (`*_full`), and against the model itself up to
   `abbreviate`, which rewrites the message of kind "too_long" and nothing else. *)
From Coq Require Import List NArith ZArith Bool.
From NV Require Import Prelude.Str Prelude.Res Prelude.Utf8 Model.Url Model.Titan Equiv.UrlGlue Gen.UrlGen.
From NV Require Proofs.EquivUrl_proofs.
Import ListNotations.

(* utils.url.parse_url *)
Theorem parse_url_tie : forall ip6 u,
  gen_parse_url (urlparse ip6) u = res_map purl_of_parsed (parse_url ip6 u).
Proof. exact EquivUrl_proofs.parse_url_tie. Qed.
Print Assumptions parse_url_tie.

(* utils.url.validate_url: the size check of the model's gemini_from_line, then parse_url, result discarded *)
Theorem validate_url_tie : forall ip6 u,
  gen_validate_url (gen_parse_url (urlparse ip6)) u = res_map (fun _ => tt) (gemini_from_line_full ip6 u).
Proof. exact EquivUrl_proofs.validate_url_tie. Qed.
Print Assumptions validate_url_tie.

(* GeminiRequest.from_line = validate_url ; parse_url *)
Theorem gemini_from_line_full_tie : forall ip6 line,
  gen_gemini_from_line (gen_validate_url (gen_parse_url (urlparse ip6))) (gen_parse_url (urlparse ip6)) line
  = res_map (greq_of_parsed line) (gemini_from_line_full ip6 line).
Proof. exact EquivUrl_proofs.gemini_from_line_full_tie. Qed.
Print Assumptions gemini_from_line_full_tie.

Theorem gemini_from_line_model : forall ip6 line,
  abbreviate (gemini_from_line_full ip6 line) = gemini_from_line ip6 line.
Proof. exact EquivUrl_proofs.gemini_from_line_model. Qed.
Print Assumptions gemini_from_line_model.

Theorem gemini_from_line_tie : forall ip6 line,
  abbreviate (gen_gemini_from_line (gen_validate_url (gen_parse_url (urlparse ip6))) (gen_parse_url (urlparse ip6)) line)
  = res_map (greq_of_parsed line) (gemini_from_line ip6 line).
Proof. exact EquivUrl_proofs.gemini_from_line_tie. Qed.
Print Assumptions gemini_from_line_tie.

(* _parse_titan_params: never raises (the unpacking of part.split("=", 1) is guarded by "=" in part) *)
Theorem parse_titan_params_tie : forall s, gen_parse_titan_params s = Ok (parse_params s).
Proof. exact EquivUrl_proofs.parse_titan_params_tie. Qed.
Print Assumptions parse_titan_params_tie.

(* TitanRequest.from_line *)
Theorem titan_from_line_tie : forall ip6 line,
  gen_titan_from_line gen_parse_titan_params (gen_parse_url (urlparse ip6)) line
  = res_map gtreq_of_treq (titan_from_line ip6 line).
Proof. exact EquivUrl_proofs.titan_from_line_tie. Qed.
Print Assumptions titan_from_line_tie.

(* TitanRequest.normalized_url and is_delete, on the requests the model can produce *)
Theorem titan_normalized_tie : forall t, gen_titan_normalized_url (gtreq_of_treq t) = titan_normalized t.
Proof. exact EquivUrl_proofs.titan_normalized_tie. Qed.
Print Assumptions titan_normalized_tie.

Theorem titan_is_delete_tie : forall t, gen_titan_is_delete (gtreq_of_treq t) = N.eqb (t_size t) 0.
Proof. exact EquivUrl_proofs.titan_is_delete_tie. Qed.
Print Assumptions titan_is_delete_tie.
