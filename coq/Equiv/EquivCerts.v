(* Gen = Model for security/certificates.py, the get_peer_certificate methods of the three protocol classes and the
   PyOpenSSL certificate conversion (Gen/CertsGen.v, regenerated on every run by translate/py2coq_certs.py).
   Statements only; the proofs are in Proofs/EquivCerts_proofs.v.

   Every statement holds for EVERY instance `L` of the library record (Equiv/CertsGlue.v `certlib`): DER encoding, the
   hash functions, the file system, the X.509 parsers, the TLS object and the clock reading `now` are universally
   quantified, nothing is assumed about them.  The callees are instantiated by the generated callee, so the theorems
   compose.  What the model's fingerprint IS (format, injectivity, which bytes are hashed) is proved in
   Proofs/Certs_format.v about Model/Certs.v; through these ties it is a statement about the source text. *)
From Coq Require Import List NArith ZArith Bool.
From NV Require Import Prelude.Str Prelude.Res Model.Certs Equiv.CertsGlue Gen.CertsGen.
From NV Require Proofs.EquivCerts_proofs.
Import ListNotations.

(* get_certificate_fingerprint(cert, algorithm="sha256") *)
Theorem default_algorithm_tie : gen_get_certificate_fingerprint__default_algorithm = default_algorithm.
Proof. exact EquivCerts_proofs.default_algorithm_tie. Qed.
Print Assumptions default_algorithm_tie.

Theorem fingerprint_tie : forall (cert path transport sslobj ocert : Type) (L : certlib cert path transport sslobj ocert) c alg,
  gen_get_certificate_fingerprint L c alg = fingerprint (l_der L) (l_sha256 L) (l_sha1 L) c alg.
Proof. exact (@EquivCerts_proofs.fingerprint_tie). Qed.
Print Assumptions fingerprint_tie.

(* the call every site outside certificates.py makes: get_certificate_fingerprint(cert) *)
Theorem fingerprint_default_tie : forall (cert path transport sslobj ocert : Type) (L : certlib cert path transport sslobj ocert) c,
  gen_get_certificate_fingerprint L c gen_get_certificate_fingerprint__default_algorithm
  = fingerprint_default (l_der L) (l_sha256 L) (l_sha1 L) c.
Proof. exact (@EquivCerts_proofs.fingerprint_default_tie). Qed.
Print Assumptions fingerprint_default_tie.

(* load_certificate *)
Theorem load_certificate_tie : forall (cert path transport sslobj ocert : Type) (L : certlib cert path transport sslobj ocert) p,
  gen_load_certificate L p = load_certificate (l_path_str L) (l_exists L) (l_read_bytes L) (l_load_pem L) p.
Proof. exact (@EquivCerts_proofs.load_certificate_tie). Qed.
Print Assumptions load_certificate_tie.

(* get_certificate_fingerprint_from_path(cert_path, algorithm="sha256") = load_certificate ; get_certificate_fingerprint *)
Theorem from_path_default_algorithm_tie : gen_get_certificate_fingerprint_from_path__default_algorithm = default_algorithm.
Proof. exact EquivCerts_proofs.from_path_default_algorithm_tie. Qed.
Print Assumptions from_path_default_algorithm_tie.

Theorem fingerprint_from_path_tie : forall (cert path transport sslobj ocert : Type) (L : certlib cert path transport sslobj ocert) p alg,
  gen_get_certificate_fingerprint_from_path L (gen_load_certificate L) (gen_get_certificate_fingerprint L) p alg
  = fingerprint_from_path (l_der L) (l_sha256 L) (l_sha1 L) (l_path_str L) (l_exists L) (l_read_bytes L) (l_load_pem L) p alg.
Proof. exact (@EquivCerts_proofs.fingerprint_from_path_tie). Qed.
Print Assumptions fingerprint_from_path_tie.

(* is_certificate_expired: one reading of the clock, strictly after not_valid_after_utc *)
Theorem is_expired_tie : forall (cert path transport sslobj ocert : Type) (L : certlib cert path transport sslobj ocert) now c,
  gen_is_certificate_expired L now c = is_expired (l_not_after L) now c.
Proof. exact (@EquivCerts_proofs.is_expired_tie). Qed.
Print Assumptions is_expired_tie.

(* validate_certificate_file *)
Theorem validate_tie : forall (cert path transport sslobj ocert : Type) (L : certlib cert path transport sslobj ocert) now p,
  gen_validate_certificate_file L (gen_load_certificate L) (gen_is_certificate_expired L now) p
  = validate_file (l_path_str L) (l_exists L) (l_read_bytes L) (l_load_pem L) (l_not_after L) now p.
Proof. exact (@EquivCerts_proofs.validate_tie). Qed.
Print Assumptions validate_tie.

(* get_peer_certificate of GeminiServerProtocol, GeminiClientProtocol, TitanClientProtocol: the same function *)
Theorem server_peer_tie : forall (cert path transport sslobj ocert : Type) (L : certlib cert path transport sslobj ocert) tr,
  gen_server_get_peer_certificate L tr = peer_certificate (l_ssl_object L) (l_getpeercert_der L) (l_load_der L) tr.
Proof. exact (@EquivCerts_proofs.server_peer_tie). Qed.
Print Assumptions server_peer_tie.

Theorem client_peer_tie : forall (cert path transport sslobj ocert : Type) (L : certlib cert path transport sslobj ocert) tr,
  gen_client_get_peer_certificate L tr = peer_certificate (l_ssl_object L) (l_getpeercert_der L) (l_load_der L) tr.
Proof. exact (@EquivCerts_proofs.client_peer_tie). Qed.
Print Assumptions client_peer_tie.

Theorem titan_client_peer_tie : forall (cert path transport sslobj ocert : Type) (L : certlib cert path transport sslobj ocert) tr,
  gen_titan_client_get_peer_certificate L tr = peer_certificate (l_ssl_object L) (l_getpeercert_der L) (l_load_der L) tr.
Proof. exact (@EquivCerts_proofs.titan_client_peer_tie). Qed.
Print Assumptions titan_client_peer_tie.

(* security/pyopenssl_tls.py x509_to_cryptography; server/tls_protocol.py _SSLObjectWrapper.getpeercert(binary_form=True) *)
Theorem x509_to_cryptography_tie : forall (cert path transport sslobj ocert : Type) (L : certlib cert path transport sslobj ocert) o,
  gen_x509_to_cryptography L o = x509_to_cryptography (l_dump_asn1 L) (l_load_der L) o.
Proof. exact (@EquivCerts_proofs.x509_to_cryptography_tie). Qed.
Print Assumptions x509_to_cryptography_tie.

Theorem wrapper_getpeercert_tie : forall (cert path transport sslobj ocert : Type) (L : certlib cert path transport sslobj ocert) c,
  gen_wrapper_getpeercert_der L c = wrapper_getpeercert_der (l_der L) c.
Proof. exact (@EquivCerts_proofs.wrapper_getpeercert_tie). Qed.
Print Assumptions wrapper_getpeercert_tie.

(* the call sites of get_certificate_fingerprint in the whole source tree (table regenerated with the definitions):
   outside certificates.py every call omits the algorithm (= the default, = "sha256" by default_algorithm_tie);
   inside it, _from_path passes its own parameter on and get_certificate_info asks for both explicitly;
   the server protocol (both request kinds), the trust store (trust, verify) and the client session (both calls)
   do call it; hashlib is imported by certificates.py and by the IP-hashing log helper only *)
Theorem sites_outside_certificates_use_default :
  forallb (fun s => eqb (site_file s) certs_file || site_default s) fingerprint_sites = true.
Proof. exact EquivCerts_proofs.sites_outside_certificates_use_default. Qed.
Print Assumptions sites_outside_certificates_use_default.

Theorem sites_inside_certificates :
  filter (fun s => eqb (site_file s) certs_file) fingerprint_sites
  = [mk_site certs_file (lit "get_certificate_fingerprint_from_path") (Some (lit "<expr> algorithm"));
     mk_site certs_file (lit "get_certificate_info") (Some (lit "sha256"));
     mk_site certs_file (lit "get_certificate_info") (Some (lit "sha1"))].
Proof. exact EquivCerts_proofs.sites_inside_certificates. Qed.
Print Assumptions sites_inside_certificates.

Theorem security_sites_present :
  forallb (fun fq => existsb (fun s => site_is (fst fq) (snd fq) s && site_default s) fingerprint_sites) security_sites = true.
Proof. exact EquivCerts_proofs.security_sites_present. Qed.
Print Assumptions security_sites_present.

Theorem hashlib_users_tie : hashlib_users = [certs_file; lit "utils/logging.py"].
Proof. exact EquivCerts_proofs.hashlib_users_tie. Qed.
Print Assumptions hashlib_users_tie.

(* security/pyopenssl_tls.py get_peer_certificate_from_connection: `conn.get_peer_certificate()`, None when it raises - the
   certificate the peer proved possession of, not an entry of the chain it sent along *)
Theorem conn_peer_certificate_tie : conn_peer_certificate_is_the_leaf = true.
Proof. exact EquivCerts_proofs.conn_peer_certificate_tie. Qed.
Print Assumptions conn_peer_certificate_tie.
