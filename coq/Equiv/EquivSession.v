(* Gen = Model for one whole client call: GeminiClient._get_single and GeminiClient.upload from their first statement to their
   last (client/session.py), with the attributes GeminiClient.__init__ derives from the configuration flags.  Gen/SessionGen.v
   is regenerated from /repo's current source on every run by translate/py2coq_session.py; statements only here, the proofs are
   in Proofs/EquivSession_proofs.v.

   A generated call  gen_get_single <callees> cfg s url conn cert  is a function of: the client cfg (gen_init of the flags), the
   committed trust store s, the URL, and the peer's behaviour - conn (loop.create_connection: ConnOk / ConnFail <class>), cert
   (what get_peer_certificate() hands back) and the callee wait_response (what asyncio.wait_for(response_future) hands back:
   WResult / WExc <label> / WTimeout when the peer stalls).  It returns the store the call leaves, how the call ends
   (Returned response / Raised exception) and the events an observer sees in order (Equiv/SessionGlue.v: GProto
   send_on_connect, GConnect, GWrite, GCert, GVerify, GTrust, GSend, GWait, GRaise, GClose).

   In the ties the TOFUDatabase methods are the GENERATED ones of Gen/TofuGen.v (security/tofu.py) and the protocol object is
   the model's client protocol (SessionGlue.m_new / m_step = Model.ClientProto.cstep, m_wait = Spec.C13.deliver; Equiv/EquivClient.v
   ties cstep to client/protocol.py).  The theorems about the `finally`, about a failed connection and about the first statements
   of upload hold for EVERY protocol object, TOFUDatabase behaviour and URL parser (they are about the control flow alone). *)
From Coq Require Import List NArith ZArith Bool.
From NV Require Import Prelude.Str Prelude.Res Prelude.Utf8 Model.Tofu Model.ClientProto Model.Session Equiv.TofuGlue Equiv.SessionGlue
                       Gen.TofuGen Gen.SessionGen.
From NV Require Model.Url Spec.C11 Proofs.EquivSession_proofs.
Import ListNotations.
Open Scope list_scope.

(* the generated calls with the generated TOFUDatabase methods (clock reading `now`) and the model's client protocol *)
Local Notation code_get_single request cap dw now pu w :=
  (gen_get_single pu (fun s h p c => gen_verify s h p c now) gen_get_host_info (fun s h p c => gen_trust s h p c now)
     m_new (m_step request cap dw CConnected) (m_step request cap dw CSend) w).
Local Notation code_upload request cap dw now rp pu w :=
  (gen_upload rp pu (fun s h p c => gen_verify s h p c now) gen_get_host_info (fun s h p c => gen_trust s h p c now)
     m_new_titan (m_step request cap dw CConnected) (m_step request cap dw CSend) w).
(* how a call ends after the wait for the response returned wo (the `except TimeoutError` of the second try statement) *)
Local Notation after_wait wo :=
  (match wo with
   | WResult x => Returned x
   | WExc k => if catches gen_exc_bases (XFuture k) (lit "TimeoutError")
               then Raised (XNewFrom (lit "TimeoutError") (XFuture k)) else Raised (XFuture k)
   | WTimeout => Raised (XNewFrom (lit "TimeoutError") (XLib (lit "TimeoutError")))
   end).
(* how a call ends when the connection attempt raises an exception of class cls (the two handlers of the first try statement) *)
Local Notation connect_failed cfg s pr cls :=
  (let pre := [GProto (match cfg_tofu_db cfg with None => true | Some _ => false end);
               GConnect (cfg_ssl_context cfg) (Url.p_host pr) (Url.p_port pr) (Url.p_host pr); GRaise (XLib cls)] in
   if catches gen_exc_bases (XLib cls) (lit "TimeoutError")
   then (s, Raised (XNewFrom (lit "TimeoutError") (XLib cls)), pre ++ [GRaise (XNewFrom (lit "TimeoutError") (XLib cls))])
   else if catches gen_exc_bases (XLib cls) (lit "OSError")
   then (s, Raised (XNewFrom (lit "ConnectionError") (XLib cls)), pre ++ [GRaise (XNewFrom (lit "ConnectionError") (XLib cls))])
   else (s, Raised (XLib cls), pre)).

(* ---------- GeminiClient.__init__: every attribute it assigns is exactly the constructor argument (timeout, max_redirects - 0
   stays 0 -, verify_ssl, trust_on_first_use, decode_bodies); trust_on_first_use decides whether there is a trust store; verify_ssl
   only chooses the TLS context (CERT_REQUIRED + check_hostname, or CERT_NONE) when the caller gives none ---------- *)
Theorem init_tie : forall to mr c v t d,
  gen_init to mr c v t d = {| cfg_timeout := to; cfg_max_redirects := mr; cfg_verify_ssl := v; cfg_trust_on_first_use := t;
                              cfg_tofu_db := if t then Some tt else None;
                              cfg_ssl_context := match c with Some i => CtxGiven i | None => CtxCreated v v end;
                              cfg_decode_bodies := d |}.
Proof. exact EquivSession_proofs.init_tie. Qed.
Print Assumptions init_tie.

(* the defaults of the constructor: TOFU on, CA verification off, bodies decoded, 30 s, MAX_REDIRECTS (protocol/constants.py) = 5 *)
Theorem init_defaults :
  gen_init_default_timeout = QArith_base.Qmake 30 1 /\ gen_init_default_max_redirects = gen_MAX_REDIRECTS /\ gen_MAX_REDIRECTS = 5 /\
  gen_init_default_ssl_context = None /\ gen_init_default_verify_ssl = false /\ gen_init_default_trust_on_first_use = true /\
  gen_init_default_decode_bodies = true.
Proof. exact EquivSession_proofs.init_defaults. Qed.
Print Assumptions init_defaults.

(* ---------- GeminiClient.get, for a client built by the constructor with max_redirects = mr (ANY value, 0 included): the URL and
   its normalised form are validated first - a failure is the result and neither callee is applied, so nothing is connected -,
   then follow_redirects on is _get_with_redirects(url, mr, no chain) with that same mr, off is _get_single(url) ---------- *)
Theorem get_tie : forall (A : Type) vu pu (gwr : str -> nat -> option (list str) -> res A) gs to mr c v t d url follow,
  gen_get vu pu gwr gs (gen_init to mr c v t d) url follow
  = match vu url with
    | Ok _ => match pu url with
              | Ok pr => match vu (Url.p_norm pr) with
                         | Ok _ => if follow then gwr url mr None else gs url
                         | Err k m => Err k m | OutOfModel => OutOfModel
                         end
              | Err k m => Err k m | OutOfModel => OutOfModel
              end
    | Err k m => Err k m | OutOfModel => OutOfModel
    end.
Proof. exact (@EquivSession_proofs.get_tie). Qed.
Print Assumptions get_tie.

(* ---------- the tie to state: one _get_single call on a connection that was made = Session.session_call, on the three
   components the model has (store, result, observable events), for every request, store, certificate, chunks and error ---------- *)
Theorem get_single_tie : forall request cap dw now pu url pr t v ctx db to mr s c chunks exc,
  pu url = Ok pr ->
  model_view (code_get_single request cap dw now pu (m_wait cap dw chunks exc) (gen_init to mr ctx v t db) s url ConnOk c)
  = Some (session_call request db cap dw t s (Url.p_host pr) (Url.p_port pr) (presented_of c) now chunks exc).
Proof. exact EquivSession_proofs.get_single_tie. Qed.
Print Assumptions get_single_tie.

(* upload: the same model at decode_body = true, on the host and port of the converted URL *)
Theorem upload_tie : forall request cap dw now rp pu url content mime token cb base pr t v ctx db to mr s c chunks exc,
  content_bytes content = Some cb -> titan_base url = Some base -> pu (rp base (lit "titan://") (lit "gemini://")) = Ok pr ->
  model_view (code_upload request cap dw now rp pu (m_wait cap dw chunks exc) (gen_init to mr ctx v t db) s url content mime token ConnOk c)
  = Some (session_call request true cap dw t s (Url.p_host pr) (Url.p_port pr) (presented_of c) now chunks exc).
Proof. exact EquivSession_proofs.upload_tie. Qed.
Print Assumptions upload_tie.

(* upload is _get_single on the converted URL with the Titan protocol object built from (Titan URL with its parameters, content
   bytes), once its first statements succeed - for every protocol object, TOFUDatabase, parser and peer *)
Theorem upload_is_get_single : forall (P : Type) rp pu V G T (np : str -> str -> bool -> P) cm sr w cfg s url content mime token conn c cb base,
  content_bytes content = Some cb -> titan_base url = Some base ->
  gen_upload rp pu V G T np cm sr w cfg s url content mime token conn c
  = gen_get_single (fun _ => pu (rp base (lit "titan://") (lit "gemini://"))) V G T
      (fun _ _ soc => np (titan_url base cb mime token) cb soc) cm sr w cfg s url conn c.
Proof. exact (@EquivSession_proofs.upload_reduces). Qed.
Print Assumptions upload_is_get_single.

(* ... and when they do not, nothing else happens: no protocol object, no connection, no store access *)
Theorem upload_unencodable : forall (P : Type) rp pu V G T (np : str -> str -> bool -> P) cm sr w cfg s url x mime token conn c,
  encode x = None ->
  gen_upload rp pu V G T np cm sr w cfg s url (PStr x) mime token conn c
  = (s, Raised (XLib (lit "UnicodeEncodeError")), [GRaise (XLib (lit "UnicodeEncodeError"))]).
Proof. exact (@EquivSession_proofs.upload_unencodable). Qed.
Print Assumptions upload_unencodable.

Theorem upload_bad_scheme : forall (P : Type) rp pu V G T (np : str -> str -> bool -> P) cm sr w cfg s url content mime token conn c cb,
  content_bytes content = Some cb -> titan_base url = None ->
  gen_upload rp pu V G T np cm sr w cfg s url content mime token conn c
  = (s, Raised (XNew (lit "ValueError")), [GRaise (XNew (lit "ValueError"))]).
Proof. exact (@EquivSession_proofs.upload_bad_scheme). Qed.
Print Assumptions upload_bad_scheme.

Theorem get_single_bad_url : forall (P : Type) pu V G T (np : str -> bool -> bool -> P) cm sr w cfg s url conn c,
  (forall pr, pu url <> Ok pr) ->
  exists k, gen_get_single pu V G T np cm sr w cfg s url conn c = (s, Raised (XLib k), [GRaise (XLib k)]).
Proof. exact (@EquivSession_proofs.get_single_bad_url). Qed.
Print Assumptions get_single_bad_url.

(* ---------- C11 on the generated functions.  trust_on_first_use on: every protocol object is created with send_on_connect =
   False; every write is preceded by a verify call that returned is_valid = True (NO write before the verdict); the trace
   satisfies the monitor of C11; and if the pin check does not accept - the certificate changed, or it could not be read - nothing
   is written at all.  For every URL parser, connection outcome, store, certificate and behaviour of the peer ---------- *)
Theorem get_single_c11 : forall request cap dw now pu url v ctx db to mr s c conn w,
  let evs := snd (code_get_single request cap dw now pu w (gen_init to mr ctx v true db) s url conn c) in
  (forall soc, In (GProto soc) evs -> soc = false) /\
  (forall pre b post, evs = pre ++ GWrite b :: post -> exists m, In (GVerify (true, m)) pre) /\
  Spec.C11.ok (sview evs) = true /\
  (forall pr, pu url = Ok pr -> snd (tofu_check s (Url.p_host pr) (Url.p_port pr) (presented_of c) now) <> SAccepted ->
   forall b, ~ In (GWrite b) evs).
Proof. exact EquivSession_proofs.get_single_c11. Qed.
Print Assumptions get_single_c11.

Theorem upload_c11 : forall request cap dw now rp pu url content mime token v ctx db to mr s c conn w,
  let evs := snd (code_upload request cap dw now rp pu w (gen_init to mr ctx v true db) s url content mime token conn c) in
  (forall soc, In (GProto soc) evs -> soc = false) /\
  (forall pre b post, evs = pre ++ GWrite b :: post -> exists m, In (GVerify (true, m)) pre) /\
  Spec.C11.ok (sview evs) = true /\
  (forall base pr, titan_base url = Some base -> pu (rp base (lit "titan://") (lit "gemini://")) = Ok pr ->
   snd (tofu_check s (Url.p_host pr) (Url.p_port pr) (presented_of c) now) <> SAccepted -> forall b, ~ In (GWrite b) evs).
Proof. exact EquivSession_proofs.upload_c11. Qed.
Print Assumptions upload_c11.

(* ---------- what the model lacks and the code determines ---------- *)
(* the `finally`: transport.close() is called exactly once on every path on which a connection was made - whatever the protocol
   object, the TOFUDatabase methods (exceptions included), the certificate and the peer do -, it is the last event, and it is not
   called when no connection was made *)
Theorem get_single_close_once : forall (P : Type) pu V G T (np : str -> bool -> bool -> P) cm sr w cfg s url conn c,
  let evs := snd (gen_get_single pu V G T np cm sr w cfg s url conn c) in
  closes evs = match conn, pu url with ConnOk, Ok _ => 1 | _, _ => 0 end /\
  (closes evs = 1 -> exists pre, evs = pre ++ [GClose]).
Proof. exact (@EquivSession_proofs.get_single_close_once). Qed.
Print Assumptions get_single_close_once.

Theorem upload_close_once : forall (P : Type) rp pu V G T (np : str -> str -> bool -> P) cm sr w cfg s url content mime token conn c,
  let evs := snd (gen_upload rp pu V G T np cm sr w cfg s url content mime token conn c) in
  closes evs = match conn, content_bytes content, titan_base url with
               | ConnOk, Some _, Some base => match pu (rp base (lit "titan://") (lit "gemini://")) with Ok _ => 1 | _ => 0 end
               | _, _, _ => 0
               end /\
  (closes evs = 1 -> exists pre, evs = pre ++ [GClose]).
Proof. exact (@EquivSession_proofs.upload_close_once). Qed.
Print Assumptions upload_close_once.

(* the connection attempt fails with an exception of class cls: TimeoutError (and its subclasses) is re-raised as TimeoutError,
   any other OSError as ConnectionError, anything else passes through; the store is untouched, nothing is written, there is no
   transport to close *)
Theorem get_single_connect_failure : forall (P : Type) pu V G T (np : str -> bool -> bool -> P) cm sr w cfg s url pr cls c,
  pu url = Ok pr ->
  gen_get_single pu V G T np cm sr w cfg s url (ConnFail cls) c = connect_failed cfg s pr cls.
Proof. exact (@EquivSession_proofs.get_single_connect_failure). Qed.
Print Assumptions get_single_connect_failure.

Theorem upload_connect_failure : forall (P : Type) rp pu V G T (np : str -> str -> bool -> P) cm sr w cfg s url content mime token cb base pr cls c,
  content_bytes content = Some cb -> titan_base url = Some base -> pu (rp base (lit "titan://") (lit "gemini://")) = Ok pr ->
  gen_upload rp pu V G T np cm sr w cfg s url content mime token (ConnFail cls) c = connect_failed cfg s pr cls.
Proof. exact (@EquivSession_proofs.upload_connect_failure). Qed.
Print Assumptions upload_connect_failure.

(* the classes, on the table the translator emitted (and checked against the interpreter): a timeout is a TimeoutError; refused /
   reset connections, TLS failures (certificate verification under verify_ssl included) and name resolution are OSErrors *)
Theorem connect_classes :
  forallb (fun c => catches gen_exc_bases (XLib c) (lit "TimeoutError")) [lit "TimeoutError"] = true /\
  forallb (fun c => negb (catches gen_exc_bases (XLib c) (lit "TimeoutError")) && catches gen_exc_bases (XLib c) (lit "OSError"))
    [lit "OSError"; lit "ConnectionError"; lit "ConnectionRefusedError"; lit "ConnectionResetError"; lit "ConnectionAbortedError";
     lit "BrokenPipeError"; lit "ssl.SSLError"; lit "ssl.SSLCertVerificationError"; lit "socket.gaierror"] = true /\
  forallb (fun c => negb (catches gen_exc_bases (XLib c) (lit "TimeoutError")) && negb (catches gen_exc_bases (XLib c) (lit "OSError")))
    [lit "ValueError"; lit "UnicodeEncodeError"; lit "LookupError"; lit "CertificateChangedError"; lit "sqlite3.IntegrityError"; lit "Exception";
     lit "asyncio.CancelledError"] = true.
Proof. exact EquivSession_proofs.connect_classes. Qed.
Print Assumptions connect_classes.

(* the wait for the response returns wo, whatever it is (WTimeout: the peer stalls): the store and the observable events are the
   model's (they do not depend on the response), and after an accepting verdict (or without TOFU) the call ends as after_wait says:
   a timeout raises TimeoutError; so does an exception of the future that is itself a TimeoutError (re-raised `from` it, which the
   model's label cannot tell from the original); every other exception of the future passes through unchanged *)
Theorem get_single_wait : forall request cap dw now pu url pr t v ctx db to mr s c wo chunks exc,
  pu url = Ok pr ->
  let r := code_get_single request cap dw now pu (fun _ => wo) (gen_init to mr ctx v t db) s url ConnOk c in
  let m := session_call request db cap dw t s (Url.p_host pr) (Url.p_port pr) (presented_of c) now chunks exc in
  fst (fst r) = fst (fst m) /\ sview (snd r) = snd m /\
  (t = false \/ snd (tofu_check s (Url.p_host pr) (Url.p_port pr) (presented_of c) now) = SAccepted -> snd (fst r) = after_wait wo).
Proof. exact EquivSession_proofs.get_single_wait. Qed.
Print Assumptions get_single_wait.

Theorem upload_wait : forall request cap dw now rp pu url content mime token cb base pr t v ctx db to mr s c wo chunks exc,
  content_bytes content = Some cb -> titan_base url = Some base -> pu (rp base (lit "titan://") (lit "gemini://")) = Ok pr ->
  let r := code_upload request cap dw now rp pu (fun _ => wo) (gen_init to mr ctx v t db) s url content mime token ConnOk c in
  let m := session_call request true cap dw t s (Url.p_host pr) (Url.p_port pr) (presented_of c) now chunks exc in
  fst (fst r) = fst (fst m) /\ sview (snd r) = snd m /\
  (t = false \/ snd (tofu_check s (Url.p_host pr) (Url.p_port pr) (presented_of c) now) = SAccepted -> snd (fst r) = after_wait wo).
Proof. exact EquivSession_proofs.upload_wait. Qed.
Print Assumptions upload_wait.

(* which exceptions of the future are re-raised as the session's TimeoutError: a TimeoutError passed to connection_lost, and none
   of the exceptions the protocol constructs itself *)
Theorem future_classes :
  catches gen_exc_bases (XFuture (lit "conn:TimeoutError")) (lit "TimeoutError") = true /\
  forallb (fun k => negb (catches gen_exc_bases (XFuture k) (lit "TimeoutError")))
    [lit "header_too_long"; lit "invalid_status"; lit "out_of_range"; lit "bad_meta"; lit "too_large"; lit "closed_before_header"; lit "decode";
     lit "conn:UnicodeDecodeError"; lit "conn:ConnectionResetError"; lit "conn:BrokenPipeError"; lit "conn:ssl.SSLError"; lit "conn:OSError"] = true.
Proof. exact EquivSession_proofs.future_classes. Qed.
Print Assumptions future_classes.

(* ---------- the callees enter only through the values they return: a protocol object whose methods agree pointwise with the
   model's (such as the methods generated from client/protocol.py, which Equiv/EquivClient.v proves equal to cstep branch by
   branch) can be substituted for it in every statement above ---------- *)
Theorem get_single_ext : forall (P : Type) pu V G T (np : str -> bool -> bool -> P) cm cm' sr sr' w w' cfg s url conn c,
  (forall p, cm p = cm' p) -> (forall p, sr p = sr' p) -> (forall p, w p = w' p) ->
  gen_get_single pu V G T np cm sr w cfg s url conn c = gen_get_single pu V G T np cm' sr' w' cfg s url conn c.
Proof. exact (@EquivSession_proofs.get_single_ext). Qed.
Print Assumptions get_single_ext.

Theorem upload_ext : forall (P : Type) rp pu V G T (np : str -> str -> bool -> P) cm cm' sr sr' w w' cfg s url content mime token conn c,
  (forall p, cm p = cm' p) -> (forall p, sr p = sr' p) -> (forall p, w p = w' p) ->
  gen_upload rp pu V G T np cm sr w cfg s url content mime token conn c = gen_upload rp pu V G T np cm' sr' w' cfg s url content mime token conn c.
Proof. exact (@EquivSession_proofs.upload_ext). Qed.
Print Assumptions upload_ext.

(* the protocol object of _get_single is constructed from exactly (the normalised URL, self.decode_bodies, send_on_connect); for
   upload see upload_is_get_single: (the Titan URL with size / mime / token, the content bytes, send_on_connect) *)
Theorem get_single_protocol_args : forall (P : Type) pu V G T (np : str -> bool -> bool -> P) cm sr w cfg s url pr conn c,
  pu url = Ok pr ->
  gen_get_single pu V G T np cm sr w cfg s url conn c
  = gen_get_single pu V G T (fun _ _ soc => np (Url.p_norm pr) (cfg_decode_bodies cfg) soc) cm sr w cfg s url conn c.
Proof. exact (@EquivSession_proofs.get_single_protocol_args). Qed.
Print Assumptions get_single_protocol_args.
