(* Hand-written glue between the definitions generated from security/certificates.py and the certificate-extraction
   methods (Gen/CertsGen.v, written by translate/py2coq_certs.py) and Model/Certs.v.

   1. `certlib`: the record of the library operations the generated functions take as their first argument.  The
      translator's LIB table (its docstring) names the fields; nothing is assumed about them in the tie theorems
      (Equiv/EquivCerts.v): they hold for EVERY instance.
   2. str.upper() (str.lower() is Prelude.Str.lower), truthiness of bytes, the exception hierarchy for `except C`.
   3. The site table's record. *)
From Coq Require Import List NArith ZArith Bool.
From NV Require Import Prelude.Str Prelude.Res Model.Certs.
Import ListNotations.

(* ------------------------------------------------------------------ 1. the library *)
Record certlib (cert path transport sslobj ocert : Type) := mk_certlib {
  l_der : cert -> list N;                 (* c.public_bytes(serialization.Encoding.DER) *)
  l_pem : cert -> list N;                 (* c.public_bytes(serialization.Encoding.PEM) *)
  l_sha256 : list N -> list N;            (* hashlib.sha256(x).digest() ; .hexdigest() = hex_lower of it *)
  l_sha1 : list N -> list N;              (* hashlib.sha1(x).digest() *)
  l_not_after : cert -> Z;                (* c.not_valid_after_utc (an instant; aware datetimes compare as instants) *)
  l_not_before : cert -> Z;               (* c.not_valid_before_utc *)
  l_path_str : path -> str;               (* f"{p}" *)
  l_exists : path -> bool;                (* p.exists() *)
  l_read_bytes : path -> res (list N);    (* p.read_bytes() *)
  l_load_pem : list N -> res cert;        (* x509.load_pem_x509_certificate(b) *)
  l_load_der : list N -> res cert;        (* x509.load_der_x509_certificate(b) *)
  l_ssl_object : transport -> option sslobj;             (* t.get_extra_info("ssl_object") *)
  l_getpeercert_der : sslobj -> res (option (list N));   (* s.getpeercert(binary_form=True) *)
  l_dump_asn1 : ocert -> res (list N)     (* crypto.dump_certificate(crypto.FILETYPE_ASN1, o) *)
}.
Arguments l_der {cert path transport sslobj ocert} c _.
Arguments l_pem {cert path transport sslobj ocert} c _.
Arguments l_sha256 {cert path transport sslobj ocert} c _.
Arguments l_sha1 {cert path transport sslobj ocert} c _.
Arguments l_not_after {cert path transport sslobj ocert} c _.
Arguments l_not_before {cert path transport sslobj ocert} c _.
Arguments l_path_str {cert path transport sslobj ocert} c _.
Arguments l_exists {cert path transport sslobj ocert} c _.
Arguments l_read_bytes {cert path transport sslobj ocert} c _.
Arguments l_load_pem {cert path transport sslobj ocert} c _.
Arguments l_load_der {cert path transport sslobj ocert} c _.
Arguments l_ssl_object {cert path transport sslobj ocert} c _.
Arguments l_getpeercert_der {cert path transport sslobj ocert} c _.
Arguments l_dump_asn1 {cert path transport sslobj ocert} c _.

(* ------------------------------------------------------------------ 2. small library models *)
Definition upper_ch (c : N) : N := if is_lower c then (c - 32)%N else c.
Definition upper (s : str) : str := map upper_ch s.

Definition nonempty {A} (l : list A) : bool := match l with [] => false | _ => true end.

(* `except C`: does an exception of class k match C?  Every `Err k m` of a library operation stands for an
   instance of (a subclass of) Exception with str(e) = m; anything else (KeyboardInterrupt ...) is OutOfModel. *)
Definition os_errors : list str :=
  [lit "OSError"; lit "PermissionError"; lit "FileExistsError"; lit "FileNotFoundError";
   lit "IsADirectoryError"; lit "NotADirectoryError"].
Definition value_errors : list str :=
  [lit "ValueError"; lit "UnicodeDecodeError"; lit "UnicodeEncodeError"; lit "UnicodeError"].
Definition exc_isa (k c : str) : bool :=
  eqb c (lit "Exception") || eqb k c
  || (eqb c (lit "OSError") && existsb (eqb k) os_errors)
  || (eqb c (lit "ValueError") && existsb (eqb k) value_errors).

(* ------------------------------------------------------------------ 3. call sites *)
(* one call of get_certificate_fingerprint somewhere in the source tree: file, enclosing function (qualified),
   the algorithm argument as written (None: omitted, i.e. the default) *)
Record fp_site := mk_site { site_file : str; site_func : str; site_alg : option str }.
Definition site_is (file func : str) (s : fp_site) : bool := eqb (site_file s) file && eqb (site_func s) func.
Definition site_default (s : fp_site) : bool := match site_alg s with None => true | Some _ => false end.
Definition certs_file : str := lit "security/certificates.py".
(* the places the properties depend on do go through get_certificate_fingerprint *)
Definition security_sites : list (str * str) :=
  [(lit "server/protocol.py", lit "GeminiServerProtocol._handle_gemini_request");
   (lit "server/protocol.py", lit "GeminiServerProtocol._handle_titan_url");
   (lit "security/tofu.py", lit "TOFUDatabase.trust");
   (lit "security/tofu.py", lit "TOFUDatabase.verify");
   (lit "client/session.py", lit "GeminiClient._get_single");
   (lit "client/session.py", lit "GeminiClient.upload")].
