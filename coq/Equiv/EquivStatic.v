(* Gen = Model for the file handlers translated from /repo/src/nauyaca/server/handler.py (Gen/StaticGen.v,
   regenerated on every run by translate/py2coq_static.py).  Statements only; the proofs are in
   Proofs/EquivStatic_proofs.v.

   Every generated function takes the library record `pylib` first; here it is instantiated by
   StaticGlue.model_lib flt tok: the reading of pathlib / os over Model/Fs.v (flt: the storage fault of the
   upload model, tok: the value of secrets.token_hex).  Calls between the translated functions are calls between
   the generated definitions, so the theorems about handle / handle_upload cover the whole call tree below them.
   The vocabulary of the statements (nul_guard, contained, norm_resp, resp_of_sout, upload_out, model_out) is
   defined in Equiv/StaticGlue.v. *)
From Coq Require Import List NArith ZArith Bool.
From NV Require Import Prelude.Str Prelude.Res Prelude.Utf8 Model.Fs Model.Static Model.CertAuth.
From NV Require Import Equiv.StaticGlue Gen.StaticGen.
From NV Require Gen.PyGen.
From NV Require Proofs.EquivStatic_proofs.
Import ListNotations.

(* _resolve_fully: resolve() twice, None unless the second leaves the path unchanged; exact *)
Theorem resolve_fully_tie : forall flt tok f base rel,
  gen_resolve_fully (model_lib flt tok) f (base, rel) = nul_guard rel (rfull_res (resolve_fully f base rel)).
Proof. exact EquivStatic_proofs.resolve_fully_tie. Qed.
Print Assumptions resolve_fully_tie.

(* StaticFileHandler._is_safe_path: the containment test is the component-wise prefix test; exact, for every library *)
Theorem static_is_safe_path_tie : forall L c f p,
  gen_static_is_safe_path L c f p = Ok (path_prefixb (s_root c) p).
Proof. exact EquivStatic_proofs.static_is_safe_path_tie. Qed.
Print Assumptions static_is_safe_path_tie.

(* StaticFileHandler._get_mime_type; exact, for every library *)
Theorem mime_tie : forall L c f p, gen_get_mime_type L c f p = Ok (mime_of p).
Proof. exact EquivStatic_proofs.mime_tie. Qed.
Print Assumptions mime_tie.

(* StaticFileHandler.handle: the whole method (canonical path, complete resolution, containment, the index loop with
   its own resolution and containment test, listing, size limit, decoding); exact, no hypothesis.
   History: against the first version of Model/Static.v this statement was FALSE - an index name that resolves to a
   path inside the root with a component of more than 255 bytes makes is_file() raise OSError(ENAMETOOLONG) out of
   handle(), where the model went on to the next index name; the model also joined `d / name` as a single component
   (pathlib splits at slashes and lets an absolute name replace d) and did not skip an index name with a NUL.  Each
   was confirmed on the real code, the model was at fault and was corrected (try_indices); the computed example is
   EquivStatic_proofs.index_over_long_raises. *)
Theorem handle_tie : forall flt tok c f url,
  norm_resp (gen_handle (model_lib flt tok) c f url) = resp_of_sout url (handle c f url).
Proof. exact EquivStatic_proofs.handle_tie. Qed.
Print Assumptions handle_tie.

(* FileUploadHandler._is_safe_path; exact, for every library *)
Theorem upload_is_safe_path_tie : forall L c f p,
  gen_upload_is_safe_path L c f p = Ok (path_prefixb (u_root c) p).
Proof. exact EquivStatic_proofs.upload_is_safe_path_tie. Qed.
Print Assumptions upload_is_safe_path_tie.

(* FileUploadHandler._resolve_target; exact (the model's function includes the containment test) *)
Theorem resolve_target_tie : forall flt tok c f p,
  contained (u_root c) (gen_resolve_target (model_lib flt tok) c f p) = resolve_target c f p.
Proof. exact EquivStatic_proofs.resolve_target_tie. Qed.
Print Assumptions resolve_target_tie.

(* FileUploadHandler._handle_delete = the zero-byte branch of the model's handle_upload; exact *)
Theorem handle_delete_tie : forall flt tok c f r,
  token_ok c (q_token r) = true -> (u_max c <? q_size r)%N = false ->
  match u_types c with Some (t :: ts) => negb (existsb (eqb (q_mime r)) (t :: ts)) | _ => false end = false ->
  q_size r = 0%N ->
  upload_out (gen_handle_delete (model_lib flt tok) c f (q_path r)) = model_out (handle_upload c f r flt tok).
Proof. exact EquivStatic_proofs.handle_delete_upload_tie. Qed.
Print Assumptions handle_delete_tie.

(* FileUploadHandler.handle_upload: the whole method (admission checks, delete, path resolution, parent directories,
   temp file created exclusively, write, rename, cleanup of what the upload itself created); exact, no hypothesis.
   tok is the value of secrets.token_hex(8), the random part of the temporary file's name.
   History: against the first version of Model/Static.v (which knew no temporary file) this statement was FALSE in
   three ways, each confirmed on the real code, the model being at fault: (a) a target name of 234..255 bytes makes
   the temporary name ".<name>.<16 hex>.tmp" over-long: 40, not 20; (b) an over-long last component below missing
   directories: the directories are created before the failure; (c) a file that already carries the temporary name:
   40, everything unchanged (that this file survives is /repo commit 998dfce: the first version of this tie found
   that the cleanup handler unlinked it).  The model was corrected (handle_upload's tok argument, tmp_of); computed
   examples: EquivStatic_proofs.upload_tmp_name_over_long, upload_over_long_mkdir, upload_tmp_exists. *)
Theorem handle_upload_tie : forall flt tok c f r,
  upload_out (gen_handle_upload (model_lib flt tok) c f r) = model_out (handle_upload c f r flt tok).
Proof. exact EquivStatic_proofs.handle_upload_tie. Qed.
Print Assumptions handle_upload_tie.

(* the l_canon field of the instance is the canonical_path_segments translated in Gen/PyGen.v, over the model's unquote *)
Theorem canon_lib_tie : forall flt tok p up, unquote p = Ok up ->
  l_canon (model_lib flt tok) p false = PyGen.gen_canonical_path_segments (fun _ => up) p false.
Proof. exact EquivStatic_proofs.canon_lib_tie. Qed.
Print Assumptions canon_lib_tie.
