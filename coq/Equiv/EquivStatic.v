(* Gen = Model for the file handlers translated from /repo/src/nauyaca/server/handler.py (Gen/StaticGen.v,
   regenerated on every run by translate/py2coq_static.py).  Statements only; the proofs are in
   Proofs/EquivStatic_proofs.v.

   Every generated function takes the library record `pylib` first; here it is instantiated by
   StaticGlue.model_lib flt tok: the reading of pathlib / os over Model/Fs.v (flt: the storage fault of the
   upload model, tok: the value of secrets.token_hex).  Calls between the translated functions are calls between
   the generated definitions, so the theorems about handle / handle_upload cover the whole call tree below them.
   The vocabulary of the statements (nul_guard, contained, index_names_ok, tmp_ok, norm_resp, resp_of_sout,
   upload_out, model_out) is defined in Equiv/StaticGlue.v. *)
From Coq Require Import List NArith ZArith Bool.
From NV Require Import Prelude.Str Prelude.Res Prelude.Utf8 Model.Fs Model.Static Model.CertAuth.
From NV Require Import Equiv.StaticGlue Gen.StaticGen.
From NV Require Gen.PyGen.
From NV Require Proofs.EquivStatic_proofs.
Import ListNotations.

(* _resolve_fully: resolve() twice, None unless the second leaves the path unchanged; exact *)
Theorem resolve_fully_tie : forall flt tok f base rel,
  gen_resolve_fully (model_lib flt tok) f (base, rel) = nul_guard rel (rfull_res (resolve_fully f base rel)).
Proof. exact EquivStatic_proofs.resolve_fully_tie. Qed.
Print Assumptions resolve_fully_tie.

(* StaticFileHandler._is_safe_path: the containment test is the component-wise prefix test; exact, for every library *)
Theorem static_is_safe_path_tie : forall L c f p,
  gen_static_is_safe_path L c f p = Ok (path_prefixb (s_root c) p).
Proof. exact EquivStatic_proofs.static_is_safe_path_tie. Qed.
Print Assumptions static_is_safe_path_tie.

(* StaticFileHandler._get_mime_type; exact, for every library *)
Theorem mime_tie : forall L c f p, gen_get_mime_type L c f p = Ok (mime_of p).
Proof. exact EquivStatic_proofs.mime_tie. Qed.
Print Assumptions mime_tie.

(* StaticFileHandler.handle: the whole method.  The unconditional statement is FALSE (handle_tie_refuted below:
   an index name that resolves to an over-long name inside the root makes is_file() raise; confirmed on the real
   code, the model is at fault); it holds for well-behaved index names. *)
Theorem handle_tie_partial : forall flt tok c f url,
  index_names_ok c f ->
  norm_resp (gen_handle (model_lib flt tok) c f url) = resp_of_sout (handle c f url).
Proof. exact EquivStatic_proofs.handle_tie_partial. Qed.
Print Assumptions handle_tie_partial.

Theorem handle_tie_refuted :
  norm_resp (gen_handle (model_lib None []) EquivStatic_proofs.cx1_cfg EquivStatic_proofs.cx1_fs (lit "/d/"))
  = Err (lit "oserror") [] /\
  resp_of_sout (handle EquivStatic_proofs.cx1_cfg EquivStatic_proofs.cx1_fs (lit "/d/"))
  = Ok (mk_gresp 20 (lit "text/gemini") (GFile [lit "r"; lit "d"; lit "index.gemini"] (lit "hello"))).
Proof. exact EquivStatic_proofs.handle_tie_refuted. Qed.
Print Assumptions handle_tie_refuted.

(* ... and the generated handle IS the model with the correction proposed in StaticGlue.handle_fixed /
   try_indices_fixed (is_file() raising on an over-long resolved index path; `d / name` joined as pathlib does;
   a NUL in an index name skipped): no hypothesis *)
Theorem handle_tie_fixed_model : forall flt tok c f url,
  norm_resp (gen_handle (model_lib flt tok) c f url) = resp_of_sout (handle_fixed c f url).
Proof. exact EquivStatic_proofs.handle_tie_fixed_model. Qed.
Print Assumptions handle_tie_fixed_model.

(* FileUploadHandler._is_safe_path; exact, for every library *)
Theorem upload_is_safe_path_tie : forall L c f p,
  gen_upload_is_safe_path L c f p = Ok (path_prefixb (u_root c) p).
Proof. exact EquivStatic_proofs.upload_is_safe_path_tie. Qed.
Print Assumptions upload_is_safe_path_tie.

(* FileUploadHandler._resolve_target; exact (the model's function includes the containment test) *)
Theorem resolve_target_tie : forall flt tok c f p,
  contained (u_root c) (gen_resolve_target (model_lib flt tok) c f p) = resolve_target c f p.
Proof. exact EquivStatic_proofs.resolve_target_tie. Qed.
Print Assumptions resolve_target_tie.

(* FileUploadHandler._handle_delete = the zero-byte branch of the model's handle_upload; exact *)
Theorem handle_delete_tie : forall flt tok c f r,
  token_ok c (q_token r) = true -> (u_max c <? q_size r)%N = false ->
  match u_types c with Some (t :: ts) => negb (existsb (eqb (q_mime r)) (t :: ts)) | _ => false end = false ->
  q_size r = 0%N ->
  upload_out (gen_handle_delete (model_lib flt tok) c f (q_path r)) = model_out (handle_upload c f r flt).
Proof. exact EquivStatic_proofs.handle_delete_upload_tie. Qed.
Print Assumptions handle_delete_tie.

(* FileUploadHandler.handle_upload: the whole method (admission checks, delete, path resolution, temp file, rename,
   cleanup of what the upload itself created).  The unconditional statement is FALSE in three ways (below; each
   confirmed on the real code, the model is at fault); it holds when the temporary file's name is usable. *)
Theorem handle_upload_tie_partial : forall flt tok c f r,
  (forall t, resolve_target c f (q_path r) = Ok (Some t) -> q_size r <> 0%N -> tmp_ok f t tok) ->
  upload_out (gen_handle_upload (model_lib flt tok) c f r) = model_out (handle_upload c f r flt).
Proof. exact EquivStatic_proofs.handle_upload_tie_partial. Qed.
Print Assumptions handle_upload_tie_partial.

(* ... and the generated handle_upload IS the model with the corrections proposed in StaticGlue.handle_upload_fixed
   (the temporary name must be short enough and free, else 40 with only the parent directories created): no hypothesis *)
Theorem handle_upload_tie_fixed_model : forall flt tok c f r,
  upload_out (gen_handle_upload (model_lib flt tok) c f r) = model_out (handle_upload_fixed c f r flt tok).
Proof. exact EquivStatic_proofs.handle_upload_tie_fixed_model. Qed.
Print Assumptions handle_upload_tie_fixed_model.

(* the corrected model is Model.Static.handle_upload wherever the temporary name is usable *)
Theorem upload_fixed_agrees : forall flt tok c f r,
  (forall t, resolve_target c f (q_path r) = Ok (Some t) -> q_size r <> 0%N -> tmp_ok f t tok) ->
  handle_upload_fixed c f r flt tok = handle_upload c f r flt.
Proof. exact EquivStatic_proofs.upload_fixed_agrees. Qed.
Print Assumptions upload_fixed_agrees.

Import EquivStatic_proofs.
(* a target name of 234..255 bytes: the temporary name is over-long, the upload fails (40); the model says 20 *)
Theorem upload_tie_refuted_tmp_name :
  fst (upload_out (gen_handle_upload (model_lib None (lit "0123456789abcdef")) cx_ucfg [([lit "u"], Dir)] (cx_req (47%N :: name240))))
  = UResp 40 [] /\
  fst (model_out (handle_upload cx_ucfg [([lit "u"], Dir)] (cx_req (47%N :: name240)) None)) = UResp 20 [].
Proof. exact EquivStatic_proofs.upload_tie_refuted_tmp_name. Qed.
Print Assumptions upload_tie_refuted_tmp_name.

(* an over-long last component below missing directories: the directories are created before the failure *)
Theorem upload_tie_refuted_mkdir :
  snd (upload_out (gen_handle_upload (model_lib None (lit "0123456789abcdef")) cx_ucfg [([lit "u"], Dir)]
                     (cx_req (lit "/p/q/" ++ long_name))))
  = [([lit "u"], Dir); ([lit "u"; lit "p"], Dir); ([lit "u"; lit "p"; lit "q"], Dir)] /\
  snd (model_out (handle_upload cx_ucfg [([lit "u"], Dir)] (cx_req (lit "/p/q/" ++ long_name)) None)) = [([lit "u"], Dir)].
Proof. exact EquivStatic_proofs.upload_tie_refuted_mkdir. Qed.
Print Assumptions upload_tie_refuted_mkdir.

(* a file with the temporary name exists: the upload fails (40) and that file is left alone (the defect found by the
   previous version of this theorem - the cleanup handler unlinked it - is repaired by /repo commit 998dfce); the
   model still reports success *)
Theorem upload_tie_refuted_tmp_exists :
  upload_out (gen_handle_upload (model_lib None (lit "0123456789abcdef")) cx_ucfg cx4_fs (cx_req (lit "/a")))
  = (UResp 40 [], cx4_fs) /\
  fst (model_out (handle_upload cx_ucfg cx4_fs (cx_req (lit "/a")) None)) = UResp 20 [].
Proof. exact EquivStatic_proofs.upload_tie_refuted_tmp_exists. Qed.
Print Assumptions upload_tie_refuted_tmp_exists.

(* the l_canon field of the instance is the canonical_path_segments translated in Gen/PyGen.v, over the model's unquote *)
Theorem canon_lib_tie : forall flt tok p up, unquote p = Ok up ->
  l_canon (model_lib flt tok) p false = PyGen.gen_canonical_path_segments (fun _ => up) p false.
Proof. exact EquivStatic_proofs.canon_lib_tie. Qed.
Print Assumptions canon_lib_tie.
