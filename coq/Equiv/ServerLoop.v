(* The event loop's side of GeminiServerProtocol, hand-written: which (generated) callback asyncio runs for which
   event.  Together with Gen/ServerGen.v (cl_*: the class's methods with their internal calls resolved) this is the
   connection's transition function as the code defines it; Equiv/EquivServerLoop.v proves it equal to the model's
   `step`, so every theorem about `run` is a theorem about `gen_run`.

   - ERead: the transport delivers the slices of one read to data_received, as long as the protocol holds it
   - ETimer: loop.call_later runs _handle_timeout if the handle has not been cancelled
   - EDone: a task's done-callback runs with the finished task; the callback was registered together with the
     request object (a closure), re-created here from the request line kept in the pending list.  Results that
     are not of the type the callback expects (a handler task returning a verdict, ...) are outside the translated
     subset: the model's task_done stands in for them.
   - ELost: connection_lost, once *)
From Coq Require Import List NArith ZArith Bool.
From NV Require Import Prelude.Str Prelude.Res Prelude.Utf8 Model.Url Model.Titan Model.ServerProto Equiv.ServerGlue Gen.ServerGen.
Import ListNotations.

Section Loop.
Variable reenc : str -> str.
Variable ip6_check : str -> option str.
Variable handler : str -> hres.
Variable has_mw : bool.
Variable has_upload : bool.
Variable up_call_fails : option str.   (* what the call of the upload handler does: the translator's oracle is upcall_of of it *)
Variable peer_ip : str.
Variable peer_fp : option str.

Notation cl f := (f reenc ip6_check handler has_mw has_upload (upcall_of up_call_fails) peer_ip peer_fp).

Fixpoint gen_feed (s : st) (slices : list str) : st * list action :=
  match slices with
  | [] => (s, [])
  | d :: r => let (s1, a1) := cl cl_data_received s d in
              let (s2, a2) := gen_feed s1 r in (s2, a1 ++ a2)
  end.

(* the request object captured by the callbacks of a Gemini request *)
Definition dummy_parsed : parsed := {| p_host := []; p_port := 0%N; p_path := []; p_query := []; p_norm := [] |}.
Definition req_of_line (line : str) : req :=
  match request_from_line ip6_check line with
  | Ok r => r
  | _ => {| rq_line := line; rq_parsed := dummy_parsed |}
  end.

Definition gen_task_done (s0 : st) (id : nat) (o : outcome) : st * list action :=
  match take_task id (pending s0) with
  | (None, _) => (s0, [])
  | (Some k, rest) =>
      let s := set_pending s0 rest in
      match k, o with
      | TMw line, OMw a t => cl cl_handle_middleware_result s (TRet (a, t)) (req_of_line line)
      | TMw line, ORaise m => cl cl_handle_middleware_result s (TExc m) (req_of_line line)
      | THandler line, OResp r => cl cl_handle_async_handler_result s (TRet r) (req_of_line line)
      | THandler line, ORaise m => cl cl_handle_async_handler_result s (TExc m) (req_of_line line)
      | TTitanMw, OMw a t => cl cl_handle_titan_middleware_result s (TRet (a, t))
      | TTitanMw, ORaise m => cl cl_handle_titan_middleware_result s (TExc m)
      | TUpload, OResp r => cl cl_handle_titan_upload_result s (TRet r)
      | TUpload, ORaise m => cl cl_handle_titan_upload_result s (TExc m)
      | _, _ => task_done handler has_upload up_call_fails s0 id o
      end
  end.

Definition gen_step (s : st) (e : event) : st * list action :=
  match e with
  | ERead slices => if tr s then gen_feed s slices else (s, [])
  | ETimer => match timer s with
              | TArmed => cl cl_handle_timeout (set_timer s TFired)
              | _ => (s, [])
              end
  | EDone id o => gen_task_done s id o
  | ELost => if tr s then cl cl_connection_lost s else (s, [])
  end.

Fixpoint gen_run (s : st) (evs : list event) : list (list action * bool) :=
  match evs with
  | [] => []
  | e :: r => let (s', a) := gen_step s e in
              (a, match timer s' with TArmed => true | _ => false end) :: gen_run s' r
  end.

Fixpoint gen_final (s : st) (evs : list event) : st :=
  match evs with [] => s | e :: r => gen_final (fst (gen_step s e)) r end.
End Loop.
