(* Hand-written glue between the definitions generated from server/handler.py (Gen/StaticGen.v, written by
   translate/py2coq_static.py) and the models Model/Static.v + Model/Fs.v.

   1. The value types of the generated code (responses, bodies, paths built with `/`).
   2. PurePath operations on component lists (no filesystem access): parent, with_name, suffix, relative_to
      (pjoin and path_name are the model's own: Model/Static.v).  The translator's PURE table names them.
   3. `pylib`: the record of the world-dependent library functions (pathlib / os / secrets /
      canonical_path_segments / generate_directory_listing) that the generated functions take as their first
      argument.  The translator's LIB table names the fields.
   4. `model_lib`: the instance of `pylib` over the filesystem model.  THIS INSTANCE IS THE TRUSTED READING of what
      the library calls do, in the model's terms; the tie theorems of Equiv/EquivStatic.v are about the generated
      functions applied to it.
   5. The abstraction from responses to the model's outcome types, used to state the ties. *)
From Coq Require Import List NArith ZArith Bool.
From NV Require Import Prelude.Str Prelude.Res Prelude.Utf8 Model.Fs Model.Static Model.CertAuth.
From NV Require Model.Listing.
Import ListNotations.

(* ------------------------------------------------------------------ 1. values *)
(* what a response body is made of; the provenance (which file, which directory) is kept so that the tie can speak
   about WHICH resolved path was served *)
Inductive gbody :=
| GNone
| GText (t : str)                    (* a string built by the handler itself *)
| GFile (p : path) (text : str)      (* the result of p.read_text() *)
| GListing (d : path) (base : str). (* the result of generate_directory_listing(d, base): the text is
                                        Model/Listing.v listing_text _ f d base (Equiv/EquivGemtext.v) *)
Record gresp := mk_gresp { g_status : Z; g_meta : str; g_body : gbody }.

(* a pathlib.Path built by `base / text` and not resolved yet: resolved base, components still to be walked *)
Definition upath := (path * list str)%type.

(* ------------------------------------------------------------------ 2. PurePath operations *)
(* base / s is Model.Static.pjoin (an absolute right operand replaces the base); p.name is Model.Static.path_name *)
Definition path_parent (p : path) : path := removelast p.
(* p.with_name(n): ValueError if p has no name (the new name is built by the caller from the old one and is
   taken to be a valid file name) *)
Definition path_with_name (p : path) (n : str) : res path :=
  match p with
  | [] => Err (lit "ValueError") (lit "has an empty name")
  | _ => Ok (removelast p ++ [n])
  end.
(* PurePath.suffix: from the last dot of the name, unless that dot is first or last *)
Definition raw_suffix (name : str) : str :=
  match rbreak_at ch_dot name with
  | Some (a, b) => match a, b with
                   | _ :: _, _ :: _ => ch_dot :: b
                   | _, _ => []
                   end
  | None => []
  end.
Definition path_suffix (p : path) : str := raw_suffix (path_name p).
(* p.relative_to(base): ValueError unless base is a component-wise prefix of p *)
Definition path_relative_to (p base : path) : res path :=
  if path_prefixb base p then Ok (skipn (length base) p)
  else Err (lit "ValueError") (lit "is not in the subpath of")
.

(* ------------------------------------------------------------------ exception classes *)
(* `except C`: does an exception of class k match C?  (the part of the builtin hierarchy that occurs) *)
Definition os_errors : list str :=
  [lit "OSError"; lit "PermissionError"; lit "FileExistsError"; lit "FileNotFoundError";
   lit "IsADirectoryError"; lit "NotADirectoryError"].
Definition exc_isa (k c : str) : bool :=
  eqb c (lit "BaseException") || eqb c (lit "Exception") || eqb k c
  || (eqb c (lit "OSError") && existsb (eqb k) os_errors)
  || (eqb c (lit "ValueError") && eqb k (lit "UnicodeDecodeError")).

(* ------------------------------------------------------------------ 3. the library record *)
Record pylib := {
  (* utils.url.canonical_path_segments(path, clamp)   [translated and tied separately: Equiv.canonical_segments_*] *)
  l_canon : str -> bool -> res (list str);
  (* (base / text).resolve() *)
  l_resolve : fs -> upath -> res path;
  (* p.resolve() for a path that is the result of an earlier resolve() *)
  l_resolve_abs : fs -> path -> res path;
  l_is_dir : fs -> path -> res bool;
  l_is_file : fs -> path -> res bool;
  l_exists : fs -> path -> res bool;
  (* p.stat().st_size *)
  l_st_size : fs -> path -> res N;
  (* p.read_text(encoding="utf-8") *)
  l_read_text : fs -> path -> res gbody;
  (* content.gemtext.generate_directory_listing(p, url_path) *)
  l_listing : fs -> path -> str -> res gbody;
  (* p.mkdir(parents=True, exist_ok=True) *)
  l_mkdir_parents : fs -> path -> res unit * fs;
  (* open(p, "xb"): exclusive creation of an empty file *)
  l_open_new : fs -> path -> res unit * fs;
  (* fh.write(data) for the file opened at p *)
  l_write : fs -> path -> str -> res unit * fs;
  (* os.replace(a, b) *)
  l_replace : fs -> path -> path -> res unit * fs;
  (* p.unlink() *)
  l_unlink : fs -> path -> res unit * fs;
  (* secrets.token_hex(n) *)
  l_token_hex : N -> str
}.

(* ------------------------------------------------------------------ 4. the instance over Model/Fs.v *)
Definition e_os : str := lit "OSError".
Definition toolong {A} : res A := Err e_os (lit "File name too long").

Definition m_canon (p : str) (clamp : bool) : res (list str) :=
  match unquote p with
  | Ok up =>
      if clamp then Ok (canon_segs (comps up) [])
      else match canon_strict (comps up) [] with
           | Some s => Ok s
           | None => Err (lit "ValueError") []
           end
  | _ => OutOfModel
  end.

(* Path.resolve() (non-strict), CPython 3.12: os.path.realpath, which at a symlink loop returns the unresolved join
   (then normalised); then a stat() of the result, whose ELOOP becomes RuntimeError.  "stat reports ELOOP" is read
   as: walking the path again meets the loop. *)
Definition m_resolve_from (f : fs) (base : path) (rel : list str) : res path :=
  match realpath f base rel with
  | RPath p => Ok p
  | RFuel => OutOfModel
  | RLoopAt l =>
      let p := lexnorm l [] in
      match realpath f [] p with
      | RLoopAt _ => Err (lit "RuntimeError") (lit "Symlink loop")
      | _ => Ok p
      end
  end.
(* the text joined with `/` comes from the request or the configuration and may contain NUL (ValueError: embedded
   null byte, raised by the first lstat); paths returned by the operating system never do *)
Definition m_resolve (f : fs) (u : upath) : res path :=
  if existsb (mem 0%N) (snd u) then Err (lit "ValueError") (lit "embedded null byte")
  else m_resolve_from f (fst u) (snd u).
Definition m_resolve_abs (f : fs) (p : path) : res path := m_resolve_from f [] p.

(* is_dir / is_file / exists / stat are only ever applied to completely resolved paths (the translator's types
   enforce it), on which stat and lstat agree.  pathlib swallows ENOENT, ENOTDIR, EBADF and ELOOP in the three
   predicates, not ENAMETOOLONG (Model.Static.enametoolong: the first over-long component is looked up in an
   existing directory). *)
Definition m_is_dir (f : fs) (p : path) : res bool :=
  if enametoolong f p then toolong else Ok (match lstat f p with Some Dir => true | _ => false end).
Definition m_is_file (f : fs) (p : path) : res bool :=
  if enametoolong f p then toolong else Ok (match lstat f p with Some (File _) => true | _ => false end).
Definition m_exists (f : fs) (p : path) : res bool :=
  if enametoolong f p then toolong else Ok (match lstat f p with Some _ => true | None => false end).
Definition m_st_size (f : fs) (p : path) : res N :=
  match lstat f p with
  | Some (File c) => Ok (N.of_nat (length c))
  | _ => Err e_os (lit "stat")
  end.
Definition m_read_text (f : fs) (p : path) : res gbody :=
  match lstat f p with
  | Some (File c) => match read_text c with
                     | Some t => Ok (GFile p t)
                     | None => Err (lit "UnicodeDecodeError") (lit "invalid utf-8")
                     end
  | _ => Err e_os (lit "read")
  end.
Definition m_listing (f : fs) (d : path) (url_path : str) : res gbody :=
  if Listing.has_broken f d then Err e_os (lit "stat") else Ok (GListing d url_path).

(* pathlib's mkdir(parents=True, exist_ok=True) creates the missing ancestors from the top: those before the first
   over-long component exist by the time ENAMETOOLONG is met *)
Definition m_mkdir_parents (f : fs) (p : path) : res unit * fs :=
  match mkdirs (S (S (length p))) f [] (short_prefix p) with
  | Some f1 => if name_too_long p then (toolong, f1) else (Ok tt, f1)
  | None => (Err (lit "FileExistsError") [], f)
  end.
(* exclusive creation: nothing is created when it fails (the directory of p exists: the handler has just created it) *)
Definition m_open_new (f : fs) (p : path) : res unit * fs :=
  if name_too_long p then (toolong, f)
  else match lstat f p with
       | Some _ => (Err (lit "FileExistsError") [], f)
       | None => (Ok tt, f ++ [(p, File [])])
       end.
(* the write, which the storage fault interrupts after k bytes: the file stays, partly written *)
Definition m_write (flt : fault) (f : fs) (p : path) (data : str) : res unit * fs :=
  match lstat f p with
  | Some (File _) =>
      match flt with
      | Some k => (Err e_os (lit "No space left on device"), set_node f p (File (take (N.to_nat k) data)))
      | None => (Ok tt, set_node f p (File data))
      end
  | _ => (Err e_os (lit "Bad file descriptor"), f)
  end.
Definition m_replace (f : fs) (a b : path) : res unit * fs :=
  match lstat f a with
  | None => (Err (lit "FileNotFoundError") [], f)
  | Some n => match lstat f b with
              | Some Dir => (Err (lit "IsADirectoryError") [], f)
              | _ => (Ok tt, set_node (remove_node f a) b n)
              end
  end.
Definition m_unlink (f : fs) (p : path) : res unit * fs :=
  match lstat f p with
  | None => (Err (lit "FileNotFoundError") [], f)
  | Some Dir => (Err (lit "IsADirectoryError") [], f)
  | Some _ => (Ok tt, remove_node f p)
  end.

Definition model_lib (flt : fault) (tok : str) : pylib := {|
  l_canon := m_canon;
  l_resolve := m_resolve;
  l_resolve_abs := m_resolve_abs;
  l_is_dir := m_is_dir;
  l_is_file := m_is_file;
  l_exists := m_exists;
  l_st_size := m_st_size;
  l_read_text := m_read_text;
  l_listing := m_listing;
  l_mkdir_parents := m_mkdir_parents;
  l_open_new := m_open_new;
  l_write := m_write flt;
  l_replace := m_replace;
  l_unlink := m_unlink;
  l_token_hex := fun _ => tok
|}.

(* ------------------------------------------------------------------ 5. outcomes *)
(* the class labels of the model (the harness' canon_impl does the same on the real objects) *)
Definition exc_label (k : str) : str := if exc_isa k e_os then lit "oserror" else k.
(* the one message of handle() with a variable tail *)
Definition listing_error : str := lit "Error generating directory listing".
Definition meta_label (m : str) : str := if prefixb listing_error m then listing_error else m.

Definition norm_resp (r : res gresp) : res gresp :=
  match r with
  | Ok g => Ok (mk_gresp (g_status g) (meta_label (g_meta g)) (g_body g))
  | Err k _ => Err (exc_label k) []
  | OutOfModel => OutOfModel
  end.
(* the model's outcome as a response: injective.  url: the request path, which handle() passes to
   generate_directory_listing as the base of the links *)
Definition resp_of_sout (url : str) (o : sout) : res gresp :=
  match o with
  | OServe p mime text => Ok (mk_gresp 20 mime (GFile p text))
  | OListing d => Ok (mk_gresp 20 (lit "text/gemini") (GListing d url))
  | OStatus st meta => Ok (mk_gresp st meta GNone)
  | ORaise k => Err k []
  | OOom => OutOfModel
  end.

Definition rfull_res (r : rfull) : res (option path) :=
  match r with FPath p => Ok (Some p) | FNone => Ok None | FFuel => OutOfModel end.

(* uploads: the model's messages are labels; status, exception class and the resulting tree are compared *)
Definition uout_of (r : res gresp) : uout :=
  match r with
  | Ok g => UResp (g_status g) []
  | Err k _ => URaise (exc_label k)
  | OutOfModel => UOom
  end.
Definition forget_meta (o : uout) : uout := match o with UResp st _ => UResp st [] | x => x end.

(* ------------------------------------------------------------------ 6. vocabulary of the tie statements *)
(* Path.resolve() raises ValueError on an embedded NUL: _resolve_fully answers None *)
Definition nul_guard (rel : list str) (r : res (option path)) : res (option path) :=
  if existsb (mem 0%N) rel then Ok None else r.
(* the model's resolve_target includes the containment test that the code makes afterwards (_is_safe_path) *)
Definition contained (root : path) (r : res (option path)) : res (option path) :=
  match r with
  | Ok (Some t) => if path_prefixb root t then Ok (Some t) else Ok None
  | x => x
  end.
(* the temporary file of an upload to t, ".<name>.<token>.tmp" beside t, is Model.Static.tmp_of *)
Definition upload_out (x : res gresp * fs) : uout * fs := (uout_of (fst x), snd x).
Definition model_out (x : uout * fs) : uout * fs := (forget_meta (fst x), snd x).
