(* Gen = Model for the middleware / routing / proxy-relay code: the definitions REGENERATED from /repo's current source by
   translate/py2coq_mw.py (coq/Gen/MwGen.v) compute the same functions as the hand-written models the property theorems
   of C09, C10, C17 and C18 are about.  Statements only; proofs in Proofs/EquivMw_proofs.v.  Helper definitions are
   restated verbatim there. *)
From Coq Require Import List NArith ZArith QArith Bool.
From NV Require Import Prelude.Str Prelude.Res Model.Bucket Model.Ip Model.Proxy Model.ServerProto Model.Session Equiv.ServerGlue Equiv.MwGlue.
From NV Require Import Gen.MwGen.
From NV Require Proofs.EquivMw_proofs.
Import ListNotations.
Open Scope list_scope.

(* ================= RateLimiter (C10) ================= *)
(* A Python TokenBucket object carries its own copy of capacity and refill_rate; the model keeps them in the limiter's cfg.
   `table c st` is the Python-side table of a model state: every bucket created under configuration c. *)
Definition pyb (c : cfg) (b : bucket) : py_TokenBucket := mk_py_TokenBucket (cap c) (rate c) (tokens b) (last b).
Definition table (c : cfg) (st : Bucket.state) : list (str * py_TokenBucket) := map (fun kb => (fst kb, pyb c (snd kb))) st.
Definition refusal (retry : Z) : str :=
  lit "44 Rate limit exceeded. Retry after " ++ str_of_Z retry ++ lit " seconds" ++ [13; 10]%N.
Definition rl_answer (retry : Z) (ok : bool) : bool * option str := (ok, if ok then None else Some (refusal retry)).

(* TokenBucket.__init__ / consume (object form; py2coq's gen_consume is the field-wise form of the same method) *)
Theorem tb_init_tie : forall c now, gen_TokenBucket_init now (cap c) (rate c) = pyb c {| tokens := cap c; last := now |}.
Proof. exact EquivMw_proofs.tb_init_tie. Qed.
Print Assumptions tb_init_tie.

Theorem tb_consume_tie : forall c now b,
  gen_TokenBucket_consume now (pyb c b) (inject_Z 1) = let (ok, b') := consume c now b in (ok, pyb c b').
Proof. exact EquivMw_proofs.tb_consume_tie. Qed.
Print Assumptions tb_consume_tie.

(* RateLimiter.process_request: never KeyError; decision and new table as Model.Bucket.process; refusal line with retry_after *)
Theorem rl_process_tie : forall c retry st now url ip fp,
  gen_rl_process now (cap c) (rate c) retry (table c st) url ip fp =
  Ok (let (ok, st') := process c st now ip in (rl_answer retry ok, table c st')).
Proof. exact EquivMw_proofs.rl_process_tie. Qed.
Print Assumptions rl_process_tie.

(* one pass of RateLimiter._cleanup_loop = Model.Bucket.cleanup, on tables with distinct keys (i.e. on dicts) *)
Theorem rl_cleanup_tie : forall c st now, NoDup (map fst st) ->
  gen_rl_cleanup_pass now (table c st) = Ok (table c (cleanup c st now)).
Proof. exact EquivMw_proofs.rl_cleanup_tie. Qed.
Print Assumptions rl_cleanup_tie.

(* ... the hypothesis is an invariant of the model's transitions, and it is needed (the association list of the
   counter-example has the same key twice: not the image of any dict) *)
Theorem process_keeps_keys_distinct : forall c st now ip, NoDup (map fst st) -> NoDup (map fst (snd (process c st now ip))).
Proof. exact EquivMw_proofs.process_keeps_keys_distinct. Qed.
Print Assumptions process_keeps_keys_distinct.
Theorem cleanup_keeps_keys_distinct : forall c st now, NoDup (map fst st) -> NoDup (map fst (cleanup c st now)).
Proof. exact EquivMw_proofs.cleanup_keeps_keys_distinct. Qed.
Print Assumptions cleanup_keeps_keys_distinct.
Theorem rl_cleanup_needs_distinct_keys :
  let c := {| cap := 1; rate := 1 |} in
  let st := [(lit "a", {| tokens := 0; last := 999 |}); (lit "a", {| tokens := 1; last := 0 |})] in
  gen_rl_cleanup_pass 1000 (table c st) <> Ok (table c (cleanup c st 1000)).
Proof. exact EquivMw_proofs.rl_cleanup_needs_distinct_keys. Qed.
Print Assumptions rl_cleanup_needs_distinct_keys.

(* whole histories, unconditionally: the generated process_request / clean-up pass, started on the generated initial
   table (`self.buckets = {}`), produce exactly the decision log of Model.Bucket.run - the object of the C10 theorems *)
Fixpoint gen_run (c : cfg) (retry : Z) (tb : list (str * py_TokenBucket)) (h : list Bucket.event) : res (list (Q * str * bool)) :=
  match h with
  | [] => Ok []
  | Bucket.Req t ip :: h' =>
      match gen_rl_process t (cap c) (rate c) retry tb [] ip None with
      | Ok (v, tb') => match gen_run c retry tb' h' with Ok l => Ok ((t, ip, fst v) :: l) | e => e end
      | Err k m => Err k m
      | OutOfModel => OutOfModel
      end
  | Bucket.Cleanup t :: h' =>
      match gen_rl_cleanup_pass t tb with
      | Ok tb' => gen_run c retry tb' h'
      | Err k m => Err k m
      | OutOfModel => OutOfModel
      end
  end.
Theorem rl_run_tie : forall c retry h, gen_run c retry gen_RateLimiter_buckets_init h = Ok (Bucket.run c [] h).
Proof. exact EquivMw_proofs.rl_run_tie. Qed.
Print Assumptions rl_run_tie.

(* ================= AccessControl (C09) ================= *)
(* __init__: both lists parsed with the three attempts per entry; ValueError escapes iff an entry fails all three *)
Definition ac_init_spec (ipnet : str -> option net) (al dl : option (list str)) : res (list net * list net) :=
  match parse_entries ipnet (olist al), parse_entries ipnet (olist dl) with
  | Some a, Some d => Ok (a, d)
  | _, _ => Err (lit "ValueError") []
  end.
Theorem ac_init_tie : forall ipnet al dl, gen_ac_init ipnet al dl = ac_init_spec ipnet al dl.
Proof. exact EquivMw_proofs.ac_init_tie. Qed.
Print Assumptions ac_init_tie.

Theorem ac_is_allowed_tie : forall ipaddr dn al dflt ip,
  gen_ac_is_allowed ipaddr dn al dflt ip = is_allowed {| allow := al; deny := dn; default_allow := dflt |} (ipaddr ip).
Proof. exact EquivMw_proofs.ac_is_allowed_tie. Qed.
Print Assumptions ac_is_allowed_tie.

(* process_request: admission exactly when Model.Ip.is_allowed, else the 53 line *)
Definition denied_line : str := lit "53 Access denied" ++ [13; 10]%N.
Definition ac_answer (ok : bool) : bool * option str := if ok then (true, None) else (false, Some denied_line).
Theorem ac_process_tie : forall ipaddr dn al dflt url ip fp,
  gen_ac_process ipaddr dn al dflt url ip fp =
  ac_answer (is_allowed {| allow := al; deny := dn; default_allow := dflt |} (ipaddr ip)).
Proof. exact EquivMw_proofs.ac_process_tie. Qed.
Print Assumptions ac_process_tie.

(* __init__ then process_request = the decision of the running server in the model (None: start-up refused) *)
Theorem ac_server_tie : forall ipnet ipaddr s url ip fp,
  wants_component s = true ->
  match gen_ac_init ipnet (sc_allow s) (sc_deny s) with
  | Ok (a, d) => Some (fst (gen_ac_process ipaddr d a (sc_default s) url ip fp))
  | _ => None
  end = server_admits ipnet s (ipaddr ip).
Proof. exact EquivMw_proofs.ac_server_tie. Qed.
Print Assumptions ac_server_tie.

(* ================= Router (C17) ================= *)
(* a model route (EXACT / PREFIX) as the Python Route object add_route builds for it *)
Definition py_route_of {REQ RX : Type} (r : Proxy.route (REQ -> resp)) : py_Route REQ RX :=
  mk_py_Route (rt_pattern r) (rt_handler r)
              (match rt_type r with RExact => RouteType_EXACT | RPrefix => RouteType_PREFIX end) None.
Definition not_found : resp := {| rs_status := 51; rs_meta := lit "Not found"; rs_body := BNone |}.
Definition or_default {REQ : Type} (dflt : option (REQ -> resp)) (request : REQ) : resp :=
  match dflt with Some h => h request | None => not_found end.

(* Router.route on EXACT / PREFIX routes: the handler Model.Proxy.route_to selects (first match in registration order),
   else the default handler, else 51 *)
Theorem router_route_tie : forall REQ RX req_path rxm (routes : list (Proxy.route (REQ -> resp))) dflt request,
  gen_router_route REQ RX req_path rxm (map py_route_of routes) dflt request =
  match Proxy.route_to routes (req_path request) with
  | Some h => h request
  | None => or_default dflt request
  end.
Proof. exact EquivMw_proofs.router_route_tie. Qed.
Print Assumptions router_route_tie.

(* all three kinds (the model has no REGEX routes; re.Pattern.match is an oracle): first match wins *)
Definition py_matches {REQ RX : Type} (rxm : RX -> str -> option unit) (path : str) (r : py_Route REQ RX) : bool :=
  match Route_route_type r with
  | RouteType_EXACT => eqb path (Route_pattern r)
  | RouteType_PREFIX => prefixb (Route_pattern r) path
  | RouteType_REGEX => match Route_compiled_regex r with
                       | Some x => match rxm x path with Some _ => true | None => false end
                       | None => false
                       end
  end.
Theorem router_matches_tie : forall REQ RX rxm path (r : py_Route REQ RX),
  gen_router_matches REQ RX rxm path r = py_matches rxm path r.
Proof. exact EquivMw_proofs.router_matches_tie. Qed.
Print Assumptions router_matches_tie.
Theorem router_route_first_match : forall REQ RX req_path rxm (routes : list (py_Route REQ RX)) dflt request,
  gen_router_route REQ RX req_path rxm routes dflt request =
  match find (py_matches rxm (req_path request)) routes with
  | Some r => Route_handler r request
  | None => or_default dflt request
  end.
Proof. exact EquivMw_proofs.router_route_first_match. Qed.
Print Assumptions router_route_first_match.

(* Router.add_route: appends the Route object; REGEX patterns are compiled (ValueError when re.compile refuses).  For the
   model's two kinds it appends exactly py_route_of r: the list Router.route runs over is the image of the model's list. *)
Definition add_route_spec {REQ RX : Type} (rc : str -> option RX) (routes : list (py_Route REQ RX)) (pattern : str)
                          (handler : REQ -> resp) (ty : py_RouteType) : res (list (py_Route REQ RX)) :=
  match ty with
  | RouteType_REGEX => match rc pattern with
                       | Some x => Ok (routes ++ [mk_py_Route pattern handler ty (Some x)])
                       | None => Err (lit "ValueError") []
                       end
  | _ => Ok (routes ++ [mk_py_Route pattern handler ty None])
  end.
Theorem router_add_route_tie : forall REQ RX rc (routes : list (py_Route REQ RX)) pattern handler ty,
  gen_router_add_route REQ RX rc routes pattern handler ty = add_route_spec rc routes pattern handler ty.
Proof. exact EquivMw_proofs.router_add_route_tie. Qed.
Print Assumptions router_add_route_tie.
Theorem router_add_model_route : forall REQ RX rc (routes : list (Proxy.route (REQ -> resp))) (r : Proxy.route (REQ -> resp)),
  gen_router_add_route REQ RX rc (map py_route_of routes) (rt_pattern r) (rt_handler r)
                       (match rt_type r with RExact => RouteType_EXACT | RPrefix => RouteType_PREFIX end) =
  Ok (map py_route_of (routes ++ [r])).
Proof. exact EquivMw_proofs.router_add_model_route. Qed.
Print Assumptions router_add_model_route.

(* ================= ProxyHandler: the relay after the upstream URL is built (C18) ================= *)
Definition relay_spec (r : callres resp) : resp :=
  match r with
  | CRet x => x
  | CExc KTimeoutError _ => {| rs_status := 43; rs_meta := lit "Upstream timeout"; rs_body := BNone |}
  | CExc KConnectionError m => {| rs_status := 43; rs_meta := lit "Upstream connection failed: " ++ m; rs_body := BNone |}
  | CExc KOtherException m => {| rs_status := 43; rs_meta := lit "Proxy error: " ++ m; rs_body := BNone |}
  end.
(* the upstream's response object unchanged; 43 with the three texts for the three classes of failure *)
Theorem proxy_relay_tie : forall (get : str -> callres resp) url, gen_proxy_relay get url = relay_spec (get url).
Proof. exact EquivMw_proofs.proxy_relay_tie. Qed.
Print Assumptions proxy_relay_tie.

(* against Model.Session.proxy_response: the model's upstream behaviours as outcomes of the client call *)
Definition upstream_call (msg : str) (cap : N) (u : upstream) : callres resp :=
  match u with
  | UConnectFail => CExc KConnectionError msg
  | UTimeout => CExc KTimeoutError msg
  | UStream b exc =>
      match Spec.C13.spec_result false cap (fun _ _ => None) b exc with
      | ClientProto.ROk r => CRet {| rs_status := Z.of_N (ClientProto.cr_status r); rs_meta := ClientProto.cr_meta r;
                         rs_body := match ClientProto.cr_body r with ClientProto.CBytes x => BBytes x | ClientProto.CText x => BText x | ClientProto.CNone => BNone end |}
      | ClientProto.RErr k => CExc KOtherException k
      end
  end.
(* FALSE as an equality: the model's text for a failed connection is "Upstream connection failed", the code appends
   ": " and str(e).  Status, body and (everywhere else) the whole response agree; the model's meta is a prefix. *)
Theorem proxy_relay_model_partial : forall msg cap u url,
  let g := gen_proxy_relay (fun _ => upstream_call msg cap u) url in
  let m := proxy_response cap u in
  rs_status g = rs_status m /\ rs_body g = rs_body m /\ prefixb (rs_meta m) (rs_meta g) = true /\
  (u <> UConnectFail -> g = m).
Proof. exact EquivMw_proofs.proxy_relay_model_partial. Qed.
Print Assumptions proxy_relay_model_partial.
Theorem proxy_relay_model_counterexample :
  gen_proxy_relay (fun _ => upstream_call (lit "x") 0 UConnectFail) [] <> proxy_response 0 UConnectFail.
Proof. exact EquivMw_proofs.proxy_relay_model_counterexample. Qed.
Print Assumptions proxy_relay_model_counterexample.
