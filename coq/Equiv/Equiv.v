(* Gen = Model: the definitions REGENERATED from /repo's current source by translate/py2coq.py
   (coq/Gen/PyGen.v) compute the same functions as the hand-written models the property theorems
   are about.  Re-checked by coqc on every run; a semantic edit of one of the translated Python
   functions changes Gen and the corresponding lemma stops checking. *)
From Coq Require Import List NArith ZArith QArith Bool.
From NV Require Import Prelude.Str Prelude.Res Model.Bucket Model.Ip Model.CertAuth Model.Redirect Model.Proxy Model.Fs.
From NV Require Import Gen.PyGen.
From NV Require Proofs.Equiv_proofs.
Import ListNotations.
Open Scope list_scope.

(* TokenBucket.consume (server/middleware.py) *)
Theorem consume_tie : forall capq rateq tok lst now,
  gen_consume capq rateq tok lst now (inject_Z 1) =
  let (ok, b) := consume {| cap := capq; rate := rateq |} now {| tokens := tok; last := lst |} in (ok, tokens b, last b).
Proof. exact Equiv_proofs.consume_tie. Qed.
Print Assumptions consume_tie.

(* AccessControl._is_allowed *)
Theorem is_allowed_tie : forall ipaddr dn al dflt ip,
  gen_is_allowed ipaddr dn al dflt ip = is_allowed {| allow := al; deny := dn; default_allow := dflt |} (ipaddr ip).
Proof. exact Equiv_proofs.is_allowed_tie. Qed.
Print Assumptions is_allowed_tie.

(* CertificateAuth._find_matching_rule / _candidate_locations / process_request *)
Theorem find_matching_rule_tie : forall rules path, gen_find_matching_rule rules path = find_rule rules path.
Proof. exact Equiv_proofs.find_matching_rule_tie. Qed.
Print Assumptions find_matching_rule_tie.

Theorem candidate_locations_tie : forall path, gen_candidate_locations index_names path = candidates path.
Proof. exact Equiv_proofs.candidate_locations_tie. Qed.
Print Assumptions candidate_locations_tie.

Definition verdict_pair (v : verdict) : bool * option str :=
  match v with
  | Allow => (true, None)
  | Deny60 => (false, Some (lit "60 Client certificate required" ++ [13; 10]%N))
  | Deny61 => (false, Some (lit "61 Certificate not authorized" ++ [13; 10]%N))
  end.
Theorem certauth_process_tie : forall (extract : str -> str) rules url ip fp,
  gen_certauth_process extract candidates (find_rule rules) url ip fp =
  verdict_pair (first_denial rules (candidates (extract url)) fp).
Proof. exact Equiv_proofs.certauth_process_tie. Qed.
Print Assumptions certauth_process_tie.

(* utils/url.py canonical_path_segments (both modes) *)
Theorem canonical_segments_clamp_tie : forall (unq : str -> str) path,
  gen_canonical_path_segments unq path true = Ok (canon_segs (comps (unq path)) []).
Proof. exact Equiv_proofs.canonical_segments_clamp_tie. Qed.
Print Assumptions canonical_segments_clamp_tie.

Theorem canonical_segments_strict_tie : forall (unq : str -> str) path,
  gen_canonical_path_segments unq path false =
  match canon_strict (comps (unq path)) [] with Some s => Ok s | None => Err (lit "ValueError") [] end.
Proof. exact Equiv_proofs.canonical_segments_strict_tie. Qed.
Print Assumptions canonical_segments_strict_tie.

(* ProxyHandler._handle_async: construction of the upstream URL (self.upstream was rstrip("/")-ed by __init__) *)
Theorem upstream_url_tie : forall c path query,
  gen_upstream_url (rstrip_slash (px_upstream c)) (px_prefix c) (px_strip c) path query = upstream_url c path query.
Proof. exact Equiv_proofs.upstream_url_tie. Qed.
Print Assumptions upstream_url_tie.

(* GeminiClient._get_with_redirects: same outcome as the model's walk, for every fetch function and fuel *)
Definition outcome_of (r : res response) : outcome :=
  match r with
  | Ok x => Final x
  | Err k _ => if eqb k (lit "OutOfFuel") then OutOfFuel else Fail k
  | OutOfModel => Fail (lit "oom")
  end.
Theorem get_with_redirects_tie : forall fetch fuel url max chain,
  (forall i u m, fetch i u <> Err (lit "OutOfFuel") m) ->
  outcome_of (gen_get_with_redirects fetch fuel url max chain) = fst (Redirect.follow fetch fuel max url chain).
Proof. exact Equiv_proofs.get_with_redirects_tie. Qed.
Print Assumptions get_with_redirects_tie.

(* MiddlewareChain.process_request: the first rejecting component's answer, else admission *)
Definition chain_spec (mws : list (str -> str -> option str -> bool * option str)) (url ip : str) (fp : option str) : bool * option str :=
  match find (fun m => negb (fst (m url ip fp))) mws with
  | Some m => (false, snd (m url ip fp))
  | None => (true, None)
  end.
Theorem chain_process_tie : forall mws url ip fp, gen_chain_process mws url ip fp = chain_spec mws url ip fp.
Proof. exact Equiv_proofs.chain_process_tie. Qed.
Print Assumptions chain_process_tie.

(* what the redirect walk reads from a response: is_redirect (protocol/status.py), GeminiResponse.is_redirect and
   GeminiResponse.redirect_url (protocol/response.py).  The translation of _get_with_redirects reads `response.redirect_url`
   as the response's meta (table of translate/py2coq.py): under the guard is_redirect(response.status) that IS what the
   property returns - the whole meta, nothing cut off. *)
Theorem status_is_redirect_tie : forall z, gen_status_is_redirect z = Redirect.is_redirect z.
Proof. exact Equiv_proofs.status_is_redirect_tie. Qed.
Print Assumptions status_is_redirect_tie.

Theorem response_is_redirect_tie : forall z, gen_response_is_redirect z = Redirect.is_redirect z.
Proof. exact Equiv_proofs.response_is_redirect_tie. Qed.
Print Assumptions response_is_redirect_tie.

Theorem response_redirect_url_tie : forall z meta,
  gen_response_redirect_url z meta = if Redirect.is_redirect z then Some meta else None.
Proof. exact Equiv_proofs.response_redirect_url_tie. Qed.
Print Assumptions response_redirect_url_tie.
