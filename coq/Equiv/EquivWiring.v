(* The WIRING of the middleware chain (property C04): what `start_server` hands to the protocol objects, over the
   definitions REGENERATED from /repo's current source by translate/py2coq_wiring.py (coq/Gen/WiringGen.v):
     gen_middlewares / gen_chain / gen_setup_effects   start_server, from `middlewares = []` to the chain assignment
     gen_start                                          the same statements continued through both create_server calls
     gen_boot                                           ... preceded by the selection of the TLS contexts (C20)
     gen_get_*_config, gen_serve_args                   ServerConfig's derivations and the call of start_server in __main__
     factories, chain_var                               the table of protocol factories (source texts)
     gen_get_location_router, gen_location_post_init    locations -> handlers -> router (C17), at the end of the file
   The protocol-level part of C04 (a protocol object consults the chain it was given before any handler runs) is
   Props/C04.v over Gen/ServerGen.v; MiddlewareChain.process_request is PyGen.gen_chain_process (Equiv.chain_process_tie).
   Statements only; proofs in Proofs/EquivWiring_proofs.v.  Helper definitions are restated there.
   Argument order of the generated functions: start_server's parameters in signature order
   (config, enable_rate_limiting, rate_limit_config, access_control_config, certificate_auth_config). *)
From Coq Require Import List NArith ZArith QArith Bool String.
From NV Require Import Prelude.Str Prelude.Res Equiv.WiringGlue.
From NV Require Import Gen.WiringGen.
From NV Require Model.Ip Model.CertAuth Model.Proxy Model.ServerProto Gen.PyGen Equiv.Equiv Gen.MwGen Equiv.EquivMw.
From NV Require Proofs.EquivWiring_proofs.
Import ListNotations.
Open Scope list_scope.

Definition is_some {A : Type} (o : option A) : bool := match o with Some _ => true | None => false end.

(* the order the property text and start_server's comments ask for *)
Definition wiring_order : list mwclass := [K_CertificateAuth; K_AccessControl; K_RateLimiter].

(* which middleware start_server is asked for: a configuration object for the first two, the flag for the limiter *)
Definition configured (en : bool) (ac : option py_AccessControlConfig) (ca : option py_CertificateAuthConfig) (k : mwclass) : bool :=
  match k with K_CertificateAuth => is_some ca | K_AccessControl => is_some ac | K_RateLimiter => en end.

(* ================= (a) the list ================= *)
Definition mw_spec (en : bool) (rl : option py_RateLimitConfig) (ac : option py_AccessControlConfig) (ca : option py_CertificateAuthConfig) : list mwkind :=
  (match ca with Some c => [Mw_CertificateAuth (Some c)] | None => [] end) ++
  (match ac with Some c => [Mw_AccessControl (Some c)] | None => [] end) ++
  (if en then [Mw_RateLimiter rl] else []).

Theorem middlewares_tie : forall en rl ac ca, gen_middlewares en rl ac ca = mw_spec en rl ac ca.
Proof. exact EquivWiring_proofs.middlewares_tie. Qed.
Print Assumptions middlewares_tie.

(* every configured middleware occurs exactly once, every other one not at all *)
Theorem each_configured_once : forall en rl ac ca k,
  List.length (filter (fun m => mwclass_eqb (class_of m) k) (gen_middlewares en rl ac ca)) = if configured en ac ca k then 1%nat else 0%nat.
Proof. exact EquivWiring_proofs.each_configured_once. Qed.
Print Assumptions each_configured_once.

(* certificate auth, then access control, then the rate limiter *)
Theorem wiring_order_tie : forall en rl ac ca,
  map class_of (gen_middlewares en rl ac ca) = filter (configured en ac ca) wiring_order.
Proof. exact EquivWiring_proofs.wiring_order_tie. Qed.
Print Assumptions wiring_order_tie.

(* each object is constructed over the configuration start_server was given for it *)
Theorem carries_configuration : forall en rl ac ca m, In m (gen_middlewares en rl ac ca) ->
  m = Mw_CertificateAuth ca \/ m = Mw_AccessControl ac \/ m = Mw_RateLimiter rl.
Proof. exact EquivWiring_proofs.carries_configuration. Qed.
Print Assumptions carries_configuration.

(* ================= (b) the chain ================= *)
Theorem chain_tie : forall en rl ac ca,
  gen_chain en rl ac ca = match gen_middlewares en rl ac ca with [] => None | l => Some (mk_py_MiddlewareChain l) end.
Proof. exact EquivWiring_proofs.chain_tie. Qed.
Print Assumptions chain_tie.

Theorem chain_none_iff : forall en rl ac ca,
  gen_chain en rl ac ca = None <-> (forall k, configured en ac ca k = false).
Proof. exact EquivWiring_proofs.chain_none_iff. Qed.
Print Assumptions chain_none_iff.

Theorem chain_over_middlewares : forall en rl ac ca ch,
  gen_chain en rl ac ca = Some ch -> MiddlewareChain_middlewares ch = gen_middlewares en rl ac ca.
Proof. exact EquivWiring_proofs.chain_over_middlewares. Qed.
Print Assumptions chain_over_middlewares.

(* the recorded effect: the limiter that is started is the limiter that is in the list, and only when it is *)
Theorem setup_effects_tie : forall en rl ac ca (P S : Type),
  @gen_setup_effects P S en rl ac ca = if en then [EffCall (Mw_RateLimiter rl) "start"%string] else [].
Proof. intros. apply EquivWiring_proofs.setup_effects_tie. Qed.
Print Assumptions setup_effects_tie.

Theorem setup_tie : forall en rl ac ca (P S : Type),
  @gen_setup P S en rl ac ca = (gen_middlewares en rl ac ca, gen_chain en rl ac ca, @gen_setup_effects P S en rl ac ca).
Proof. intros. apply EquivWiring_proofs.setup_tie. Qed.
Print Assumptions setup_tie.

(* ================= (c) the protocol factories, semantically ================= *)
Section Listen.
Context {T_router T_ssl T_pyctx A_route U : Type}.
Variables (attr_route : T_router -> A_route) (config : py_ServerConfig)
          (en : bool) (rl : option py_RateLimitConfig) (ac : option py_AccessControlConfig) (ca : option py_CertificateAuthConfig)
          (router : T_router) (ssl_context : option T_ssl) (pyopenssl_ctx : option T_pyctx).

(* `use_pyopenssl`, as start_server derives it from config and the certificate rules *)
Definition uses_pyopenssl : bool :=
  ServerConfig_require_client_cert config ||
  match ca with
  | Some c => existsb (fun r => CertificateAuthPathRule_require_cert r || is_some (CertificateAuthPathRule_allowed_fingerprints r))
                      (CertificateAuthConfig_path_rules c)
  | None => false
  end.

(* the application protocol of a connection: the router as handler, THE chain of (b), no upload handler *)
Definition app_factory : unit -> proto A_route py_MiddlewareChain U T_pyctx :=
  fun _ => PGemini (attr_route router) (gen_chain en rl ac ca) None.

Definition expected_listener : effect mwkind (proto A_route py_MiddlewareChain U T_pyctx) T_ssl :=
  match (if uses_pyopenssl then pyopenssl_ctx else None) with
  | Some x => EffListen (fun _ => PTls app_factory x) (ServerConfig_host config) (ServerConfig_port config) None
  | None => EffListen app_factory (ServerConfig_host config) (ServerConfig_port config) ssl_context
  end.

Definition started := gen_start (U_upload := U) attr_route config en rl ac ca router ssl_context pyopenssl_ctx.

(* the whole translated part of start_server: list, chain, `rate_limiter.start()`, then exactly one listener *)
Theorem start_tie :
  started = (gen_middlewares en rl ac ca, gen_chain en rl ac ca, gen_setup_effects en rl ac ca ++ [expected_listener]).
Proof. exact (EquivWiring_proofs.start_tie en rl ac ca attr_route config router ssl_context pyopenssl_ctx). Qed.

(* one create_server call whichever way the backend condition goes *)
Theorem one_listener_in_every_case : List.length (listen_factories (snd started)) = 1%nat.
Proof. exact (EquivWiring_proofs.one_listener_in_every_case en rl ac ca attr_route config router ssl_context pyopenssl_ctx). Qed.

(* on the PyOpenSSL branch and on the stdlib branch alike: the same chain, the router's route, no upload handler *)
Theorem every_factory_same_chain_and_router : forall f, In f (listen_factories (snd started)) ->
  app_proto (f tt) = (attr_route router, gen_chain en rl ac ca, None).
Proof. exact (EquivWiring_proofs.every_factory_same_chain_and_router en rl ac ca attr_route config router ssl_context pyopenssl_ctx). Qed.

Theorem backend_choice : forall f, In f (listen_factories (snd started)) ->
  is_tls_wrapped (f tt) = uses_pyopenssl && is_some pyopenssl_ctx.
Proof. exact (EquivWiring_proofs.backend_choice en rl ac ca attr_route config router ssl_context pyopenssl_ctx). Qed.

Theorem listen_factories_tie : exists f, listen_factories (snd started) = [f] /\
  app_proto (f tt) = (attr_route router, gen_chain en rl ac ca, None) /\
  is_tls_wrapped (f tt) = uses_pyopenssl && is_some pyopenssl_ctx /\
  listen_ssl (snd started) = [if uses_pyopenssl && is_some pyopenssl_ctx then None else ssl_context].
Proof. exact (EquivWiring_proofs.listen_factories_tie en rl ac ca attr_route config router ssl_context pyopenssl_ctx). Qed.

(* what a connection's protocol object consults is the list of (a) *)
Theorem protocol_consults_the_wired_list : forall f, In f (listen_factories (snd started)) ->
  match snd (fst (app_proto (f tt))) with
  | Some ch => MiddlewareChain_middlewares ch = gen_middlewares en rl ac ca
  | None => gen_middlewares en rl ac ca = []
  end.
Proof. exact (EquivWiring_proofs.protocol_consults_the_wired_list en rl ac ca attr_route config router ssl_context pyopenssl_ctx). Qed.

Theorem start_calls : calls (snd started) = if en then [(Mw_RateLimiter rl, "start"%string)] else [].
Proof. exact (EquivWiring_proofs.start_calls en rl ac ca attr_route config router ssl_context pyopenssl_ctx). Qed.
End Listen.
Print Assumptions start_tie.
Print Assumptions one_listener_in_every_case.
Print Assumptions every_factory_same_chain_and_router.
Print Assumptions backend_choice.
Print Assumptions listen_factories_tie.
Print Assumptions protocol_consults_the_wired_list.
Print Assumptions start_calls.

(* ================= the selection of the TLS contexts, then the listener (gen_boot; property C20) ================= *)
(* gen_boot: start_server from `ssl_context = None; pyopenssl_ctx = None` through the four branches that call a context
   builder to the create_server calls.  The builders are ORACLE arguments that return a context (the translator checks
   that every `return` of their defs returns a constructed object; what they set on it is Gen/TlsConfigGen.v, Props/C20). *)
Definition opt_truthy (o : option pathlike) : bool := match o with Some v => pathlike_truthy v | None => false end.
Definition opt_path_str (o : option pathlike) : str := match o with Some v => pathlike_str v | None => lit "None" end.

Section Boot.
Context {T_router A_route T_sslctx T_pyctx U : Type}.
Variables (attr_route : T_router -> A_route)
          (o_server : str -> str -> bool -> T_sslctx) (o_self_signed : bool -> T_sslctx)
          (o_pyopenssl : str -> str -> bool -> T_pyctx) (o_self_signed_pyopenssl : unit -> T_pyctx)
          (config : py_ServerConfig)
          (en : bool) (rl : option py_RateLimitConfig) (ac : option py_AccessControlConfig) (ca : option py_CertificateAuthConfig)
          (router : T_router).

(* `config.certfile and config.keyfile` *)
Definition has_cert_files : bool := opt_truthy (ServerConfig_certfile config) && opt_truthy (ServerConfig_keyfile config).
Definition cert_text : str := opt_path_str (ServerConfig_certfile config).
Definition key_text : str := opt_path_str (ServerConfig_keyfile config).

(* which builder, for (client certificates requested?) x (certfile and keyfile given?) *)
Definition chosen_builder : string :=
  if uses_pyopenssl config ca
  then (if has_cert_files then "create_pyopenssl_server_context" else "_create_self_signed_pyopenssl_context")
  else (if has_cert_files then "create_server_context" else "_create_self_signed_context").
Definition chosen_pyctx : option T_pyctx :=
  if uses_pyopenssl config ca
  then Some (if has_cert_files then o_pyopenssl cert_text key_text true else o_self_signed_pyopenssl tt)
  else None.
Definition chosen_sslctx : option T_sslctx :=
  if uses_pyopenssl config ca
  then None
  else Some (if has_cert_files then o_server cert_text key_text false else o_self_signed false).

Definition booted := gen_boot (U_upload := U) attr_route o_server o_self_signed o_pyopenssl o_self_signed_pyopenssl
                              config en rl ac ca router.

(* gen_boot = one builder call, then gen_start on the contexts that call produced *)
Theorem boot_tie :
  booted = (gen_middlewares en rl ac ca, gen_chain en rl ac ca,
            EffBuild chosen_builder :: snd (started (U := U) attr_route config en rl ac ca router chosen_sslctx chosen_pyctx)).
Proof. exact (EquivWiring_proofs.boot_tie en rl ac ca attr_route o_server o_self_signed o_pyopenssl o_self_signed_pyopenssl config router). Qed.

(* exactly one builder is called, the one of the case *)
Theorem context_choice : builds (snd booted) = [chosen_builder].
Proof. exact (EquivWiring_proofs.context_choice en rl ac ca attr_route o_server o_self_signed o_pyopenssl o_self_signed_pyopenssl config router). Qed.

(* the single listener: wrapped iff client certificates are requested, then with the PyOpenSSL context just built;
   otherwise ssl= the standard-library context just built; in both cases the chain and the router of (c) *)
Theorem listener_protection : exists f, listen_factories (snd booted) = [f] /\
  app_proto (f tt) = (attr_route router, gen_chain en rl ac ca, None) /\
  is_tls_wrapped (f tt) = uses_pyopenssl config ca /\
  (uses_pyopenssl config ca = true ->
     exists ctx, chosen_pyctx = Some ctx /\ f tt = PTls (app_factory (U := U) attr_route en rl ac ca router) ctx) /\
  listen_ssl (snd booted) = [chosen_sslctx] /\
  (uses_pyopenssl config ca = false -> exists ctx, chosen_sslctx = Some ctx).
Proof. exact (EquivWiring_proofs.listener_protection en rl ac ca attr_route o_server o_self_signed o_pyopenssl o_self_signed_pyopenssl config router). Qed.

(* for every configuration the single listener that is started is TLS-protected: the fall-through "use_pyopenssl but
   pyopenssl_ctx is None -> create_server(ssl=None)" is unreachable *)
Theorem no_plaintext_listener : exists f s, listen_factories (snd booted) = [f] /\ listen_ssl (snd booted) = [s] /\
  ((exists inner ctx, f tt = PTls inner ctx) \/ (exists ctx, s = Some ctx /\ is_tls_wrapped (f tt) = false)).
Proof. exact (EquivWiring_proofs.no_plaintext_listener en rl ac ca attr_route o_server o_self_signed o_pyopenssl o_self_signed_pyopenssl config router). Qed.
End Boot.
Print Assumptions boot_tie.
Print Assumptions context_choice.
Print Assumptions listener_protection.
Print Assumptions no_plaintext_listener.

(* ================= (c) the table of protocol factories (source texts) ================= *)
(* every row passes the variable the chain was assigned to, the same handler expression, no upload handler, and ends in
   the application protocol class *)
Theorem factories_same_arguments : exists h, forall r, In r factories ->
  fr_handler r = h /\ fr_middleware r = Some chain_var /\ fr_upload r = None /\
  last (fr_callables r) ""%string = "GeminiServerProtocol"%string.
Proof. exact EquivWiring_proofs.factories_same_arguments. Qed.
Print Assumptions factories_same_arguments.

(* two calls, in the two branches of one condition *)
Theorem factories_cover_backend_condition : exists c,
  map (fun r => (fr_cond r, fr_branch r)) factories = [(c, true); (c, false)].
Proof. exact EquivWiring_proofs.factories_cover_backend_condition. Qed.
Print Assumptions factories_cover_backend_condition.

(* the first goes through the TLS wrapper's factory, the second does not *)
Theorem factories_backends :
  map (fun r => existsb (String.eqb "TLSServerProtocol") (fr_callables r)) factories = [true; false].
Proof. exact EquivWiring_proofs.factories_backends. Qed.
Print Assumptions factories_backends.

(* ================= composition with MiddlewareChain.process_request ================= *)
Definition verdict : Type := bool * option str.
Definition run_opt (sem : mwkind -> str -> str -> option str -> verdict) (m : option mwkind) (url ip : str) (fp : option str) : verdict :=
  match m with Some x => sem x url ip fp | None => (true, None) end.

(* for ANY behaviour `sem` of the middleware objects: the chain over the wired list asks certificate auth, then access
   control, then the limiter - each only if configured - and the first refusal is the answer *)
Theorem chain_decision : forall en rl ac ca sem url ip fp,
  PyGen.gen_chain_process (map sem (gen_middlewares en rl ac ca)) url ip fp =
  let d1 := run_opt sem (option_map (fun c => Mw_CertificateAuth (Some c)) ca) url ip fp in
  let d2 := run_opt sem (option_map (fun c => Mw_AccessControl (Some c)) ac) url ip fp in
  let d3 := run_opt sem (if en then Some (Mw_RateLimiter rl) else None) url ip fp in
  if negb (fst d1) then (false, snd d1)
  else if negb (fst d2) then (false, snd d2)
  else if negb (fst d3) then (false, snd d3)
  else (true, None).
Proof. exact EquivWiring_proofs.chain_decision. Qed.
Print Assumptions chain_decision.

(* admitted only if each configured middleware admits *)
Theorem wired_chain_admits_iff : forall en rl ac ca sem url ip fp,
  fst (PyGen.gen_chain_process (map sem (gen_middlewares en rl ac ca)) url ip fp) = true <->
  (forall m, In m (gen_middlewares en rl ac ca) -> fst (sem m url ip fp) = true).
Proof. exact EquivWiring_proofs.wired_chain_admits_iff. Qed.
Print Assumptions wired_chain_admits_iff.

(* the first rejecting one in the wiring order supplies the response *)
Theorem wired_first_rejection_supplies : forall en rl ac ca sem l1 m l2 url ip fp,
  gen_middlewares en rl ac ca = l1 ++ m :: l2 ->
  (forall x, In x l1 -> fst (sem x url ip fp) = true) -> fst (sem m url ip fp) = false ->
  PyGen.gen_chain_process (map sem (gen_middlewares en rl ac ca)) url ip fp = (false, snd (sem m url ip fp)).
Proof. exact EquivWiring_proofs.wired_first_rejection_supplies. Qed.
Print Assumptions wired_first_rejection_supplies.

(* ================= (d) ServerConfig -> configurations -> start_server ================= *)
Definition sconf_of (c : py_ServerConfig) : Ip.sconf :=
  {| Ip.sc_enabled := ServerConfig_enable_access_control c; Ip.sc_allow := ServerConfig_access_control_allow_list c;
     Ip.sc_deny := ServerConfig_access_control_deny_list c; Ip.sc_default := ServerConfig_access_control_default_allow c |}.

(* get_access_control_config = the model's `wants_component` (Model/Ip.v, the object of the C09 theorems) *)
Theorem access_control_config_tie : forall c,
  gen_get_access_control_config c =
  if Ip.wants_component (sconf_of c)
  then Some (mk_py_AccessControlConfig (ServerConfig_access_control_allow_list c) (ServerConfig_access_control_deny_list c)
                                       (ServerConfig_access_control_default_allow c))
  else None.
Proof. exact EquivWiring_proofs.access_control_config_tie. Qed.
Print Assumptions access_control_config_tie.

Theorem rate_limit_config_tie : forall c,
  gen_get_rate_limit_config c =
  mk_py_RateLimitConfig (ServerConfig_rate_limit_capacity c) (ServerConfig_rate_limit_refill_rate c) (ServerConfig_rate_limit_retry_after c).
Proof. exact EquivWiring_proofs.rate_limit_config_tie. Qed.
Print Assumptions rate_limit_config_tie.

(* get_certificate_auth_config: None for no / an empty list; KeyError when an entry lacks "prefix" *)
Definition rule_of_entry (p : str) (e : path_entry) : py_CertificateAuthPathRule :=
  mk_py_CertificateAuthPathRule p (match pe_require_cert e with Some b => b | None => false end) (pe_allowed_fingerprints e).
Fixpoint rules_of (es : list path_entry) : option (list py_CertificateAuthPathRule) :=
  match es with
  | [] => Some []
  | e :: es' => match pe_prefix e with
                | Some p => match rules_of es' with Some rs => Some (rule_of_entry p e :: rs) | None => None end
                | None => None
                end
  end.
Definition cert_config_spec (paths : option (list path_entry)) : res (option py_CertificateAuthConfig) :=
  match paths with
  | None | Some [] => Ok None
  | Some es => match rules_of es with
               | Some rs => Ok (Some (mk_py_CertificateAuthConfig rs))
               | None => Err (lit "KeyError") []
               end
  end.
Theorem certificate_auth_config_tie : forall c,
  gen_get_certificate_auth_config c = cert_config_spec (ServerConfig_certificate_auth_paths c).
Proof. exact EquivWiring_proofs.certificate_auth_config_tie. Qed.
Print Assumptions certificate_auth_config_tie.

(* ... and on the tables the model describes it is Model.CertAuth.rule_of_toml, entry by entry *)
Definition entry_of_toml (t : CertAuth.toml_rule) : path_entry :=
  mk_path_entry (Some (CertAuth.tr_prefix t)) (CertAuth.tr_require t) (CertAuth.tr_allowed t).
Definition py_rule (r : CertAuth.rule) : py_CertificateAuthPathRule :=
  mk_py_CertificateAuthPathRule (CertAuth.ru_prefix r) (CertAuth.ru_require r) (CertAuth.ru_allowed r).
Theorem certificate_auth_config_model : forall c l,
  ServerConfig_certificate_auth_paths c = Some (map entry_of_toml l) ->
  gen_get_certificate_auth_config c =
  Ok (match l with [] => None | _ => Some (mk_py_CertificateAuthConfig (map (fun t => py_rule (CertAuth.rule_of_toml t)) l)) end).
Proof. exact EquivWiring_proofs.certificate_auth_config_model. Qed.
Print Assumptions certificate_auth_config_model.

(* __main__: the arguments start_server is called with.  With --require-client-cert and no certificate rules the code
   evaluates CertificateAuthConfig(require_cert=True): a TypeError (the dataclass has no such field), no server starts *)
Definition serve_spec (c : py_ServerConfig) (require_client_cert : bool) :=
  match gen_get_certificate_auth_config c with
  | Ok cac =>
      if require_client_cert && negb (is_some cac) then Err (lit "TypeError") []
      else Ok (c, ServerConfig_enable_rate_limiting c, Some (gen_get_rate_limit_config c), gen_get_access_control_config c, cac)
  | Err k m => Err k m
  | OutOfModel => OutOfModel
  end.
Theorem serve_args_tie : forall c flag, gen_serve_args c flag = serve_spec c flag.
Proof. exact EquivWiring_proofs.serve_args_tie. Qed.
Print Assumptions serve_args_tie.

(* from the configuration file to the chain: which ServerConfig fields put which middleware into the chain *)
Definition config_wants (c : py_ServerConfig) (k : mwclass) : bool :=
  match k with
  | K_CertificateAuth => match ServerConfig_certificate_auth_paths c with Some (_ :: _) => true | _ => false end
  | K_AccessControl => Ip.wants_component (sconf_of c)
  | K_RateLimiter => ServerConfig_enable_rate_limiting c
  end.
Theorem cli_wiring : forall c flag c' en rl ac cac,
  gen_serve_args c flag = Ok (c', en, rl, ac, cac) ->
  c' = c /\ map class_of (gen_middlewares en rl ac cac) = filter (config_wants c) wiring_order /\
  (gen_chain en rl ac cac = None <-> forall k, config_wants c k = false).
Proof. exact EquivWiring_proofs.cli_wiring. Qed.
Print Assumptions cli_wiring.

(* ================= C17: ServerConfig.locations -> handlers -> router ================= *)
(* gen_get_location_router (server/config.py, with the nested create_handler) and gen_location_post_init
   (server/location.py) over MwGen's Route record and add_route (py2coq_mw.py).  `handle_of h` is the bound method
   `h.handle` of a handler object h - any function; `handler` is generated: a class and its constructor arguments. *)
(* a or d on Optional int / int: None and 0 are false *)
Definition value_or (o : option Z) (d : Z) : Z := match o with Some v => if Z.eqb v 0 then d else v | None => d end.

(* the handler of a location, from THAT location's fields (and the two documented fall-backs: the server-wide listing flag
   and max_file_size); AssertionError: create_handler's asserts *)
Definition handler_of (c : py_ServerConfig) (edl : bool) (loc : py_LocationConfig) : res handler :=
  match LocationConfig_handler_type loc with
  | HandlerType_STATIC =>
      match LocationConfig_document_root loc with
      | Some d => Ok (H_StaticFileHandler d (Some (LocationConfig_default_indices loc))
                                          (LocationConfig_enable_directory_listing loc || edl)
                                          (Some (value_or (LocationConfig_max_file_size loc) (ServerConfig_max_file_size c))))
      | None => Err (lit "AssertionError") []
      end
  | HandlerType_PROXY =>
      match LocationConfig_upstream loc with
      | Some u => Ok (H_ProxyHandler u (LocationConfig_prefix loc) (LocationConfig_strip_prefix loc) (LocationConfig_timeout loc))
      | None => Err (lit "AssertionError") []
      end
  end.

Section Routes.
Variables (REQ RX : Type) (rc : str -> option RX) (handle_of : handler -> REQ -> ServerProto.resp)
          (c : py_ServerConfig) (edl : bool).

Definition route_of (loc : py_LocationConfig) (h : handler) : MwGen.py_Route REQ RX :=
  MwGen.mk_py_Route (LocationConfig_prefix loc) (handle_of h) MwGen.RouteType_PREFIX None.

(* one route per location, in order; the first location whose handler cannot be built stops everything *)
Fixpoint routes_of (ls : list py_LocationConfig) : res (list (MwGen.py_Route REQ RX)) :=
  match ls with
  | [] => Ok []
  | l :: ls' =>
      match handler_of c edl l with
      | Ok h => match routes_of ls' with Ok rs => Ok (route_of l h :: rs) | Err k m => Err k m | OutOfModel => OutOfModel end
      | Err k m => Err k m
      | OutOfModel => OutOfModel
      end
  end.

Definition location_router_spec : res (option (routes REQ RX)) :=
  match ServerConfig_locations c with
  | None | Some [] => Ok None
  | Some ls => match routes_of ls with Ok rs => Ok (Some rs) | Err k m => Err k m | OutOfModel => OutOfModel end
  end.
End Routes.

(* LocationConfig.__post_init__ *)
Definition norm_prefix (p : str) : str := if prefixb (lit "/") p then p else lit "/" ++ p.
Definition post_init_spec (ex isd : pathlike -> bool) (l : py_LocationConfig) : res py_LocationConfig :=
  let p := norm_prefix (LocationConfig_prefix l) in
  match LocationConfig_handler_type l with
  | HandlerType_STATIC =>
      match LocationConfig_document_root l with
      | None => Err (lit "ValueError") []
      | Some d =>
          let d' := if pathlike_is_str d then pathlike_to_path d else d in
          if ex d' then
            if isd d' then Ok (mk_py_LocationConfig p HandlerType_STATIC (Some d') (LocationConfig_enable_directory_listing l)
                                 (LocationConfig_default_indices l) (LocationConfig_max_file_size l) (LocationConfig_upstream l)
                                 (LocationConfig_strip_prefix l) (LocationConfig_timeout l))
            else Err (lit "ValueError") []
          else Err (lit "ValueError") []
      end
  | HandlerType_PROXY =>
      match LocationConfig_upstream l with
      | None => Err (lit "ValueError") []
      | Some u =>
          if prefixb (lit "gemini://") u
          then Ok (mk_py_LocationConfig p HandlerType_PROXY (LocationConfig_document_root l) (LocationConfig_enable_directory_listing l)
                     (LocationConfig_default_indices l) (LocationConfig_max_file_size l) (Some u)
                     (LocationConfig_strip_prefix l) (LocationConfig_timeout l))
          else Err (lit "ValueError") []
      end
  end.

(* the URL a handler object forwards to (ProxyHandler.__init__ keeps upstream.rstrip("/"), prefix, strip_prefix: checked by
   the translator; _handle_async's URL construction is PyGen.gen_upstream_url, Equiv.upstream_url_tie) *)
Definition handler_upstream_url (h : handler) (path query : str) : option str :=
  match h with
  | H_ProxyHandler u p s _ => Some (PyGen.gen_upstream_url (Proxy.rstrip_slash u) p s path query)
  | H_StaticFileHandler _ _ _ _ => None
  end.

(* get_location_router: None without locations; else one PREFIX route per location, in the order of self.locations, whose
   handler is built from that location (the first location that cannot be handled raises) *)
Theorem location_router_tie : forall REQ RX rc handle_of c edl,
  gen_get_location_router REQ RX rc handle_of c edl = location_router_spec REQ RX handle_of c edl.
Proof. exact EquivWiring_proofs.location_router_tie. Qed.
Print Assumptions location_router_tie.

Theorem routes_of_each : forall REQ RX handle_of c edl ls rs,
  routes_of REQ RX handle_of c edl ls = Ok rs ->
  Forall2 (fun loc r => exists h, handler_of c edl loc = Ok h /\ r = route_of REQ RX handle_of loc h) ls rs.
Proof. exact EquivWiring_proofs.routes_of_each. Qed.
Print Assumptions routes_of_each.

Theorem routes_of_shape : forall REQ RX handle_of c edl ls rs,
  routes_of REQ RX handle_of c edl ls = Ok rs ->
  List.length rs = List.length ls /\
  map (fun r => (MwGen.Route_pattern r, MwGen.Route_route_type r)) rs =
  map (fun loc => (LocationConfig_prefix loc, MwGen.RouteType_PREFIX)) ls.
Proof. exact EquivWiring_proofs.routes_of_shape. Qed.
Print Assumptions routes_of_shape.

(* composed with Router.route (MwGen.gen_router_route, EquivMw.router_route_first_match): a request is handled by the first
   location whose prefix matches its path, by the handler built from THAT location; else by the default handler *)
Theorem location_routing : forall REQ RX handle_of c edl req_path rxm ls rs dflt request,
  routes_of REQ RX handle_of c edl ls = Ok rs ->
  MwGen.gen_router_route REQ RX req_path rxm rs dflt request =
  match find (fun loc => prefixb (LocationConfig_prefix loc) (req_path request)) ls with
  | Some loc => match handler_of c edl loc with Ok h => handle_of h request | _ => EquivMw.or_default dflt request end
  | None => EquivMw.or_default dflt request
  end.
Proof. exact EquivWiring_proofs.location_routing. Qed.
Print Assumptions location_routing.

(* two locations never get the same handler unless every field a handler is built from agrees *)
Theorem handler_of_injective : forall c edl l1 l2 h,
  handler_of c edl l1 = Ok h -> handler_of c edl l2 = Ok h ->
  LocationConfig_handler_type l1 = LocationConfig_handler_type l2 /\
  match h with
  | H_ProxyHandler _ _ _ _ =>
      LocationConfig_upstream l1 = LocationConfig_upstream l2 /\ LocationConfig_prefix l1 = LocationConfig_prefix l2 /\
      LocationConfig_strip_prefix l1 = LocationConfig_strip_prefix l2 /\ LocationConfig_timeout l1 = LocationConfig_timeout l2
  | H_StaticFileHandler _ _ _ _ =>
      LocationConfig_document_root l1 = LocationConfig_document_root l2 /\
      LocationConfig_default_indices l1 = LocationConfig_default_indices l2 /\
      (LocationConfig_enable_directory_listing l1 || edl) = (LocationConfig_enable_directory_listing l2 || edl) /\
      value_or (LocationConfig_max_file_size l1) (ServerConfig_max_file_size c) =
      value_or (LocationConfig_max_file_size l2) (ServerConfig_max_file_size c)
  end.
Proof. exact EquivWiring_proofs.handler_of_injective. Qed.
Print Assumptions handler_of_injective.

(* a proxy location forwards to ITS upstream, mapping the URL with ITS prefix / strip_prefix (Model.Proxy.upstream_url) *)
Theorem proxy_location_url : forall c edl loc u path query,
  LocationConfig_handler_type loc = HandlerType_PROXY -> LocationConfig_upstream loc = Some u ->
  exists h, handler_of c edl loc = Ok h /\
  handler_upstream_url h path query =
  Some (Proxy.upstream_url {| Proxy.px_upstream := u; Proxy.px_prefix := LocationConfig_prefix loc;
                              Proxy.px_strip := LocationConfig_strip_prefix loc |} path query).
Proof. exact EquivWiring_proofs.proxy_location_url. Qed.
Print Assumptions proxy_location_url.

Theorem location_post_init_tie : forall ex isd l, gen_location_post_init ex isd l = post_init_spec ex isd l.
Proof. exact EquivWiring_proofs.location_post_init_tie. Qed.
Print Assumptions location_post_init_tie.

(* a location that passed __post_init__: normalised prefix, its handler can be built, a proxy's upstream is gemini:// *)
Theorem validated_location : forall ex isd l0 l c edl,
  gen_location_post_init ex isd l0 = Ok l ->
  prefixb (lit "/") (LocationConfig_prefix l) = true /\
  LocationConfig_prefix l = norm_prefix (LocationConfig_prefix l0) /\
  (exists h, handler_of c edl l = Ok h) /\
  (LocationConfig_handler_type l = HandlerType_PROXY ->
   exists u, LocationConfig_upstream l = Some u /\ prefixb (lit "gemini://") u = true /\
             LocationConfig_upstream l0 = Some u /\ LocationConfig_strip_prefix l = LocationConfig_strip_prefix l0 /\
             LocationConfig_timeout l = LocationConfig_timeout l0).
Proof. exact EquivWiring_proofs.validated_location. Qed.
Print Assumptions validated_location.
