(* Gen = Model for the methods of GeminiClientProtocol translated from /repo/src/nauyaca/client/protocol.py
   (Gen/ClientGen.v, regenerated on every run by translate/py2coq_client.py).  Statements only; the proofs are in
   Proofs/EquivClient_proofs.v.  In the *_tie theorems the callees of a method are instantiated by the model's
   functions; in the cstep_*_tie theorems by the generated callees themselves, so that each asyncio callback of the
   class, as translated, IS the corresponding branch of the model's step function `cstep`.

   Hypotheses (on the state, none on the input bytes):
   - `connected s = true` (data_received): asyncio calls connection_made before any data_received and the class never
     resets self.transport (connected_stable: every later state has it).  Without it the code raises AttributeError
     at `self.transport.close()` where the model emits CClose.
   - `cfut s = Pending -> hdr s = true -> status s <> None` (connection_lost): a header that left no status has
     already failed the future.  It holds in every state reachable from the initial one (status_known_reachable);
     outside it the code raises TypeError (`20 <= None`) where the model leaves the state alone.
   - `encode (url ++ CRLF) = Some b` (send_request): the model's `request` is the encoded request line; a URL that
     str.encode refuses (lone surrogate) escapes as UnicodeEncodeError (send_request_unencodable).
   The label of an exception passed to connection_lost is prefixed with "conn:" by the model. *)
From Coq Require Import List NArith ZArith Bool.
From NV Require Import Prelude.Str Prelude.Res Prelude.Utf8 Model.Titan Model.ClientProto Equiv.ClientGlue Gen.ClientGen.
From NV Require Proofs.EquivClient_proofs.
Import ListNotations.

(* MAX_HEADER_LINE_SIZE of client/protocol.py is the model's constant; MAX_RESPONSE_BODY_SIZE instantiates the model's `cap` *)
Theorem max_header_line_tie : gen_MAX_HEADER_LINE_SIZE = max_header_line.
Proof. exact EquivClient_proofs.max_header_line_tie. Qed.
Print Assumptions max_header_line_tie.

(* _header_too_long *)
Theorem header_too_long_tie : forall s, gen_header_too_long s = header_too_long (cbuf s).
Proof. exact EquivClient_proofs.header_too_long_tie. Qed.
Print Assumptions header_too_long_tie.

(* _set_error *)
Theorem set_error_tie : forall s k, gen_set_error s k = (set_err s k, []).
Proof. exact EquivClient_proofs.set_error_tie. Qed.
Print Assumptions set_error_tie.

(* _parse_header *)
Theorem parse_header_tie : forall s line,
  gen_parse_header (fun s k => (set_err s k, [])) s line = (parse_header s line, []).
Proof. exact EquivClient_proofs.parse_header_tie. Qed.
Print Assumptions parse_header_tie.

(* data_received *)
Theorem data_received_tie : forall s d,
  connected s = true ->
  gen_data_received (fun s => header_too_long (cbuf s)) (fun s l => (parse_header s l, [])) (fun s k => (set_err s k, [])) s d
  = data_received gen_MAX_RESPONSE_BODY_SIZE s d.
Proof. exact EquivClient_proofs.data_received_tie. Qed.
Print Assumptions data_received_tie.

(* connection_lost, including the MIME / charset string manipulation (the model's is_text_meta and charset_of) *)
Theorem connection_lost_tie : forall dw url db s exc,
  (cfut s = Pending -> hdr s = true -> status s <> None) ->
  gen_connection_lost dw url db s (option_map (app (lit "conn:")) exc) = (connection_lost db dw s exc, []).
Proof. exact EquivClient_proofs.connection_lost_tie. Qed.
Print Assumptions connection_lost_tie.

(* send_request = the CSend branch of cstep *)
Theorem send_request_tie : forall soc db cap dw url b s,
  encode (url ++ [13; 10]%N) = Some b ->
  gen_send_request url s = cstep [b] soc db cap dw s CSend.
Proof. exact EquivClient_proofs.send_request_tie. Qed.
Print Assumptions send_request_tie.

Theorem send_request_unencodable : forall url s,
  encode (url ++ [13; 10]%N) = None ->
  gen_send_request url s = (s, if connected s then [CEscape (lit "UnicodeEncodeError")] else []).
Proof. exact EquivClient_proofs.send_request_unencodable. Qed.
Print Assumptions send_request_unencodable.

(* connection_made = the CConnected branch of cstep *)
Theorem connection_made_tie : forall request soc db cap dw s,
  gen_connection_made (fun s => cstep request soc db cap dw s CSend) soc s = cstep request soc db cap dw s CConnected.
Proof. exact EquivClient_proofs.connection_made_tie. Qed.
Print Assumptions connection_made_tie.

(* ---------- the callbacks as a whole (generated callees inside generated callers) = cstep ---------- *)
Theorem cstep_data_tie : forall request soc db dw s d,
  connected s = true ->
  gen_data_received gen_header_too_long (gen_parse_header gen_set_error) gen_set_error s d
  = cstep request soc db gen_MAX_RESPONSE_BODY_SIZE dw s (CData d).
Proof. exact EquivClient_proofs.cstep_data_tie. Qed.
Print Assumptions cstep_data_tie.

Theorem cstep_lost_tie : forall request soc db cap dw url s exc,
  (cfut s = Pending -> hdr s = true -> status s <> None) ->
  gen_connection_lost dw url db s (option_map (app (lit "conn:")) exc) = cstep request soc db cap dw s (CLost exc).
Proof. exact EquivClient_proofs.cstep_lost_tie. Qed.
Print Assumptions cstep_lost_tie.

Theorem cstep_connected_tie : forall soc db cap dw url b s,
  encode (url ++ [13; 10]%N) = Some b ->
  gen_connection_made (gen_send_request url) soc s = cstep [b] soc db cap dw s CConnected.
Proof. exact EquivClient_proofs.cstep_connected_tie. Qed.
Print Assumptions cstep_connected_tie.

(* ---------- TitanClientProtocol: the same model with request = [line ++ CRLF; content] and decode_body = true ----------
   Its methods are translated by the same rules and tables (names gen_titan_m).  _header_too_long, _parse_header, _set_error and
   data_received tie to the same model functions as the Gemini class (Titan guards every close() with `if self.transport`,
   so it never raises AttributeError, but without a transport it skips the close the model emits: same hypothesis).
   connection_lost has `if is_text:` without `and self.decode_body`: it is the model's connection_lost at decode_body = true. *)
Theorem titan_header_too_long_tie : forall s, gen_titan_header_too_long s = header_too_long (cbuf s).
Proof. exact EquivClient_proofs.titan_header_too_long_tie. Qed.
Print Assumptions titan_header_too_long_tie.

Theorem titan_set_error_tie : forall s k, gen_titan_set_error s k = (set_err s k, []).
Proof. exact EquivClient_proofs.titan_set_error_tie. Qed.
Print Assumptions titan_set_error_tie.

Theorem titan_parse_header_tie : forall s line,
  gen_titan_parse_header (fun s k => (set_err s k, [])) s line = (parse_header s line, []).
Proof. exact EquivClient_proofs.titan_parse_header_tie. Qed.
Print Assumptions titan_parse_header_tie.

Theorem titan_data_received_tie : forall s d,
  connected s = true ->
  gen_titan_data_received (fun s => header_too_long (cbuf s)) (fun s l => (parse_header s l, [])) (fun s k => (set_err s k, [])) s d
  = data_received gen_MAX_RESPONSE_BODY_SIZE s d.
Proof. exact EquivClient_proofs.titan_data_received_tie. Qed.
Print Assumptions titan_data_received_tie.

Theorem titan_connection_lost_tie : forall dw url s exc,
  (cfut s = Pending -> hdr s = true -> status s <> None) ->
  gen_titan_connection_lost dw url s (option_map (app (lit "conn:")) exc) = (connection_lost true dw s exc, []).
Proof. exact EquivClient_proofs.titan_connection_lost_tie. Qed.
Print Assumptions titan_connection_lost_tie.

(* send_request writes the line, then the content = the CSend branch of cstep at request = [line; content] *)
Theorem titan_send_request_tie : forall soc db cap dw url content b s,
  encode (url ++ [13; 10]%N) = Some b ->
  gen_titan_send_request url content s = cstep [b; content] soc db cap dw s CSend.
Proof. exact EquivClient_proofs.titan_send_request_tie. Qed.
Print Assumptions titan_send_request_tie.

Theorem titan_send_request_unencodable : forall url content s,
  encode (url ++ [13; 10]%N) = None ->
  gen_titan_send_request url content s = (s, if connected s then [CEscape (lit "UnicodeEncodeError")] else []).
Proof. exact EquivClient_proofs.titan_send_request_unencodable. Qed.
Print Assumptions titan_send_request_unencodable.

Theorem titan_cstep_data_tie : forall request soc db dw s d,
  connected s = true ->
  gen_titan_data_received gen_titan_header_too_long (gen_titan_parse_header gen_titan_set_error) gen_titan_set_error s d
  = cstep request soc db gen_MAX_RESPONSE_BODY_SIZE dw s (CData d).
Proof. exact EquivClient_proofs.titan_cstep_data_tie. Qed.
Print Assumptions titan_cstep_data_tie.

Theorem titan_cstep_lost_tie : forall request soc cap dw url s exc,
  (cfut s = Pending -> hdr s = true -> status s <> None) ->
  gen_titan_connection_lost dw url s (option_map (app (lit "conn:")) exc) = cstep request soc true cap dw s (CLost exc).
Proof. exact EquivClient_proofs.titan_cstep_lost_tie. Qed.
Print Assumptions titan_cstep_lost_tie.

Theorem titan_cstep_connected_tie : forall soc db cap dw url content b s,
  encode (url ++ [13; 10]%N) = Some b ->
  gen_titan_connection_made (gen_titan_send_request url content) soc s = cstep [b; content] soc db cap dw s CConnected.
Proof. exact EquivClient_proofs.titan_cstep_connected_tie. Qed.
Print Assumptions titan_cstep_connected_tie.

(* ---------- the state hypotheses are invariants of the model ---------- *)
Theorem status_known_reachable : forall request soc db cap dw evs,
  let s := fst (crun request soc db cap dw cinit evs) in
  cfut s = Pending -> hdr s = true -> status s <> None.
Proof. exact EquivClient_proofs.status_known_reachable. Qed.
Print Assumptions status_known_reachable.

Theorem connected_stable : forall request soc db cap dw s e,
  connected s = true -> connected (fst (cstep request soc db cap dw s e)) = true.
Proof. exact EquivClient_proofs.connected_stable. Qed.
Print Assumptions connected_stable.

(* the value of the cap (no statement fixes it, but every size-related expectation of the harness and of users does):
   10 * 1024 * 1024 *)
Theorem max_response_body_value : gen_MAX_RESPONSE_BODY_SIZE = 10485760%N.
Proof. exact EquivClient_proofs.max_response_body_value. Qed.
Print Assumptions max_response_body_value.
