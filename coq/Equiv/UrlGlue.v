(* Hand-written glue between the definitions generated from utils/url.py and protocol/request.py (Gen/UrlGen.v,
   translate/py2coq_url.py) and the models Model/Url.v, Model/Titan.v.

   1. The part of CPython 3.12 urllib.parse the model does not state itself because parse_url's model inlines it:
      `urlparse` (= urlsplit + _splitparams for the schemes in uses_params) and `urlunparse`/`urlunsplit` in full
      generality (the model has the special case `urlunsplit_gemini`).  Proofs/EquivUrl_proofs.v proves that in the
      cases parse_url reaches they coincide with what the model inlines.
   2. str.encode("utf-8") and dict subscription as `res`-valued functions.
   3. The Python-side records (ParsedURL, GeminiRequest, TitanRequest; the translator reads the field lists from the
      source and checks them against these declarations) and the views of the model's values as such records. *)
From Coq Require Import List NArith ZArith Bool.
From NV Require Import Prelude.Str Prelude.Res Prelude.Utf8 Prelude.Repr Model.Url Model.Titan.
Import ListNotations.
Open Scope list_scope.

(* ---------- urllib.parse.urlparse / urlunparse (Lib/urllib/parse.py, 3.12.1) ---------- *)
Record urlparsed := { up_scheme : str; up_netloc : str; up_path : str; up_params : str; up_query : str; up_fragment : str }.

Definition uses_params : list str :=
  [lit ""; lit "ftp"; lit "hdl"; lit "prospero"; lit "http"; lit "imap"; lit "https"; lit "shttp"; lit "rtsp";
   lit "rtsps"; lit "rtspu"; lit "sip"; lit "sips"; lit "mms"; lit "sftp"; lit "tel"].
Definition uses_netloc : list str :=
  [lit ""; lit "ftp"; lit "http"; lit "gopher"; lit "nntp"; lit "telnet"; lit "imap"; lit "wais"; lit "file"; lit "mms";
   lit "https"; lit "shttp"; lit "snews"; lit "prospero"; lit "rtsp"; lit "rtsps"; lit "rtspu"; lit "rsync"; lit "svn";
   lit "svn+ssh"; lit "sftp"; lit "nfs"; lit "git"; lit "git+ssh"; lit "ws"; lit "wss"; lit "itms-services"].

(* _splitparams(url), called only when ';' in url:
     if '/' in url: i = url.find(';', url.rfind('/')); if i < 0: return url, ''
     else:          i = url.find(';')
     return url[:i], url[i+1:] *)
Definition splitparams (url : str) : str * str :=
  match rbreak_at ch_slash url with
  | Some (a, b) =>
      match break_at ch_semi b with
      | Some (b1, b2) => (a ++ ch_slash :: b1, b2)
      | None => (url, [])
      end
  | None =>
      match break_at ch_semi url with
      | Some (a, b) => (a, b)
      | None => (removelast url, url)     (* i = -1; not reached: ';' in url *)
      end
  end.

Definition nonempty (s : str) : bool := match s with [] => false | _ => true end.

Section WithOracle.
Variable ip6_check : str -> option str.

Definition urlparse (u : str) : res urlparsed :=
  do sp <- urlsplit ip6_check u ;;
  let '(path, params) :=
    if existsb (eqb (u_scheme sp)) uses_params && mem ch_semi (u_path sp)
    then splitparams (u_path sp) else (u_path sp, []) in
  Ok {| up_scheme := u_scheme sp; up_netloc := u_netloc sp; up_path := path; up_params := params;
        up_query := u_query sp; up_fragment := u_fragment sp |}.
End WithOracle.

Definition urlunsplit (scheme netloc url query fragment : str) : str :=
  let url :=
    if nonempty netloc || (nonempty scheme && existsb (eqb scheme) uses_netloc && negb (eqb (take 2 url) (lit "//")))
    then lit "//" ++ netloc ++ (if nonempty url && negb (eqb (take 1 url) (lit "/")) then lit "/" ++ url else url)
    else url in
  let url := if nonempty scheme then scheme ++ lit ":" ++ url else url in
  let url := if nonempty query then url ++ lit "?" ++ query else url in
  if nonempty fragment then url ++ lit "#" ++ fragment else url.

(* urlunparse((scheme, netloc, url, params, query, fragment)) *)
Definition urlunparse (scheme netloc url params query fragment : str) : str :=
  urlunsplit scheme netloc (if nonempty params then url ++ lit ";" ++ params else url) query fragment.

(* ---------- str.encode("utf-8"): a lone surrogate raises UnicodeEncodeError; the models decline to judge such
   strings (request lines come out of a strict UTF-8 decode), so that case is OutOfModel here as in Model/Titan.v ---------- *)
Definition encode_utf8 (s : str) : res (list N) :=
  match encode s with Some b => Ok b | None => OutOfModel end.

(* ---------- dict[str, str]: the association lists of Model/Titan.v (set_param / get_param); d[k] raises KeyError ---------- *)
Definition dict_getitem (k : str) (d : params) : res str :=
  match get_param k d with Some v => Ok v | None => Err (lit "KeyError") (py_repr k) end.

(* ---------- the Python-side records ---------- *)
(* class ParsedURL(NamedTuple) *)
Record purl := mk_purl { pu_scheme : str; pu_hostname : str; pu_port : N; pu_path : str; pu_query : str;
                         pu_fragment : str; pu_normalized : str }.
(* @dataclass GeminiRequest(BaseRequest): client_cert / client_cert_fingerprint keep their default None *)
Record greq := mk_greq { gr_raw_url : str; gr_parsed_url : purl }.
(* @dataclass TitanRequest(BaseRequest): additionally content keeps its default b"" *)
Record gtreq := mk_gtreq { gt_raw_url : str; gt_parsed_url : purl; gt_size : Z; gt_mime_type : str; gt_token : option str }.

(* ---------- model values seen as those records ---------- *)
Definition purl_of_parsed (p : parsed) : purl :=
  mk_purl gemini_s (p_host p) (p_port p) (p_path p) (p_query p) [] (p_norm p).
Definition greq_of_parsed (line : str) (p : parsed) : greq := mk_greq line (purl_of_parsed p).
(* the text before the first ';' : TitanRequest.parsed_url.normalized *)
Definition titan_base (line : str) : str :=
  match break_at ch_semi line with Some (a, _) => a | None => line end.
Definition gtreq_of_treq (t : treq) : gtreq :=
  mk_gtreq (t_line t)
           (mk_purl (lit "titan") (t_host t) (t_port t) (t_path t) (t_query t) [] (titan_base (t_line t)))
           (Z.of_N (t_size t)) (t_mime t) (t_token t).

Definition res_map {A B} (f : A -> B) (r : res A) : res B :=
  match r with Ok a => Ok (f a) | Err k m => Err k m | OutOfModel => OutOfModel end.

(* ---------- used in the statements of Equiv/EquivUrl.v ---------- *)
(* the text validate_url puts into its ValueError; the model (Model/Titan.v) abbreviates it to "URL too long" *)
Definition too_long_msg (n : N) : str :=
  lit "URL too long: " ++ dec n ++ lit " bytes (max " ++ dec 1022%N ++ lit " bytes)".
(* gemini_from_line of the model with that text in full *)
Definition gemini_from_line_full (ip6 : str -> option str) (line : str) : res parsed :=
  match encode line with
  | None => OutOfModel
  | Some b =>
      if (1024 <? N.of_nat (length b) + 2)%N
      then Err (lit "too_long") (too_long_msg (N.of_nat (length b)))
      else parse_url ip6 line
  end.
Definition abbreviate {A} (r : res A) : res A :=
  match r with
  | Err k m => if eqb k (lit "too_long") then Err k (lit "URL too long") else Err k m
  | _ => r
  end.

