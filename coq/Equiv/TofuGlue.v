(* Hand-written glue between the definitions generated from security/tofu.py and the TOFU block of
   client/session.py (Gen/TofuGen.v, translate/py2coq_tofu.py) and the model (Model/Tofu.v).
   Everything here is a re-statement of library behaviour the generated code refers to (sqlite3's
   cursor.rowcount, the `$` of re.match, the dynamically typed values of a parsed TOML table) or a
   conversion between a Python result and the model's result type.  No lemmas: see
   Proofs/EquivTofu_proofs.v. *)
From Coq Require Import List NArith ZArith Bool.
From NV Require Import Prelude.Str Prelude.Res Model.Tofu.
Import ListNotations.

(* ---- sqlite3 ---- *)
(* cursor.rowcount after `cursor.execute(st)` on the working store w: the rows the statement touched *)
Definition rowcount (w : store) (st : stmt) : nat :=
  match st with
  | SInsert _ => 1
  | SUpdateFp h p _ => length (filter (key_eqb h p) w)
  | STouch h p => length (filter (key_eqb h p) w)
  | SDelete h p => length (filter (key_eqb h p) w)
  | SDeleteHost h => length (filter (fun r => eqb h (r_host r)) w)
  | SDeleteAll => length w
  | SCommit => 0
  end.

(* a method of TOFUDatabase runs on a connection of its own: what the store is afterwards, whether the
   method returned or raised (statements after the last COMMIT are discarded when the connection closes) *)
Definition db_run (s : store) (l : list stmt) : store := finish s l true.

(* what the tie theorems observe of a generated database method: the statements, and whether it returned *)
Definition is_ok {A} (r : res A) : bool := match r with Ok _ => true | _ => false end.
Definition obs {A} (r : list stmt * res A) : list stmt * bool := (fst r, is_ok (snd r)).

(* TOFUDatabase.verify returns (is_valid, message) *)
Definition verdict_py (v : verdict) : bool * str :=
  match v with
  | VFirstUse => (true, lit "first_use")
  | VMatch => (true, lit "")
  | VChanged _ => (false, lit "changed")
  end.

(* ---- re.match(r"^...$", s) for a pattern that is a sequence of single characters / character classes,
        each with an optional {n}: such a pattern matches exactly the strings of one fixed shape.
        `$` (without re.MULTILINE) matches at the end of the string and also just before a line feed that
        is the last character of the string. ---- *)
Inductive ratom := RLit (c : N) | RClass (ranges : list (N * N)).
Definition atom_ok (a : ratom) (c : N) : bool :=
  match a with
  | RLit x => N.eqb x c
  | RClass rs => existsb (fun r => N.leb (fst r) c && N.leb c (snd r)) rs
  end.
Definition re_lit (s : str) : list (ratom * nat) := map (fun c => (RLit c, 1)) s.
Fixpoint match_rep (a : ratom) (n : nat) (s : str) : option str :=
  match n with
  | O => Some s
  | S n' => match s with c :: s' => if atom_ok a c then match_rep a n' s' else None | [] => None end
  end.
Fixpoint match_items (l : list (ratom * nat)) (s : str) : option str :=
  match l with
  | [] => Some s
  | (a, n) :: l' => match match_rep a n s with Some r => match_items l' r | None => None end
  end.
Definition fullmatch (items : list (ratom * nat)) (s : str) : bool :=
  match match_items items s with Some [] => true | _ => false end.
(* re.match("^" items "$", s): a match object or None (ends_lf: Model/Tofu.v) *)
Definition re_match_anchored (items : list (ratom * nat)) (s : str) : option unit :=
  if fullmatch items s || (ends_lf s && fullmatch items (removelast s)) then Some tt else None.

(* ---- a host table of the parsed TOML file, as import_toml reads it ---- *)
(* a value that may or may not be a Python int (isinstance(v, int)); dv is its value when it is *)
Record dynint := { dv : Z; dv_is_int : bool }.
Record pyentry := { pe_keys : list str; pe_host : str; pe_port : dynint; pe_fp : str; pe_first : str }.
Definition has_key (e : pyentry) (k : str) : bool := existsb (eqb k) (pe_keys e).
(* the model's view of an entry: e_complete says that the five required fields are present *)
Definition to_entry (e : pyentry) : entry :=
  {| e_host := pe_host e; e_port := dv (pe_port e); e_port_is_int := dv_is_int (pe_port e); e_fp := pe_fp e;
     e_first := pe_first e;
     e_complete := forallb (has_key e) [lit "hostname"; lit "port"; lit "fingerprint"; lit "first_seen"; lit "last_seen"] |}.
Definition to_entries (es : list (str * pyentry)) : list entry := map (fun ke => to_entry (snd ke)) es.

(* ---- the TOFU block of the client session ---- *)
(* how the block ends: the request is sent, or one of the two exceptions leaves it (messages are not kept);
   ODbError: an exception of a TOFUDatabase method passes through *)
Inductive sess_outcome :=
| OSend
| OChanged (h : str) (p : N) (old new : str)     (* CertificateChangedError(hostname, port, old, new) *)
| OConnectionError
| ODbError (kind : str).
Definition outcome_of (h : str) (p : N) (r : session_result) : sess_outcome :=
  match r with
  | SAccepted => OSend
  | SChanged old new => OChanged h p old new
  | SRefused => OConnectionError
  end.
(* protocol.get_peer_certificate(): None, or a certificate (represented by its fingerprint) *)
Definition presented_of (c : option str) : presented :=
  match c with Some fp => PCert fp | None => PUnreadable end.
