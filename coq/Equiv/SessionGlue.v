(* Hand-written glue between the definitions generated from client/session.py (Gen/SessionGen.v, written by
   translate/py2coq_session.py: GeminiClient.__init__, _get_single, upload as whole functions) and the model
   (Model/Session.v, Model/Tofu.v, Model/ClientProto.v).  Only vocabulary: the values the awaited library operations hand
   back (the oracles), what an observer of one call sees (events, outcome), Python's exception hierarchy as a walk over a
   table the translator emits, the model's view of an observation, and the model's client protocol packaged as the protocol
   object the generated functions are abstract in.  No lemmas: see Proofs/EquivSession_proofs.v. *)
From Coq Require Import List NArith ZArith Bool.
From Coq Require QArith.
From NV Require Import Prelude.Str Prelude.Res Prelude.Utf8 Model.Tofu Model.ClientProto Model.Session.
From NV Require Spec.C13.
Import ListNotations.

(* ---- configuration (GeminiClient.__init__) ---- *)
(* an ssl.SSLContext: the caller's own, or create_client_context(verify_mode = CERT_REQUIRED / CERT_NONE, check_hostname) *)
Inductive sslctx := CtxGiven (id : N) | CtxCreated (cert_required check_hostname : bool).
(* the attributes GeminiClient.__init__ assigns, all of them; cfg_tofu_db: None, or the TOFUDatabase object (its content is the
   store); a float is a rational, max_redirects a natural number (a negative int has no counterpart) *)
Record client_cfg := { cfg_timeout : QArith_base.Q; cfg_max_redirects : nat; cfg_verify_ssl : bool; cfg_trust_on_first_use : bool;
                       cfg_tofu_db : option unit; cfg_ssl_context : sslctx; cfg_decode_bodies : bool }.

(* upload(content: bytes | str) *)
Inductive pycontent := PStr (s : str) | PBytes (b : str).

(* what upload() computes before it connects (the model takes the request bytes as given): the content as bytes (None: str.encode
   refuses a lone surrogate), the titan:// form of the URL (None: neither scheme), the Titan URL with its parameters *)
Definition content_bytes (c : pycontent) : option str := match c with PStr s => encode s | PBytes b => Some b end.
Definition titan_base (url : str) : option str :=
  if prefixb (lit "gemini://") url then Some (lit "titan://" ++ drop 9 url)
  else if prefixb (lit "titan://") url then Some url else None.
Definition titan_url (base cb mime : str) (token : option str) : str :=
  let u := base ++ lit ";size=" ++ dec (N.of_nat (length cb)) ++ lit ";mime=" ++ mime in
  match token with Some ((_ :: _) as t) => u ++ lit ";token=" ++ t | _ => u end.

(* ---- the oracles: what the awaited library operations hand back ---- *)
(* await asyncio.wait_for(loop.create_connection(lambda: protocol, ...), timeout): the connection is made and the
   protocol's connection_made has run, or an exception of class cls leaves it (TimeoutError when wait_for gives up) *)
Inductive conn_outcome := ConnOk | ConnFail (cls : str).
(* await asyncio.wait_for(response_future, timeout): the future's result, the exception the protocol set on it (by the
   model's label), or wait_for gives up (the peer stalls) *)
Inductive wait_outcome := WResult (r : cresp) | WExc (kind : str) | WTimeout.

(* ---- exceptions ---- *)
Inductive pyexc :=
| XNew (cls : str)                            (* raise cls(<message>)            - raised by the session code itself *)
| XNewFrom (cls : str) (cause : pyexc)        (* raise cls(<message>) from cause *)
| XChanged (h : str) (p : N) (old new : str)  (* raise CertificateChangedError(h, p, old, new) *)
| XLib (cls : str)                            (* leaves a library call (parse_url, create_connection, wait_for, TOFUDatabase, encode) *)
| XFuture (kind : str).                       (* was set on the response future by the client protocol; kind: the model's label *)

(* class of the exception behind a label of Model/ClientProto.v ("conn:" ++ c: the exception of class c that was passed to
   connection_lost; the others are constructed by the protocol: ValueError for the header errors, ConnectionError, Exception;
   "decode" is a UnicodeDecodeError or a LookupError: no class of the table) *)
Definition future_class (k : str) : str :=
  if prefixb (lit "conn:") k then drop 5 k
  else if eqb k (lit "closed_before_header") then lit "ConnectionError"
  else if eqb k (lit "too_large") then lit "Exception"
  else if eqb k (lit "decode") then lit "UnicodeDecodeError|LookupError"
  else lit "ValueError".
Definition exc_class (e : pyexc) : str :=
  match e with
  | XNew c => c | XNewFrom c _ => c | XLib c => c
  | XChanged _ _ _ _ => lit "CertificateChangedError"
  | XFuture k => future_class k
  end.
(* issubclass over a table class -> direct bases (emitted by the translator, which checks it against the interpreter) *)
Fixpoint subclass_fuel (n : nat) (bases : list (str * list str)) (c target : str) : bool :=
  eqb c target ||
  match n with
  | O => false
  | S n' => match find (fun x => eqb c (fst x)) bases with
            | Some (_, bs) => existsb (fun b => subclass_fuel n' bases b target) bs
            | None => false
            end
  end.
Definition subclass (bases : list (str * list str)) (c target : str) : bool := subclass_fuel (length bases) bases c target.
(* `except target:` catches e *)
Definition catches (bases : list (str * list str)) (e : pyexc) (target : str) : bool := subclass bases (exc_class e) target.

(* ---- what an observer of one call sees, in order ---- *)
Inductive gevent :=
| GProto (send_on_connect : bool)                    (* the protocol object is constructed *)
| GConnect (ctx : sslctx) (host : str) (port : N) (server_hostname : str)   (* loop.create_connection is awaited *)
| GWrite (b : str)                                   (* the protocol writes b to the transport *)
| GProtoClose                                        (* the protocol closes the transport (never in connection_made / send_request of the model) *)
| GEscape (kind : str)                               (* an exception escapes a protocol method *)
| GCert (c : option str)                             (* protocol.get_peer_certificate() returned c *)
| GVerify (v : bool * str)                           (* tofu_db.verify returned v = (is_valid, message) *)
| GTrust                                             (* tofu_db.trust returned *)
| GSend                                              (* the session calls protocol.send_request() *)
| GWait                                              (* asyncio.wait_for(response_future) is awaited *)
| GRaise (e : pyexc)                                 (* e is raised (at the place where it originates) *)
| GClose.                                            (* the session calls transport.close() *)
Inductive outcome := Returned (r : cresp) | Raised (e : pyexc).

Definition gevents (a : list caction) : list gevent :=
  map (fun x => match x with CWrite b => GWrite b | CClose => GProtoClose | CEscape k => GEscape k end) a.
Definition escaped (a : list caction) : option str :=
  match find (fun x => match x with CEscape _ => true | _ => false end) a with Some (CEscape k) => Some k | _ => None end.

Definition is_write (e : gevent) : bool := match e with GWrite _ => true | _ => false end.
Definition is_verify (e : gevent) : bool := match e with GVerify _ => true | _ => false end.
Definition closes (t : list gevent) : nat := length (filter (fun e => match e with GClose => true | _ => false end) t).
Definition protos (t : list gevent) : list bool := flat_map (fun e => match e with GProto b => [b] | _ => [] end) t.

(* ---- the model's view (Model/Session.v) of an observation ---- *)
(* SVerified SAccepted: tofu_db.verify returned is_valid = True - for a pinned host at once, on first use when tofu_db.trust has
   returned (the model's check pins before it accepts);  SVerified (SChanged ..): the session raises CertificateChangedError;
   SVerified SRefused: it raises ConnectionError itself (not `from` a library exception).  Sending is not a verdict. *)
Definition sview (t : list gevent) : list sevent :=
  flat_map (fun e => match e with
                     | GWrite b => [SWrite b]
                     | GVerify (true, m) => if eqb m (lit "first_use") then [] else [SVerified SAccepted]
                     | GTrust => [SVerified SAccepted]
                     | GRaise (XChanged _ _ o n) => [SVerified (SChanged o n)]
                     | GRaise (XNew c) => if eqb c (lit "ConnectionError") then [SVerified SRefused] else []
                     | _ => []
                     end) t.
(* a TimeoutError raised `from` an exception of the future keeps its class: the model's result is that exception's label *)
Definition call_view (o : outcome) : option call_result :=
  match o with
  | Returned r => Some (CallResult (ROk r))
  | Raised (XFuture k) => Some (CallResult (RErr k))
  | Raised (XNewFrom c (XFuture k)) => if eqb c (lit "TimeoutError") then Some (CallResult (RErr k)) else None
  | Raised (XChanged _ _ o n) => Some (CallChanged o n)
  | Raised (XNew c) => if eqb c (lit "ConnectionError") then Some CallRefused else None
  | _ => None
  end.
Definition model_view (r : store * outcome * list gevent) : option (store * call_result * list sevent) :=
  let '(s, o, t) := r in match call_view o with Some c => Some (s, c, sview t) | None => None end.

(* ---- the model's client protocol as the protocol object of the generated functions ---- *)
Record mproto := { mp_soc : bool; mp_db : bool; mp_st : cst }.
(* GeminiClientProtocol(url, future, decode_body=, send_on_connect=) / TitanClientProtocol(url, content, future, send_on_connect=):
   the request bytes are the model's parameter `request` (Equiv/EquivClient.v ties them to the url) *)
Definition m_new (url : str) (decode_body soc : bool) : mproto := {| mp_soc := soc; mp_db := decode_body; mp_st := cinit |}.
Definition m_new_titan (url content : str) (soc : bool) : mproto := {| mp_soc := soc; mp_db := true; mp_st := cinit |}.
Section MProto.
Variable request : list str.
Variable cap : N.
Variable decode_with : str -> str -> option str.
Definition m_step (e : cevent) (p : mproto) : mproto * list caction :=
  let (c, a) := cstep request (mp_soc p) (mp_db p) cap decode_with (mp_st p) e in
  ({| mp_soc := mp_soc p; mp_db := mp_db p; mp_st := c |}, a).
(* the peer sends chunks and ends the connection with exc: what wait_for(response_future) returns *)
Definition m_wait (chunks : list str) (exc : option str) (p : mproto) : wait_outcome :=
  match cfut (Spec.C13.deliver (mp_db p) cap decode_with (mp_st p) chunks exc) with
  | Done (ROk r) => WResult r
  | Done (RErr k) => WExc k
  | Pending => WTimeout
  end.
End MProto.
