(* Gen = Model for the trust store (security/tofu.py, class TOFUDatabase) and for the TOFU block of the client session
   (client/session.py: _get_single, upload).  Gen/TofuGen.v is regenerated from /repo's current source on every run by
   translate/py2coq_tofu.py; statements only here, the proofs are in Proofs/EquivTofu_proofs.v.

   A generated database method  gen_m s args  returns the statements the method issues on a store s (in order) together with
   its Python return value (Ok v; Err: an exception leaves the method).  The model side is Model/Tofu.v. *)
From Coq Require Import List NArith ZArith Bool.
From NV Require Import Prelude.Str Prelude.Res Model.Tofu Equiv.TofuGlue Gen.TofuGen.
From NV Require Proofs.EquivTofu_proofs.
Import ListNotations.
Open Scope list_scope.

(* trust: the model's statements, and it returns (None) *)
Theorem trust_tie : forall s h p fp now, gen_trust s h p fp now = (trust_stmts s h p fp now, Ok tt).
Proof. exact EquivTofu_proofs.trust_tie. Qed.
Print Assumptions trust_tie.

(* verify: the model's statements and the model's verdict, as the pair (is_valid, message) *)
Theorem verify_tie : forall s h p fp now,
  gen_verify s h p fp now = (snd (verify s h p fp), Ok (verdict_py (fst (verify s h p fp)))).
Proof. exact EquivTofu_proofs.verify_tie. Qed.
Print Assumptions verify_tie.

(* revoke / revoke_by_hostname / clear: the statement lists Extract/Dispatch.v and Props/C12.v use for them; the return
   values are cursor.rowcount (TofuGlue.rowcount) *)
Theorem revoke_tie : forall s h p,
  gen_revoke s h p = ([SDelete h p; SCommit], Ok (match lookup s h p with Some _ => true | None => false end)).
Proof. exact EquivTofu_proofs.revoke_tie. Qed.
Print Assumptions revoke_tie.

Theorem revoke_by_hostname_tie : forall s h,
  gen_revoke_by_hostname s h = ([SDeleteHost h; SCommit], Ok (length (filter (fun r => eqb h (r_host r)) s))).
Proof. exact EquivTofu_proofs.revoke_by_hostname_tie. Qed.
Print Assumptions revoke_by_hostname_tie.

Theorem clear_tie : forall s, gen_clear s = ([SDeleteAll; SCommit], Ok (length s)).
Proof. exact EquivTofu_proofs.clear_tie. Qed.
Print Assumptions clear_tie.

(* get_host_info (used by the session block): no statement, the row of the key *)
Theorem get_host_info_tie : forall s h p, gen_get_host_info s h p = ([], Ok (lookup s h p)).
Proof. exact EquivTofu_proofs.get_host_info_tie. Qed.
Print Assumptions get_host_info_tie.

(* _validate_fingerprint.  Finding of this tie: the pattern ^sha256:[0-9a-f]{64}$ is applied with re.match, whose `$` also
   matches before a final line feed, so "sha256:" + 64 hex digits + "\n" is accepted (and stored by import_toml); the model's
   fp_valid was changed to follow the code (Tofu.fp_strict is the strict format). *)
Theorem validate_fingerprint_tie : forall fp, gen_validate_fingerprint fp = fp_valid fp.
Proof. exact EquivTofu_proofs.validate_fingerprint_tie. Qed.
Print Assumptions validate_fingerprint_tie.

(* import_toml, from the first statement of its transaction: the optional DELETE, the per-entry loop, the COMMIT.
   `obs` keeps the statements and whether the method returned; the entries are the host tables of the parsed file
   (TofuGlue.pyentry; to_entry is the model's view of one).  Stated with the model's fp_valid for the callee
   self._validate_fingerprint, and with the generated _validate_fingerprint. *)
Theorem import_toml_tie : forall cb s merge es now,
  obs (gen_import_toml fp_valid s merge cb es now) = import_stmts cb s merge (to_entries es).
Proof. exact EquivTofu_proofs.import_toml_tie. Qed.
Print Assumptions import_toml_tie.

Theorem import_toml_code_tie : forall cb s merge es now,
  obs (gen_import_toml gen_validate_fingerprint s merge cb es now) = import_stmts cb s merge (to_entries es).
Proof. exact EquivTofu_proofs.import_toml_code_tie. Qed.
Print Assumptions import_toml_code_tie.

(* the TOFU block of GeminiClient._get_single and of GeminiClient.upload (between reading the peer certificate and sending
   the request), with the three TOFUDatabase methods instantiated by the GENERATED ones: the store it leaves and the way it
   ends are the model's tofu_check (OSend: the request is sent; OChanged h p old new: CertificateChangedError(h, p, old, new);
   OConnectionError: the certificate could not be read) *)
Theorem get_single_tofu_tie : forall s h p c now,
  gen_get_single_tofu (fun s h p c => gen_verify s h p c now) gen_get_host_info (fun s h p c => gen_trust s h p c now) s h p c
  = (fst (tofu_check s h p (presented_of c) now), outcome_of h p (snd (tofu_check s h p (presented_of c) now))).
Proof. exact EquivTofu_proofs.get_single_tofu_tie. Qed.
Print Assumptions get_single_tofu_tie.

Theorem upload_tofu_tie : forall s h p c now,
  gen_upload_tofu (fun s h p c => gen_verify s h p c now) gen_get_host_info (fun s h p c => gen_trust s h p c now) s h p c
  = (fst (tofu_check s h p (presented_of c) now), outcome_of h p (snd (tofu_check s h p (presented_of c) now))).
Proof. exact EquivTofu_proofs.upload_tofu_tie. Qed.
Print Assumptions upload_tofu_tie.
