(* Gen = Model for content/gemtext.py (Gen/GemtextGen.v, regenerated on every run by translate/py2coq_gemtext.py).
   Statements only; the proofs are in Proofs/EquivGemtext_proofs.v.

   gen_generate_directory_listing takes the library record `gemlib` first; here it is instantiated by
   GemtextGlue.model_gemlib: the reading of is_dir() / iterdir() / stat().st_size over Model/Fs.v.  The float
   operations of _format_file_size are glue functions on exact dyadic rationals (GemtextGlue.v, section 1); the
   structure of the function - the loop over the units, the thresholds, which format where - is translated.
   The vocabulary of the statements (lift, norm_exc) is defined in Equiv/GemtextGlue.v. *)
From Coq Require Import List NArith ZArith Bool.
From NV Require Import Prelude.Str Prelude.Res Prelude.Utf8 Model.Fs Model.Static Model.Listing.
From NV Require Import Equiv.GemtextGlue Gen.GemtextGen.
From NV Require Equiv.StaticGlue Gen.StaticGen.
From NV Require Proofs.EquivGemtext_proofs.
Import ListNotations.

(* _format_file_size: exact, for every size (sizes of 2^53 and more are rounded to a float first, as in Python) *)
Theorem format_file_size_tie : forall n, gen_format_file_size n = Ok (format_file_size n).
Proof. exact EquivGemtext_proofs.format_file_size_tie. Qed.
Print Assumptions format_file_size_tie.

(* generate_directory_listing: the whole function (directory test, base path normalisation, header, parent link,
   the sort with its key, the empty case, the entry lines with _format_file_size as generated, the join); the text
   is exact; an exception is compared as such (class and message are not: the one caller catches `Exception`).
   No hypothesis. *)
Theorem listing_tie : forall f d base,
  norm_exc (gen_generate_directory_listing model_gemlib f d base) = lift (listing_text format_file_size f d base).
Proof. exact EquivGemtext_proofs.listing_tie. Qed.
Print Assumptions listing_tie.

(* ... and it never leaves the model *)
Theorem listing_in_model : forall f d base, gen_generate_directory_listing model_gemlib f d base <> OutOfModel.
Proof. exact EquivGemtext_proofs.listing_in_model. Qed.
Print Assumptions listing_in_model.

(* the call site.  py2coq_static.py translates StaticFileHandler.handle with generate_directory_listing as the field
   l_listing of its library record; the instance the static ties are about (StaticGlue.m_listing: the abstract body
   `GListing d base`, or an exception) is the generated function, on every real directory *)
Theorem static_listing_tie : forall f d base, lstat f d = Some Dir ->
  StaticGlue.m_listing f d base =
  match gen_generate_directory_listing model_gemlib f d base with
  | Ok _ => Ok (StaticGlue.GListing d base)
  | Err _ _ => Err StaticGlue.e_os (lit "stat")
  | OutOfModel => OutOfModel
  end.
Proof. exact EquivGemtext_proofs.static_listing_tie. Qed.
Print Assumptions static_listing_tie.

(* a listing response of the generated handle(): the generated generate_directory_listing is applied to the directory
   d of the model's outcome and to the REQUEST PATH, it succeeds, and its text is the model's listing_text - the
   object of Proofs/C02_listing.v (no file content; names and sizes of d's entries only) *)
Theorem handle_listing_tie : forall flt tok c f url d,
  handle c f url = OListing d ->
  StaticGlue.norm_resp (StaticGen.gen_handle (StaticGlue.model_lib flt tok) c f url)
    = Ok (StaticGlue.mk_gresp 20 (lit "text/gemini") (StaticGlue.GListing d url)) /\
  exists t, gen_generate_directory_listing model_gemlib f d url = Ok t /\
            listing_text format_file_size f d url = Some t.
Proof. exact EquivGemtext_proofs.handle_listing_tie. Qed.
Print Assumptions handle_listing_tie.
