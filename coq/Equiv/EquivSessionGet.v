(* GeminiClient.get as a whole = the model's Redirect.get: the composition of two translations regenerated on every run -
   gen_get / gen_init (Gen/SessionGen.v, translate/py2coq_session.py: the validation, the dispatch on follow_redirects, the
   max_redirects the constructor stored) and gen_get_with_redirects (Gen/PyGen.v, translate/py2coq.py: the redirect walk; its
   `redirect_chain=None` default is the empty chain).  _get_single is `fetch` (any server behaviour, may depend on the hop).
   Statement only; the proof is in Proofs/EquivSessionGet_proofs.v.  This file depends on BOTH generated files. *)
From Coq Require Import List NArith ZArith Bool.
From NV Require Import Prelude.Str Prelude.Res Model.Redirect Equiv.SessionGlue Gen.SessionGen Gen.PyGen.
From NV Require Model.Url Equiv.Equiv Proofs.EquivSessionGet_proofs.
Import ListNotations.
Open Scope list_scope.

(* for a client constructed with max_redirects = mr (any value: 0 means "follow none") and a URL that passes both validations:
   the outcome of get(url, follow_redirects) is the model's, with that mr as the bound of the walk *)
Theorem get_redirect_tie : forall vu pu fetch to mr c v t d url pr follow,
  (forall i u m, fetch i u <> Err (lit "OutOfFuel") m) ->
  vu url = Ok tt -> pu url = Ok pr -> vu (Url.p_norm pr) = Ok tt ->
  NV.Equiv.Equiv.outcome_of
    (gen_get vu pu (fun u m ch => gen_get_with_redirects fetch (S (S m)) u m (match ch with Some l => l | None => [] end)) (fetch 0)
       (gen_init to mr c v t d) url follow)
  = fst (Redirect.get fetch follow mr url).
Proof. exact EquivSessionGet_proofs.get_redirect_tie. Qed.
Print Assumptions get_redirect_tie.
