(* Hand-written glue between the definitions generated from content/gemtext.py (Gen/GemtextGen.v, written by
   translate/py2coq_gemtext.py) and Model/Listing.v.

   1. `num`: the Python numbers of _format_file_size (an int that becomes a float at the first `/= 1024.0`), with the
      operations the translator emits: exact comparison, division by a power of two, the '.0f' / '.1f' formats.
      THE FLOAT ARITHMETIC IS NOT TRANSLATED GENERICALLY: the translator compiles the structure of the function (the
      loop over the units, the two thresholds, which format is used where, the unit suffixes) and maps the three
      float operations to the functions below, which compute on exact dyadic rationals m / 2^e.
      Reading: int -> float is round-to-nearest-even at 53 bits (Listing.round53); x / 2^k is exact (no underflow can
      occur for e < 1000, the function divides at most four times by 2^10); int-with-float comparison is exact in
      CPython; '.0f' / '.1f' are correctly rounded, ties to even on the exact binary value (Listing.f0 / f1).
   2. `gemlib`: the record of the world-dependent pathlib calls of generate_directory_listing, the first argument of
      the generated function, and `model_gemlib`, its instance over Model/Fs.v - THE TRUSTED READING of what
      is_dir() / iterdir() / stat().st_size do, in the model's terms.
   3. sorted(xs, key=...) : the keys are computed first, in order (an exception of a key ends the call), then a
      stable sort by key (Listing.sort_by). *)
From Coq Require Import List NArith ZArith Bool.
From NV Require Import Prelude.Str Prelude.Res Model.Fs Model.Static Model.Listing.
Import ListNotations.
Open Scope N_scope.

(* ------------------------------------------------------------------ 1. numbers *)
Inductive num :=
| NInt (n : N)          (* a Python int *)
| NFlt (m e : N).       (* the float m / 2^e, exactly *)
(* the exact value, as a dyadic rational *)
Definition num_exact (x : num) : N * N := match x with NInt n => (n, 0) | NFlt m e => (m, e) end.
(* the value as a float: an int is rounded *)
Definition num_flt (x : num) : N * N := match x with NInt n => (round53 n, 0) | NFlt m e => (m, e) end.
(* a < b : exact, also between an int and a float *)
Definition num_ltb (a b : num) : bool :=
  let (ma, ea) := num_exact a in let (mb, eb) := num_exact b in ma * 2 ^ eb <? mb * 2 ^ ea.
(* x / 2.0^k : true division always yields a float *)
Definition num_div_pow2 (x : num) (k : N) : num := let (m, e) := num_flt x in NFlt m (e + k).
(* f"{x:.0f}" / f"{x:.1f}" : int.__format__ with a float presentation type converts to float first *)
Definition fmt_f0 (x : num) : str := let (m, e) := num_flt x in f0 m e.
Definition fmt_f1 (x : num) : str := let (m, e) := num_flt x in f1 m e.

(* ------------------------------------------------------------------ 2. the library record *)
Record gemlib := {
  gl_is_dir : fs -> path -> res bool;             (* p.is_dir()        (follows links) *)
  gl_iterdir : fs -> path -> res (list path);     (* list(p.iterdir()) (the order is the operating system's) *)
  gl_st_size : fs -> path -> res N                (* p.stat().st_size  (follows links) *)
}.

Definition e_os : str := lit "OSError".
(* is_dir(): stat through links (Listing.kstat: the kernel's resolution); ENOENT / ENOTDIR / ELOOP are answered False.  (On a link whose target crosses a name
   of more than 255 bytes the real is_dir() raises instead; stat() of that entry raises too, and every exception of
   generate_directory_listing has the same consequence, so the model does not distinguish.) *)
Definition mg_is_dir (f : fs) (p : path) : res bool :=
  Ok (match kstat f p with Some Dir => true | _ => false end).
(* iterdir() of a real directory: p / name for every direct entry.  A p that is itself a link is outside the
   model's domain (see Model/Listing.v): answered like a non-directory. *)
Definition mg_iterdir (f : fs) (p : path) : res (list path) :=
  match lstat f p with
  | Some Dir => Ok (map (fun ch => p ++ [fst ch]) (children f p))
  | _ => Err e_os (lit "scandir")
  end.
(* st_size: the length of the content of the regular file the path leads to; the size of a directory is not
   modelled (the code asks for it only after is_dir() answered False) *)
Definition mg_st_size (f : fs) (p : path) : res N :=
  match kstat f p with
  | Some (File c) => Ok (N.of_nat (length c))
  | Some Dir => OutOfModel
  | _ => Err e_os (lit "stat")
  end.
Definition model_gemlib : gemlib := {| gl_is_dir := mg_is_dir; gl_iterdir := mg_iterdir; gl_st_size := mg_st_size |}.

(* str(p) of an absolute pathlib.Path given by its components *)
Definition path_str (p : path) : str := ch_slash :: join_with [ch_slash] p.

(* ------------------------------------------------------------------ 3. sorted *)
Fixpoint map_res {A B} (g : A -> res B) (l : list A) : res (list B) :=
  match l with
  | [] => Ok []
  | x :: r => match g x with
              | Ok y => match map_res g r with Ok ys => Ok (y :: ys) | Err k m => Err k m | OutOfModel => OutOfModel end
              | Err k m => Err k m
              | OutOfModel => OutOfModel
              end
  end.
Definition sorted_by_key {A K} (leb : K -> K -> bool) (keyf : A -> res K) (xs : list A) : res (list A) :=
  match map_res keyf xs with
  | Ok ks => Ok (map snd (sort_by leb (combine ks xs)))
  | Err k m => Err k m
  | OutOfModel => OutOfModel
  end.

(* ------------------------------------------------------------------ vocabulary of the tie statements *)
(* error texts are not compared: every exception of generate_directory_listing is an `Exception` for its one caller
   (StaticFileHandler.handle, `except Exception`), which answers 40 *)
Definition lift (o : option str) : res str := match o with Some t => Ok t | None => Err [] [] end.
Definition norm_exc (r : res str) : res str := match r with Err _ _ => Err [] [] | x => x end.
Close Scope N_scope.
