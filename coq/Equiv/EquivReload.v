(* `nauyaca serve --reload` (property C09, "through to the running server"): the definitions REGENERATED from /repo's
   current source by translate/py2coq_reload.py (coq/Gen/ReloadGen.v) compute the model of Model/Reload.v, over which
   Proofs/C09_reload.v proves that nothing but the reload flags is lost between the parent's command line and the child's.
     gen_server_args            __main__.py serve: `server_args = ["serve"]`, `skip_next = False`, the loop over sys.argv[2:]
     gen_server_args_of_argv    ... applied to sys.argv (gen_argv_lower: the lower bound of the slice)
     gen_declared_reload_flags  the option names typer declares for reload / reload_dir / reload_ext
     gen_build_command          server/reload/supervisor.py Supervisor._build_command
     nine boolean constants     structural checks of the path between them (serve -> run_with_reload -> Supervisor.__init__
                                -> self.server_args -> _build_command -> _start_server -> subprocess.Popen, no shell)
   Statements only; proofs in Proofs/EquivReload_proofs.v. *)
From Coq Require Import List NArith Bool String.
From NV Require Import Prelude.Str Model.Reload.
From NV Require Import Gen.ReloadGen.
From NV Require Proofs.EquivReload_proofs.
Import ListNotations.
Open Scope list_scope.

(* ================= the filter ================= *)
Theorem reload_server_args_tie : forall argv_tail, gen_server_args argv_tail = lit "serve" :: strip_reload argv_tail.
Proof. exact EquivReload_proofs.server_args_tie. Qed.
Print Assumptions reload_server_args_tie.

(* the loop starts after the program name and the sub-command *)
Theorem reload_argv_lower_tie : gen_argv_lower = 2%nat.
Proof. exact EquivReload_proofs.argv_lower_tie. Qed.
Print Assumptions reload_argv_lower_tie.

Theorem reload_server_args_of_argv_tie : forall prog cmd argv_tail,
  gen_server_args_of_argv (prog :: cmd :: argv_tail) = lit "serve" :: strip_reload argv_tail.
Proof. exact EquivReload_proofs.server_args_of_argv_tie. Qed.
Print Assumptions reload_server_args_of_argv_tie.

(* the flags the filter removes are the option names the command line declares: --reload (no value),
   --reload-dir and --reload-ext (one value each), and no alias *)
Theorem reload_declared_flags_tie : gen_declared_reload_flags = [(f_reload, false); (f_dir, true); (f_ext, true)].
Proof. exact EquivReload_proofs.declared_flags_tie. Qed.
Print Assumptions reload_declared_flags_tie.

(* ================= the child's command line ================= *)
Theorem reload_build_command_tie : forall exe args, gen_build_command exe args = child_command exe args.
Proof. exact EquivReload_proofs.build_command_tie. Qed.
Print Assumptions reload_build_command_tie.

(* composed: what Popen is given, from the parent's sys.argv *)
Theorem reload_child_argv_tie : forall exe prog cmd argv_tail,
  gen_build_command exe (gen_server_args_of_argv (prog :: cmd :: argv_tail)) = child_argv exe argv_tail.
Proof. exact EquivReload_proofs.child_argv_tie. Qed.
Print Assumptions reload_child_argv_tie.

(* ================= the path between them (structural checks of the source, see the translator) ================= *)
Theorem reload_serve_passes_filtered_args : serve_passes_filtered_args = true.
Proof. exact EquivReload_proofs.serve_passes_filtered_args_ok. Qed.
Print Assumptions reload_serve_passes_filtered_args.

Theorem reload_run_with_reload_resolves : run_with_reload_resolves = true.
Proof. exact EquivReload_proofs.run_with_reload_resolves_ok. Qed.
Print Assumptions reload_run_with_reload_resolves.

Theorem reload_run_with_reload_passes_unchanged : run_with_reload_passes_unchanged = true.
Proof. exact EquivReload_proofs.run_with_reload_passes_unchanged_ok. Qed.
Print Assumptions reload_run_with_reload_passes_unchanged.

Theorem reload_init_stores_unchanged : init_stores_unchanged = true.
Proof. exact EquivReload_proofs.init_stores_unchanged_ok. Qed.
Print Assumptions reload_init_stores_unchanged.

Theorem reload_server_args_assigned_once : server_args_assigned_once = true.
Proof. exact EquivReload_proofs.server_args_assigned_once_ok. Qed.
Print Assumptions reload_server_args_assigned_once.

Theorem reload_run_calls_start_server : run_calls_start_server = true.
Proof. exact EquivReload_proofs.run_calls_start_server_ok. Qed.
Print Assumptions reload_run_calls_start_server.

Theorem reload_popen_gets_build_command : popen_gets_build_command = true.
Proof. exact EquivReload_proofs.popen_gets_build_command_ok. Qed.
Print Assumptions reload_popen_gets_build_command.

Theorem reload_popen_no_shell : popen_no_shell = true.
Proof. exact EquivReload_proofs.popen_no_shell_ok. Qed.
Print Assumptions reload_popen_no_shell.

Theorem reload_popen_inherits_env_cwd : popen_inherits_env_cwd = true.
Proof. exact EquivReload_proofs.popen_inherits_env_cwd_ok. Qed.
Print Assumptions reload_popen_inherits_env_cwd.
