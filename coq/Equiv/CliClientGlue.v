(* Hand-written vocabulary for the client-side commands of the command line (src/nauyaca/__main__.py: `get` and the `tofu`
   sub-commands), shared by the definitions regenerated from the source (Gen/CliClientGen.v, written by
   translate/py2coq_cliclient.py) and by the model (Model/CliClient.v).  Only types and two total functions; no lemmas. *)
From Coq Require Import List NArith ZArith Bool.
From Coq Require QArith.
From NV Require Import Prelude.Str.
From NV Require Equiv.SessionGlue.
Import ListNotations.

(* ---- `get`: what the command hands to the library ---- *)
(* GeminiClient(timeout=, max_redirects=, verify_ssl=, trust_on_first_use=, client_cert=, client_key=) followed by
   client.get(url, follow_redirects=): every argument the command supplies (an argument it omits is the default of the callee's
   signature).  A float is a rational, max_redirects a natural number (a negative int has no counterpart, as in
   SessionGlue.client_cfg), a path is its text. *)
Record get_call := { gc_timeout : QArith_base.Q; gc_max_redirects : nat; gc_verify_ssl : bool; gc_trust_on_first_use : bool;
                     gc_client_cert : option str; gc_client_key : option str; gc_url : str; gc_follow_redirects : bool }.

(* what the library calls of the command's `try` block produce: every call returns and the response has this status, or one of
   them (the constructor, client.get, the display of the response) raises an exception of class cls *)
Inductive cli_outcome := OStatus (status : Z) | ORaised (cls : str).

(* how a command ends: it returns (exit status 0), raises typer.Exit(code), raises typer.Abort ("Aborted.", exit status 1), or an
   exception no handler catches leaves it (traceback, exit status 1) *)
Inductive cli_end := EDone | EExit (code : N) | EAbort | ECrash.
Definition exit_status (e : cli_end) : N := match e with EDone => 0%N | EExit c => c | EAbort => 1%N | ECrash => 1%N end.

(* `except target:` catches an exception of class cls; table class -> direct bases emitted by the translator *)
Definition catches (bases : list (str * list str)) (cls target : str) : bool := SessionGlue.subclass bases cls target.

(* ---- the `tofu` sub-commands: the calls a command makes, in order ---- *)
Inductive cmd_call :=
| CClient (verify_ssl trust_on_first_use : bool)            (* GeminiClient(verify_ssl=, trust_on_first_use=), other arguments default *)
| CConnect (host : str) (port : N) (server_hostname : str)  (* await loop.create_connection(.., host=, port=, ssl=client.ssl_context, server_hostname=) *)
| CPeerCert                                                 (* protocol.get_peer_certificate() *)
| CCloseTransport                                           (* transport.close() *)
| DbListHosts                                               (* TOFUDatabase().list_hosts() *)
| DbRevoke (hostname : str) (port : N)
| DbCountByHostname (hostname : str)
| DbRevokeByHostname (hostname : str)
| DbTrust (hostname : str) (port : N) (cert : str)          (* a certificate is its fingerprint, as in Model/Session.v *)
| DbClear
| DbGetHostInfo (hostname : str) (port : N)
| DbExportToml (file : str)
| DbImportToml (file : str) (merge : bool).                 (* on_conflict: see gen_tofu_import_on_conflict *)

(* ---- vocabulary of the statements of Equiv/EquivCliClient.v ---- *)
(* the first of the except clauses `handlers` (in source order) that catches an exception of class cls *)
Definition first_catching (bases : list (str * list str)) (handlers : list str) (cls : str) : option str :=
  find (fun t => catches bases cls t) handlers.
(* the exception a call raises, if any, is an Exception (not a KeyboardInterrupt / CancelledError / SystemExit) *)
Definition ordinary (bases : list (str * list str)) (exc : option str) : Prop :=
  forall c, exc = Some c -> catches bases c (lit "Exception") = true.
