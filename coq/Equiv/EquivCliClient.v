(* Gen = Model for the client-side commands of the command line (src/nauyaca/__main__.py: `get`, `tofu ...`).
   Gen/CliClientGen.v is regenerated from /repo's current source on every run by translate/py2coq_cliclient.py; statements only
   here, the proofs are in Proofs/EquivCliClient_proofs.v.

   `get` is a wiring layer over GeminiClient: gen_get_call is the arguments the command hands to the constructor and to
   client.get as functions of the command's parameters (the values typer parsed from the options: trusted), gen_get_precheck the
   exits before anything is constructed, gen_get_exit the exit status as a function of what the library calls of the try block
   produce.  The tofu sub-commands are tables: which TOFUDatabase method is called with which arguments, in which order, under
   which answers. *)
From Coq Require Import List NArith ZArith Bool.
From Coq Require QArith.
From NV Require Import Prelude.Str Equiv.CliClientGlue Model.CliClient Gen.CliClientGen.
From NV Require Equiv.SessionGlue Proofs.EquivCliClient_proofs.
Import ListNotations.
Open Scope list_scope.

(* ---------- get: every argument of GeminiClient(..) and client.get(..) is the option's value ---------- *)
Theorem cli_get_wiring_tie : forall url mr nr to vb tr vs cc ck,
  gen_get_call url mr nr to vb tr vs cc ck = get_wiring url mr nr to vb tr vs cc ck.
Proof. exact EquivCliClient_proofs.cli_get_wiring_tie. Qed.
Print Assumptions cli_get_wiring_tie.

(* redirects are followed iff --no-redirects is absent: for EVERY value of --max-redirects, 0 included *)
Theorem cli_get_follow : forall url mr nr to vb tr vs cc ck,
  gc_follow_redirects (gen_get_call url mr nr to vb tr vs cc ck) = negb nr.
Proof. exact EquivCliClient_proofs.cli_get_follow. Qed.
Print Assumptions cli_get_follow.

(* the client's bound is the option's value *)
Theorem cli_get_max : forall url mr nr to vb tr vs cc ck,
  gc_max_redirects (gen_get_call url mr nr to vb tr vs cc ck) = mr.
Proof. exact EquivCliClient_proofs.cli_get_max. Qed.
Print Assumptions cli_get_max.

(* --trust/--no-trust is trust_on_first_use, --verify-ssl/--no-verify-ssl is verify_ssl (C03 / C11 pass through here) *)
Theorem cli_get_trust : forall url mr nr to vb tr vs cc ck,
  gc_trust_on_first_use (gen_get_call url mr nr to vb tr vs cc ck) = tr /\
  gc_verify_ssl (gen_get_call url mr nr to vb tr vs cc ck) = vs.
Proof. exact EquivCliClient_proofs.cli_get_trust. Qed.
Print Assumptions cli_get_trust.

Theorem cli_get_rest : forall url mr nr to vb tr vs cc ck,
  gc_url (gen_get_call url mr nr to vb tr vs cc ck) = url /\
  gc_timeout (gen_get_call url mr nr to vb tr vs cc ck) = to /\
  gc_client_cert (gen_get_call url mr nr to vb tr vs cc ck) = cc /\
  gc_client_key (gen_get_call url mr nr to vb tr vs cc ck) = ck.
Proof. exact EquivCliClient_proofs.cli_get_rest. Qed.
Print Assumptions cli_get_rest.

(* a certificate without its key, or a key without its certificate: exit status 1, and the command makes no call at all *)
Theorem cli_get_precheck_tie : forall url mr nr to vb tr vs cc ck,
  gen_get_precheck url mr nr to vb tr vs cc ck = get_precheck cc ck.
Proof. exact EquivCliClient_proofs.cli_get_precheck_tie. Qed.
Print Assumptions cli_get_precheck_tie.

Theorem cli_get_cert_needs_key : forall run url mr nr to vb tr vs c,
  gen_get_command run url mr nr to vb tr vs (Some c) None = (None, 1%N) /\
  gen_get_command run url mr nr to vb tr vs None (Some c) = (None, 1%N).
Proof. exact EquivCliClient_proofs.cli_get_cert_needs_key. Qed.
Print Assumptions cli_get_cert_needs_key.

(* exit status: 0 exactly for a response with status < 40; every exception (each except clause, and an uncaught one) is 1 *)
Theorem cli_get_exit_tie : forall o, gen_get_exit o = get_exit o.
Proof. exact EquivCliClient_proofs.cli_get_exit_tie. Qed.
Print Assumptions cli_get_exit_tie.

Theorem cli_get_command_tie : forall run url mr nr to vb tr vs cc ck,
  gen_get_command run url mr nr to vb tr vs cc ck = get_command run url mr nr to vb tr vs cc ck.
Proof. exact EquivCliClient_proofs.cli_get_command_tie. Qed.
Print Assumptions cli_get_command_tie.

(* the declared defaults: MAX_REDIRECTS (protocol/constants.py), follow, TOFU on, CA verification off, 30 s *)
Theorem cli_get_defaults :
  gen_get_default_max_redirects = default_max_redirects /\ gen_get_default_max_redirects = gen_MAX_REDIRECTS /\
  gen_get_default_no_redirects = default_no_redirects /\ gen_get_default_trust_on_first_use = default_trust_on_first_use /\
  gen_get_default_verify_ssl = default_verify_ssl /\ gen_get_default_timeout = QArith_base.Qmake 30 1 /\
  gen_get_default_verbose = false /\ gen_get_default_client_cert = None /\ gen_get_default_client_key = None.
Proof. exact EquivCliClient_proofs.cli_get_defaults. Qed.
Print Assumptions cli_get_defaults.

(* which option strings are declared on which parameter *)
Theorem cli_get_options :
  gen_get_options =
  [(lit "url", []); (lit "max_redirects", [lit "--max-redirects"; lit "-r"]); (lit "no_redirects", [lit "--no-redirects"]);
   (lit "timeout", [lit "--timeout"; lit "-t"]); (lit "verbose", [lit "--verbose"; lit "-v"]);
   (lit "trust_on_first_use", [lit "--trust/--no-trust"]); (lit "verify_ssl", [lit "--verify-ssl/--no-verify-ssl"]);
   (lit "client_cert", [lit "--client-cert"]); (lit "client_key", [lit "--client-key"])].
Proof. exact EquivCliClient_proofs.cli_get_options. Qed.
Print Assumptions cli_get_options.

(* which except clause catches what, on the class table the translator emitted (and checked against the interpreter): the
   certificate-changed error and the session's ValueError / TimeoutError / ConnectionError each have a clause of their own; the
   typer.Exit raised for a status >= 40 is itself caught by `except Exception` (and re-raised with the same code) *)
Local Notation first_handler :=
  (first_catching gen_cli_exc_bases [lit "CertificateChangedError"; lit "ValueError"; lit "TimeoutError"; lit "ConnectionError"; lit "Exception"]).
Theorem cli_get_handler_classes :
  first_handler (lit "CertificateChangedError") = Some (lit "CertificateChangedError") /\
  first_handler (lit "ValueError") = Some (lit "ValueError") /\
  first_handler (lit "TimeoutError") = Some (lit "TimeoutError") /\
  first_handler (lit "ConnectionError") = Some (lit "ConnectionError") /\
  first_handler (lit "ConnectionRefusedError") = Some (lit "ConnectionError") /\
  first_handler (lit "ssl.SSLCertVerificationError") = Some (lit "ValueError") /\
  first_handler (lit "OSError") = Some (lit "Exception") /\
  first_handler (lit "typer.Exit") = Some (lit "Exception") /\
  first_handler (lit "KeyboardInterrupt") = None.
Proof. exact EquivCliClient_proofs.cli_get_handler_classes. Qed.
Print Assumptions cli_get_handler_classes.

(* ---------- tofu sub-commands: the TOFUDatabase calls made, in order, and how the command ends ---------- *)
Theorem cli_tofu_list_tie : forall nonempty, gen_tofu_list nonempty = tofu_list nonempty.
Proof. exact EquivCliClient_proofs.cli_tofu_list_tie. Qed.
Print Assumptions cli_tofu_list_tie.

(* --port given: revoke(hostname, port); omitted: count_by_hostname, then (unless 0) confirmation or --force, then revoke_by_hostname *)
Theorem cli_tofu_revoke_tie : forall hostname port force revoked count confirm deleted,
  gen_tofu_revoke hostname port force revoked count confirm deleted = tofu_revoke hostname port force revoked count confirm.
Proof. exact EquivCliClient_proofs.cli_tofu_revoke_tie. Qed.
Print Assumptions cli_tofu_revoke_tie.

(* clear() only under --force or after a confirming answer *)
Theorem cli_tofu_clear_tie : forall force confirm count, gen_tofu_clear force confirm count = tofu_clear force confirm.
Proof. exact EquivCliClient_proofs.cli_tofu_clear_tie. Qed.
Print Assumptions cli_tofu_clear_tie.

Theorem cli_tofu_info_tie : forall hostname port found, gen_tofu_info hostname port found = tofu_info hostname port found.
Proof. exact EquivCliClient_proofs.cli_tofu_info_tie. Qed.
Print Assumptions cli_tofu_info_tie.

(* an existing file is overwritten only under --force; `exc`: the database call raises an exception of that class (any subclass of
   Exception) *)
Theorem cli_tofu_export_tie : forall file force exists_ count exc, ordinary gen_cli_exc_bases exc ->
  gen_tofu_export file force exists_ count exc = tofu_export file force exists_ exc.
Proof. exact EquivCliClient_proofs.cli_tofu_export_tie. Qed.
Print Assumptions cli_tofu_export_tie.

(* import_toml(file, merge = not --replace, on_conflict = the handler below); --replace asks first unless --force *)
Theorem cli_tofu_import_tie : forall file replace force confirm counts exc, ordinary gen_cli_exc_bases exc ->
  gen_tofu_import file replace force confirm counts exc = tofu_import file replace force confirm exc.
Proof. exact EquivCliClient_proofs.cli_tofu_import_tie. Qed.
Print Assumptions cli_tofu_import_tie.

Theorem cli_tofu_import_on_conflict_tie : forall file replace force answer,
  gen_tofu_import_on_conflict file replace force answer = tofu_import_on_conflict force answer.
Proof. exact EquivCliClient_proofs.cli_tofu_import_on_conflict_tie. Qed.
Print Assumptions cli_tofu_import_on_conflict_tie.

(* trust: a client with CA verification AND the pin check off connects to hostname:port (server name = hostname), the certificate
   presented is pinned for exactly (hostname, port), the transport is closed on every path on which it was opened; no certificate,
   a failed connection or a failing trust(): exit status 1 *)
Theorem cli_tofu_trust_tie : forall hostname port conn cert exc,
  ordinary gen_cli_exc_bases exc -> (forall c, conn = SessionGlue.ConnFail c -> catches gen_cli_exc_bases c (lit "Exception") = true) ->
  gen_tofu_trust hostname port conn cert exc = tofu_trust hostname port conn cert exc.
Proof. exact EquivCliClient_proofs.cli_tofu_trust_tie. Qed.
Print Assumptions cli_tofu_trust_tie.

Theorem cli_tofu_defaults :
  gen_tofu_trust_default_port = 1965%N /\ gen_tofu_info_default_port = 1965%N /\ gen_tofu_revoke_default_port = None /\
  gen_tofu_revoke_default_force = false /\ gen_tofu_clear_default_force = false /\ gen_tofu_export_default_force = false /\
  gen_tofu_import_default_replace = false /\ gen_tofu_import_default_force = false.
Proof. exact EquivCliClient_proofs.cli_tofu_defaults. Qed.
Print Assumptions cli_tofu_defaults.

Theorem cli_tofu_options :
  gen_tofu_list_options = [] /\
  gen_tofu_revoke_options = [(lit "hostname", []); (lit "port", [lit "--port"; lit "-p"]); (lit "force", [lit "--force"; lit "-f"])] /\
  gen_tofu_trust_options = [(lit "hostname", []); (lit "port", [lit "--port"; lit "-p"])] /\
  gen_tofu_clear_options = [(lit "force", [lit "--force"; lit "-f"])] /\
  gen_tofu_info_options = [(lit "hostname", []); (lit "port", [lit "--port"; lit "-p"])] /\
  gen_tofu_export_options = [(lit "file", []); (lit "force", [lit "--force"; lit "-f"])] /\
  gen_tofu_import_options = [(lit "file", []); (lit "replace", [lit "--replace"]); (lit "force", [lit "--force"; lit "-f"])].
Proof. exact EquivCliClient_proofs.cli_tofu_options. Qed.
Print Assumptions cli_tofu_options.
