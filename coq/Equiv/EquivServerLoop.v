(* The transition function assembled from the translated methods of GeminiServerProtocol (Equiv/ServerLoop.v over
   Gen/ServerGen.v) IS the model's: statements only, proofs in Proofs/ServerLoop_proofs.v.
   `reenc_ok reenc` is the one assumed fact about CPython's lenient UTF-8 decoder (see send_response_tie). *)
From Coq Require Import List NArith ZArith Bool.
From NV Require Import Prelude.Str Prelude.Res Prelude.Utf8 Model.Url Model.Titan Model.ServerProto Equiv.ServerGlue Gen.ServerGen Equiv.ServerLoop.
From NV Require Proofs.ServerLoop_proofs.
Import ListNotations.

Definition reenc_ok (reenc : str -> str) : Prop :=
  forall m, (1024 < N.of_nat (length (encode_replace m)))%N ->
            reenc (take 1024 (encode_replace m)) = encode_replace_upto 1024 m.

Theorem gen_step_tie : forall reenc, reenc_ok reenc -> forall ip6 handler mw up ucf ip fp s e,
  gen_step reenc ip6 handler mw up ucf ip fp s e = step ip6 handler mw up ucf ip fp s e.
Proof. exact ServerLoop_proofs.gen_step_tie. Qed.
Print Assumptions gen_step_tie.

Theorem gen_run_tie : forall reenc, reenc_ok reenc -> forall ip6 handler mw up ucf ip fp evs s,
  gen_run reenc ip6 handler mw up ucf ip fp s evs = run ip6 handler mw up ucf ip fp s evs.
Proof. exact ServerLoop_proofs.gen_run_tie. Qed.
Print Assumptions gen_run_tie.

Theorem gen_final_tie : forall reenc, reenc_ok reenc -> forall ip6 handler mw up ucf ip fp evs s,
  gen_final reenc ip6 handler mw up ucf ip fp s evs = final ip6 handler mw up ucf ip fp s evs.
Proof. exact ServerLoop_proofs.gen_final_tie. Qed.
Print Assumptions gen_final_tie.

(* In these statements `ucf` ranges over every behaviour of the upload handler's CALL (None: an awaitable comes back; Some msg: it
   fails with that message before one exists): the generated transition function, with the translator's oracle instantiated by
   `upcall_of ucf`, is the model's for each of them. *)

(* the assumption is satisfiable: "the longest prefix that decodes strictly" is such a re-encoder *)
From NV Require Proofs.Reenc_exists.
Theorem reenc_ok_satisfiable : exists reenc, reenc_ok reenc.
Proof. exact Reenc_exists.reenc_exists. Qed.
Print Assumptions reenc_ok_satisfiable.
