(* Hand-written glue between the definitions generated from server/protocol.py (Gen/ServerGen.v) and the model
   (Model/ServerProto.v): one update function per record field (the translator's ATTRS table names them as the
   setters of the corresponding `self.<attribute>`), and the accessors of the optional Titan request. *)
From Coq Require Import List NArith ZArith Bool.
From NV Require Import Prelude.Str Prelude.Res Prelude.Utf8 Model.Url Model.Titan Model.ServerProto.
Import ListNotations.

Definition upd_buf (s : st) (b : str) : st :=
  {| buf := b; line_rcvd := line_rcvd s; await_titan := await_titan s; titan := titan s; content := content s;
     timer := timer s; tr := tr s; closing := closing s; sent := sent s; next_id := next_id s; pending := pending s |}.
Definition upd_line_rcvd (s : st) (b : bool) : st :=
  {| buf := buf s; line_rcvd := b; await_titan := await_titan s; titan := titan s; content := content s;
     timer := timer s; tr := tr s; closing := closing s; sent := sent s; next_id := next_id s; pending := pending s |}.
Definition upd_await (s : st) (b : bool) : st :=
  {| buf := buf s; line_rcvd := line_rcvd s; await_titan := b; titan := titan s; content := content s;
     timer := timer s; tr := tr s; closing := closing s; sent := sent s; next_id := next_id s; pending := pending s |}.
Definition upd_titan (s : st) (t : option treq) : st :=
  {| buf := buf s; line_rcvd := line_rcvd s; await_titan := await_titan s; titan := t; content := content s;
     timer := timer s; tr := tr s; closing := closing s; sent := sent s; next_id := next_id s; pending := pending s |}.
Definition upd_content (s : st) (c : str) : st :=
  {| buf := buf s; line_rcvd := line_rcvd s; await_titan := await_titan s; titan := titan s; content := c;
     timer := timer s; tr := tr s; closing := closing s; sent := sent s; next_id := next_id s; pending := pending s |}.
Definition upd_closing (s : st) (b : bool) : st :=
  {| buf := buf s; line_rcvd := line_rcvd s; await_titan := await_titan s; titan := titan s; content := content s;
     timer := timer s; tr := tr s; closing := b; sent := sent s; next_id := next_id s; pending := pending s |}.
Definition upd_sent (s : st) (b : bool) : st :=
  {| buf := buf s; line_rcvd := line_rcvd s; await_titan := await_titan s; titan := titan s; content := content s;
     timer := timer s; tr := tr s; closing := closing s; sent := b; next_id := next_id s; pending := pending s |}.
(* self.transport = None *)
Definition upd_transport (s : st) (b : bool) : st :=
  {| buf := buf s; line_rcvd := line_rcvd s; await_titan := await_titan s; titan := titan s; content := content s;
     timer := timer s; tr := b; closing := closing s; sent := sent s; next_id := next_id s; pending := pending s |}.

Definition tsize (s : st) : N := match titan s with Some t => t_size t | None => 0%N end.
Definition tline (s : st) : str := match titan s with Some t => t_line t | None => [] end.
Definition tnorm (s : st) : str := match titan s with Some t => titan_normalized t | None => [] end.

Definition mk_resp (status : Z) (meta : str) : resp := {| rs_status := status; rs_meta := meta; rs_body := BNone |}.

(* "<literal>".encode("utf-8") : only applied to string literals of the source (UnicodeEncodeError cannot occur) *)
Definition encode_total (s : str) : str := match encode s with Some b => b | None => [] end.
