(* Hand-written glue between the definitions generated from server/protocol.py (Gen/ServerGen.v) and the model
   (Model/ServerProto.v): one update function per record field (the translator's ATTRS table names them as the
   setters of the corresponding `self.<attribute>`), and the accessors of the optional Titan request. *)
From Coq Require Import List NArith ZArith Bool.
From NV Require Import Prelude.Str Prelude.Res Prelude.Utf8 Model.Url Model.Titan Model.ServerProto.
Import ListNotations.

Definition upd_buf (s : st) (b : str) : st :=
  {| buf := b; line_rcvd := line_rcvd s; await_titan := await_titan s; titan := titan s; content := content s;
     timer := timer s; tr := tr s; closing := closing s; sent := sent s; next_id := next_id s; pending := pending s |}.
Definition upd_line_rcvd (s : st) (b : bool) : st :=
  {| buf := buf s; line_rcvd := b; await_titan := await_titan s; titan := titan s; content := content s;
     timer := timer s; tr := tr s; closing := closing s; sent := sent s; next_id := next_id s; pending := pending s |}.
Definition upd_await (s : st) (b : bool) : st :=
  {| buf := buf s; line_rcvd := line_rcvd s; await_titan := b; titan := titan s; content := content s;
     timer := timer s; tr := tr s; closing := closing s; sent := sent s; next_id := next_id s; pending := pending s |}.
Definition upd_titan (s : st) (t : option treq) : st :=
  {| buf := buf s; line_rcvd := line_rcvd s; await_titan := await_titan s; titan := t; content := content s;
     timer := timer s; tr := tr s; closing := closing s; sent := sent s; next_id := next_id s; pending := pending s |}.
Definition upd_content (s : st) (c : str) : st :=
  {| buf := buf s; line_rcvd := line_rcvd s; await_titan := await_titan s; titan := titan s; content := c;
     timer := timer s; tr := tr s; closing := closing s; sent := sent s; next_id := next_id s; pending := pending s |}.
Definition upd_closing (s : st) (b : bool) : st :=
  {| buf := buf s; line_rcvd := line_rcvd s; await_titan := await_titan s; titan := titan s; content := content s;
     timer := timer s; tr := tr s; closing := b; sent := sent s; next_id := next_id s; pending := pending s |}.
Definition upd_sent (s : st) (b : bool) : st :=
  {| buf := buf s; line_rcvd := line_rcvd s; await_titan := await_titan s; titan := titan s; content := content s;
     timer := timer s; tr := tr s; closing := closing s; sent := b; next_id := next_id s; pending := pending s |}.
(* self.transport = None *)
Definition upd_transport (s : st) (b : bool) : st :=
  {| buf := buf s; line_rcvd := line_rcvd s; await_titan := await_titan s; titan := titan s; content := content s;
     timer := timer s; tr := b; closing := closing s; sent := sent s; next_id := next_id s; pending := pending s |}.

Definition tsize (s : st) : N := match titan s with Some t => t_size t | None => 0%N end.
Definition tline (s : st) : str := match titan s with Some t => t_line t | None => [] end.
Definition tnorm (s : st) : str := match titan s with Some t => titan_normalized t | None => [] end.

Definition mk_resp (status : Z) (meta : str) : resp := {| rs_status := status; rs_meta := meta; rs_body := BNone |}.

(* "<literal>".encode("utf-8") : only applied to string literals of the source (UnicodeEncodeError cannot occur) *)
Definition encode_total (s : str) : str := match encode s with Some b => b | None => [] end.

(* ---- results of completed tasks, as the callbacks see them through task.result() ---- *)
Inductive tres (A : Type) := TRet (a : A) | TExc (msg : str).
Arguments TRet {A} a.
Arguments TExc {A} msg.

(* ---- the call upload_handler.handle_upload(request) as the translator sees it: a `res unit` oracle of the connection.
   Ok tt = the call returned an awaitable (asyncio.create_task makes a task of it); Err _ msg = the call raised an exception
   with str() = msg before any awaitable existed (or asyncio.create_task refused what it returned: a TypeError with asyncio's
   text).  The model's Section variable up_call_fails is this oracle; the exception's class is not modelled (RuntimeError is
   outside the model, see the translator's docstring). ---- *)
Definition upcall_of (f : option str) : res unit :=
  match f with None => Ok tt | Some msg => Err (lit "Exception") msg end.

(* ---- views of a response body (str | bytes | None), used under the corresponding isinstance / truthiness guards ---- *)
Definition body_truthy (b : body) : bool := match b with BNone => false | BText [] => false | BBytes [] => false | _ => true end.
Definition body_is_bytes (b : body) : bool := match b with BBytes _ => true | _ => false end.
Definition body_raw (b : body) : str := match b with BBytes x => x | _ => [] end.
Definition body_text (b : body) : str := match b with BText x => x | _ => [] end.

(* ---- str methods ---- *)
Definition replace_ch (c1 c2 : N) (s : str) : str := map (fun c => if N.eqb c c1 then c2 else c) s.
(* s.isascii() and s.isdigit() : non-empty, ASCII digits only *)
Definition ascii_digits (s : str) : bool := match s with [] => false | _ => forallb is_digit s end.
(* int(s) for a string of ASCII digits (the only way it is called: under the guard above); None = ValueError *)
Definition py_int_digits (s : str) : option Z := option_map Z.of_N (undec s).

(* ---- a parsed Gemini request: GeminiRequest.from_line(line) keeps the line (raw_url) and the parsed URL ---- *)
Record req := { rq_line : str; rq_parsed : parsed }.
Definition request_from_line (ip6_check : str -> option str) (line : str) : res req :=
  match gemini_from_line ip6_check line with
  | Ok p => Ok {| rq_line := line; rq_parsed := p |}
  | Err k m => Err k m
  | OutOfModel => OutOfModel
  end.

(* ---- self.timeout_handle: None <-> the request timer is not armed ---- *)
Definition timer_live (s : st) : bool := match timer s with TArmed => true | _ => false end.
(* assignment to the handle: a new handle from loop.call_later (true) arms the timer; None (false) forgets it *)
Definition upd_timer_handle (s : st) (armed : bool) : st :=
  if armed then set_timer s TArmed else match timer s with TArmed => set_timer s TCancelled | _ => s end.
(* the object before __init__ has run: only the fields the model adds to the Python attributes have a value *)
Definition blank : st :=
  {| buf := []; line_rcvd := false; await_titan := false; titan := None; content := [];
     timer := TCancelled; tr := false; closing := false; sent := false; next_id := O; pending := [] |}.
