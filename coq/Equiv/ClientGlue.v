(* Hand-written glue between the definitions generated from client/protocol.py (Gen/ClientGen.v) and the model
   (Model/ClientProto.v).  Two kinds of definitions, both named in the tables of translate/py2coq_client.py:
   - one update function per field of the model's connection record `cst` (the setters of `self.<attribute>`),
     and the reading of the response future;
   - small executable models of the Python library calls the translated methods make on bytes / str values
     (first occurrence of a sub-sequence and what find / in / split(sep, 1) make of it, str.isdigit, int -> N). *)
From Coq Require Import List NArith ZArith Bool.
From NV Require Import Prelude.Str Prelude.Res Prelude.Utf8 Model.Titan Model.ClientProto.
Import ListNotations.

(* ---------- record updates ---------- *)
Definition upd_cbuf (s : cst) (b : str) : cst :=
  {| cbuf := b; hdr := hdr s; status := status s; meta := meta s; cfut := cfut s; connected := connected s |}.
Definition upd_hdr (s : cst) (h : bool) : cst :=
  {| cbuf := cbuf s; hdr := h; status := status s; meta := meta s; cfut := cfut s; connected := connected s |}.
Definition upd_status (s : cst) (v : option N) : cst :=
  {| cbuf := cbuf s; hdr := hdr s; status := v; meta := meta s; cfut := cfut s; connected := connected s |}.
Definition upd_meta (s : cst) (m : str) : cst :=
  {| cbuf := cbuf s; hdr := hdr s; status := status s; meta := m; cfut := cfut s; connected := connected s |}.
Definition upd_cfut (s : cst) (f : fut) : cst :=
  {| cbuf := cbuf s; hdr := hdr s; status := status s; meta := meta s; cfut := f; connected := connected s |}.
(* self.transport = <a transport> / None *)
Definition upd_connected (s : cst) (c : bool) : cst :=
  {| cbuf := cbuf s; hdr := hdr s; status := status s; meta := meta s; cfut := cfut s; connected := c |}.

(* self.response_future.done() *)
Definition fut_done (s : cst) : bool := match cfut s with Pending => false | Done _ => true end.

(* GeminiResponse(status=, meta=, body=, url=): the url is a constant of the connection and not part of the model's response *)
Definition mk_cresp (status : N) (meta : str) (body : cbody) : cresp :=
  {| cr_status := status; cr_meta := meta; cr_body := body |}.

(* ---------- library models ---------- *)
(* first occurrence of the non-empty sequence `sub` in `s`: (what precedes it, what follows it) *)
Fixpoint break_sub (sub s : str) {struct s} : option (str * str) :=
  if prefixb sub s then Some ([], drop (length sub) s)
  else match s with
       | [] => None
       | x :: s' => match break_sub sub s' with Some (a, b) => Some (x :: a, b) | None => None end
       end.
(* s.find(sub) *)
Definition py_find (sub s : str) : Z :=
  match break_sub sub s with Some (a, _) => Z.of_nat (length a) | None => (-1)%Z end.
(* sub in s *)
Definition contains (sub s : str) : bool :=
  match break_sub sub s with Some _ => true | None => false end.
(* s.split(sub, 1) *)
Definition split1 (sub s : str) : list str :=
  match break_sub sub s with Some (a, b) => [a; b] | None => [s] end.

(* str.isdigit(), judged on ASCII strings only (other scripts have digits too: None = outside the model) *)
Definition py_isdigit (s : str) : option bool :=
  if all_ascii s then Some (match s with [] => false | _ => forallb is_digit s end) else None.

(* a Python int stored in a field the model keeps as N: None = negative, which the model cannot represent *)
Definition z_to_N (z : Z) : option N :=
  match z with Z0 => Some 0%N | Zpos p => Some (Npos p) | Zneg _ => None end.
