(* Gen = Model for the methods of GeminiServerProtocol translated from /repo/src/nauyaca/server/protocol.py
   (Gen/ServerGen.v, regenerated on every run by translate/py2coq_server.py and py2coq_server2.py).  Statements only; the proofs are in
   Proofs/EquivServer_proofs.v.  The callees of each method are instantiated by the model's functions, so the
   theorems compose: the model's step function is the code's callbacks, method by method. *)
From Coq Require Import List NArith ZArith Bool.
From NV Require Import Prelude.Str Prelude.Res Prelude.Utf8 Model.Url Model.Titan Model.ServerProto Equiv.ServerGlue Gen.ServerGen.
From NV Require Proofs.EquivServer_proofs Proofs.EquivServer2_proofs.
Import ListNotations.

(* data_received *)
Theorem data_received_tie : forall ip6 handler mw up ucf ip fp s d,
  gen_data_received send_error (handle_titan_url ip6 mw up ucf ip fp) (handle_gemini ip6 handler mw ip fp)
                    (process_titan_upload mw up ucf ip fp) s d
  = data_received ip6 handler mw up ucf ip fp s d.
Proof. exact EquivServer_proofs.data_received_tie. Qed.
Print Assumptions data_received_tie.

(* _send_error_response *)
Theorem send_error_tie : forall s status msg,
  gen_send_error_response send_response s status msg = send_error s status msg.
Proof. exact EquivServer_proofs.send_error_tie. Qed.
Print Assumptions send_error_tie.

(* _handle_timeout: the callback of the request timer (it runs only when the timer is armed: loop.call_later) *)
Theorem handle_timeout_tie : forall ip6 handler mw up ucf ip fp s,
  timer s = TArmed ->
  step ip6 handler mw up ucf ip fp s ETimer = gen_handle_timeout (set_timer s TFired).
Proof. exact EquivServer_proofs.handle_timeout_tie. Qed.
Print Assumptions handle_timeout_tie.

(* connection_lost (asyncio calls it once, while the protocol still holds its transport) *)
Theorem connection_lost_tie : forall ip6 handler mw up ucf ip fp s,
  tr s = true ->
  step ip6 handler mw up ucf ip fp s ELost = gen_connection_lost s.
Proof. exact EquivServer_proofs.connection_lost_tie. Qed.
Print Assumptions connection_lost_tie.

(* _handle_titan_url *)
Theorem handle_titan_url_tie : forall ip6 mw up ucf ip fp s url,
  gen_handle_titan_url send_error (process_titan_upload mw up ucf ip fp) mw up ip fp ip6 s url
  = handle_titan_url ip6 mw up ucf ip fp s url.
Proof. exact EquivServer_proofs.handle_titan_url_tie. Qed.
Print Assumptions handle_titan_url_tie.

(* _process_titan_upload *)
Theorem process_titan_upload_tie : forall mw up ucf ip fp s,
  gen_process_titan_upload send_error (start_upload up ucf) mw up ip fp s = process_titan_upload mw up ucf ip fp s.
Proof. exact EquivServer_proofs.process_titan_upload_tie. Qed.
Print Assumptions process_titan_upload_tie.

(* _start_titan_upload.  The call of the upload handler is the oracle `upcall_of ucf` (Equiv/ServerGlue.v): for every value of
   the model's up_call_fails - the call yields an awaitable, or fails with any message before one exists - the code's method,
   including its `except Exception as e` clause, is the model's start_upload: the invocation is recorded, no task is created,
   and the answer is the one a failing task gets (Model.ServerProto.upload_failed) *)
Theorem start_titan_upload_tie : forall mw up ucf ip fp s,
  gen_start_titan_upload send_error mw up ip fp (upcall_of ucf) s = start_upload up ucf s.
Proof. exact EquivServer_proofs.start_titan_upload_tie. Qed.
Print Assumptions start_titan_upload_tie.

(* the four done-callbacks: the model's task_done, once the finished task has been taken off the pending list,
   is the code's callback applied to the task's (well-typed) result *)
Theorem handle_middleware_result_tie : forall handler up ucf s0 id rq rest,
  take_task id (pending s0) = (Some (TMw (rq_line rq)), rest) ->
  (forall allow text, task_done handler up ucf s0 id (OMw allow text) =
     gen_handle_middleware_result send_error send_rejection (fun s r => route handler s (rq_line r)) (set_pending s0 rest) (TRet (allow, text)) rq) /\
  (forall m, task_done handler up ucf s0 id (ORaise m) =
     gen_handle_middleware_result send_error send_rejection (fun s r => route handler s (rq_line r)) (set_pending s0 rest) (TExc m) rq).
Proof. exact EquivServer2_proofs.handle_middleware_result_tie. Qed.
Print Assumptions handle_middleware_result_tie.

Theorem handle_titan_middleware_result_tie : forall handler up ucf s0 id rest,
  take_task id (pending s0) = (Some TTitanMw, rest) ->
  (forall allow text, task_done handler up ucf s0 id (OMw allow text) =
     gen_handle_titan_middleware_result send_error send_rejection (start_upload up ucf) (set_pending s0 rest) (TRet (allow, text))) /\
  (forall m, task_done handler up ucf s0 id (ORaise m) =
     gen_handle_titan_middleware_result send_error send_rejection (start_upload up ucf) (set_pending s0 rest) (TExc m)).
Proof. exact EquivServer2_proofs.handle_titan_middleware_result_tie. Qed.
Print Assumptions handle_titan_middleware_result_tie.

Theorem handle_async_handler_result_tie : forall handler up ucf s0 id rq rest,
  take_task id (pending s0) = (Some (THandler (rq_line rq)), rest) ->
  (forall r, task_done handler up ucf s0 id (OResp r) =
     gen_handle_async_handler_result send_error send_response (set_pending s0 rest) (TRet r) rq) /\
  (forall m, task_done handler up ucf s0 id (ORaise m) =
     gen_handle_async_handler_result send_error send_response (set_pending s0 rest) (TExc m) rq).
Proof. exact EquivServer2_proofs.handle_async_handler_result_tie. Qed.
Print Assumptions handle_async_handler_result_tie.

Theorem handle_titan_upload_result_tie : forall handler up ucf s0 id rest,
  take_task id (pending s0) = (Some TUpload, rest) ->
  (forall r, task_done handler up ucf s0 id (OResp r) =
     gen_handle_titan_upload_result send_error send_response (set_pending s0 rest) (TRet r)) /\
  (forall m, task_done handler up ucf s0 id (ORaise m) =
     gen_handle_titan_upload_result send_error send_response (set_pending s0 rest) (TExc m)).
Proof. exact EquivServer2_proofs.handle_titan_upload_result_tie. Qed.
Print Assumptions handle_titan_upload_result_tie.

(* _handle_gemini_request *)
Theorem handle_gemini_request_tie : forall ip6 handler mw up ip fp s url,
  gen_handle_gemini_request send_error (fun s r => route handler s (rq_line r)) mw up ip fp ip6 s url = handle_gemini ip6 handler mw ip fp s url.
Proof. exact EquivServer2_proofs.handle_gemini_request_tie. Qed.
Print Assumptions handle_gemini_request_tie.

(* _route_request *)
Theorem route_request_tie : forall handler s rq,
  gen_route_request send_error send_response handler s rq = route handler s (rq_line rq).
Proof. exact EquivServer2_proofs.route_request_tie. Qed.
Print Assumptions route_request_tie.

(* _send_rejection *)
Theorem send_rejection_tie : forall s text,
  gen_send_rejection send_error send_response s text = send_rejection s text.
Proof. exact EquivServer2_proofs.send_rejection_tie. Qed.
Print Assumptions send_rejection_tie.

(* _send_response.  `reenc` stands for  b.decode("utf-8", errors="ignore").encode("utf-8")  (CPython's lenient decoder is
   not modelled); the hypothesis is the one fact about it that the model's encode_replace_upto re-states: applied to the
   first 1024 bytes of an over-long encoded meta it drops the cut-off trailing character. *)
Theorem send_response_tie : forall (reenc : str -> str),
  (forall m, (1024 < N.of_nat (length (encode_replace m)))%N ->
             reenc (take 1024 (encode_replace m)) = encode_replace_upto 1024 m) ->
  forall s r, gen_send_response reenc s r = send_response s r.
Proof. exact EquivServer2_proofs.send_response_tie. Qed.
Print Assumptions send_response_tie.

(* __init__ and connection_made: the freshly constructed object after connection_made IS the model's initial state - in
   particular the request timer is armed (loop.call_later(REQUEST_TIMEOUT, self._handle_timeout)), with REQUEST_TIMEOUT = 30 s *)
Theorem init_tie : gen_init blank = (blank, []).
Proof. exact EquivServer_proofs.init_tie. Qed.
Print Assumptions init_tie.

Theorem connection_made_tie : gen_connection_made (fst (gen_init blank)) = (init, []).
Proof. exact EquivServer_proofs.connection_made_tie. Qed.
Print Assumptions connection_made_tie.

Theorem request_timeout_value : gen_request_timeout_ms = 30000%N.
Proof. exact EquivServer_proofs.request_timeout_value. Qed.
Print Assumptions request_timeout_value.
