(* Gen = Model for the methods of GeminiServerProtocol translated from /repo/src/nauyaca/server/protocol.py
   (Gen/ServerGen.v, regenerated on every run by translate/py2coq_server.py).  Statements only; the proofs are in
   Proofs/EquivServer_proofs.v.  The callees of each method are instantiated by the model's functions, so the
   theorems compose: the model's step function is the code's callbacks, method by method. *)
From Coq Require Import List NArith ZArith Bool.
From NV Require Import Prelude.Str Prelude.Res Model.Url Model.Titan Model.ServerProto Equiv.ServerGlue Gen.ServerGen.
From NV Require Proofs.EquivServer_proofs.
Import ListNotations.

(* data_received *)
Theorem data_received_tie : forall ip6 handler mw up ip fp s d,
  gen_data_received send_error (handle_titan_url ip6 mw up ip fp) (handle_gemini ip6 handler mw ip fp)
                    (process_titan_upload mw up ip fp) s d
  = data_received ip6 handler mw up ip fp s d.
Proof. exact EquivServer_proofs.data_received_tie. Qed.
Print Assumptions data_received_tie.

(* _send_error_response *)
Theorem send_error_tie : forall s status msg,
  gen_send_error_response send_response s status msg = send_error s status msg.
Proof. exact EquivServer_proofs.send_error_tie. Qed.
Print Assumptions send_error_tie.

(* _handle_timeout: the callback of the request timer (it runs only when the timer is armed: loop.call_later) *)
Theorem handle_timeout_tie : forall ip6 handler mw up ip fp s,
  timer s = TArmed ->
  step ip6 handler mw up ip fp s ETimer = gen_handle_timeout (set_timer s TFired).
Proof. exact EquivServer_proofs.handle_timeout_tie. Qed.
Print Assumptions handle_timeout_tie.

(* connection_lost (asyncio calls it once, while the protocol still holds its transport) *)
Theorem connection_lost_tie : forall ip6 handler mw up ip fp s,
  tr s = true ->
  step ip6 handler mw up ip fp s ELost = gen_connection_lost s.
Proof. exact EquivServer_proofs.connection_lost_tie. Qed.
Print Assumptions connection_lost_tie.

(* _handle_titan_url *)
Theorem handle_titan_url_tie : forall ip6 mw up ip fp s url,
  gen_handle_titan_url send_error (process_titan_upload mw up ip fp) mw up ip fp ip6 s url
  = handle_titan_url ip6 mw up ip fp s url.
Proof. exact EquivServer_proofs.handle_titan_url_tie. Qed.
Print Assumptions handle_titan_url_tie.

(* _process_titan_upload *)
Theorem process_titan_upload_tie : forall mw up ip fp s,
  gen_process_titan_upload send_error (start_upload up) mw up ip fp s = process_titan_upload mw up ip fp s.
Proof. exact EquivServer_proofs.process_titan_upload_tie. Qed.
Print Assumptions process_titan_upload_tie.

(* _start_titan_upload *)
Theorem start_titan_upload_tie : forall mw up ip fp s,
  gen_start_titan_upload mw up ip fp s = start_upload up s.
Proof. exact EquivServer_proofs.start_titan_upload_tie. Qed.
Print Assumptions start_titan_upload_tie.
