(* Hand-written glue between the definitions generated from server/tls_protocol.py (Gen/TlsGen.v, written by
   translate/py2coq_tls.py) and the model Model/TlsPump.v.

   1. `pst`: the pump object as the code has it - one field per attribute of TLSServerProtocol that the
      translated methods read or assign (the translator's ATTRS table names the getter and the setter of each),
      the two pieces of state that live in asyncio (is the TCP transport closing, is the timer handle still
      pending, has connection_lost been delivered) and the state of the OpenSSL connection object, which is an
      ORACLE exactly as in the model: what do_handshake() will answer, what the recv() calls will answer, and the
      contents of the outgoing memory BIO.
   2. the oracle's operations (`ssl_*`), built from the model's `ssl_send`, `sendall`, `frame` and from `take`/`drop`
      pieces of the BIO, in the same way Model/TlsPump.v does.
   3. the actions a callback performs (`pact`) and the result of a method (`pres`: state, actions, escaping exception).
   4. the abstraction to the model's state / actions, and the event loop's side (`loop_step`): which callback
      asyncio runs for which event. *)
From Coq Require Import List NArith Bool.
From NV Require Import Prelude.Str Model.TlsPump.
Import ListNotations.

(* ---------- exceptions ---------- *)
(* what can end a translated method abnormally.  AttributeError: a method call on an attribute that is None;
   OutOfFuel: a `while` loop ran out of the fuel supplied by the caller (no `except` clause catches it). *)
Inductive exc := WantReadError | ZeroReturnError | SslError | AttributeError | RuntimeError | OutOfFuel.
(* the classes named in `except` clauses.  OpenSSL.SSL: WantReadError and ZeroReturnError are subclasses of Error *)
Inductive excclass := CWantReadError | CZeroReturnError | CError | CRuntimeError.
Definition exc_match (c : excclass) (x : exc) : bool :=
  match c, x with
  | CWantReadError, WantReadError => true
  | CZeroReturnError, ZeroReturnError => true
  | CError, (WantReadError | ZeroReturnError | SslError) => true
  | CRuntimeError, RuntimeError => true
  | _, _ => false
  end.

(* ---------- the object ---------- *)
(* one answer of SSL_read: a plaintext slice, a clean shutdown (close_notify), a failure.  An exhausted list is
   "no complete record buffered": WantReadError *)
Inductive recv_ans := RData (d : str) | RZeroReturn | RError.

Record pst := {
  p_transport : bool;      (* self.transport is set *)
  p_closing : bool;        (* asyncio: transport.close() has been called on the TCP transport (is_closing()) *)
  p_conn : bool;           (* self.tls_conn is set *)
  p_accept : bool;         (* set_accept_state() has been called on it *)
  p_hc : bool;             (* self.handshake_complete *)
  p_inner : bool;          (* self.inner_protocol is set *)
  p_timer : bool;          (* self._handshake_timer is set *)
  p_armed : bool;          (* asyncio: the handle returned by call_later is pending (not cancelled, not yet run) *)
  p_lost : bool;           (* asyncio: connection_lost has been delivered *)
  o_verdict : hs_verdict;  (* oracle: the answer of the next do_handshake() *)
  o_flight : str;          (* oracle: the handshake bytes do_handshake() leaves in the outgoing BIO *)
  o_recv : list recv_ans;  (* oracle: the answers of the next recv() calls *)
  o_out : str              (* the outgoing memory BIO *)
}.

Definition upd_transport (s : pst) (v : bool) : pst :=
  {| p_transport := v; p_closing := p_closing s; p_conn := p_conn s; p_accept := p_accept s; p_hc := p_hc s; p_inner := p_inner s; p_timer := p_timer s; p_armed := p_armed s; p_lost := p_lost s; o_verdict := o_verdict s; o_flight := o_flight s; o_recv := o_recv s; o_out := o_out s |}.
Definition upd_closing (s : pst) (v : bool) : pst :=
  {| p_transport := p_transport s; p_closing := v; p_conn := p_conn s; p_accept := p_accept s; p_hc := p_hc s; p_inner := p_inner s; p_timer := p_timer s; p_armed := p_armed s; p_lost := p_lost s; o_verdict := o_verdict s; o_flight := o_flight s; o_recv := o_recv s; o_out := o_out s |}.
Definition upd_conn (s : pst) (v : bool) : pst :=
  {| p_transport := p_transport s; p_closing := p_closing s; p_conn := v; p_accept := p_accept s; p_hc := p_hc s; p_inner := p_inner s; p_timer := p_timer s; p_armed := p_armed s; p_lost := p_lost s; o_verdict := o_verdict s; o_flight := o_flight s; o_recv := o_recv s; o_out := o_out s |}.
Definition upd_accept (s : pst) (v : bool) : pst :=
  {| p_transport := p_transport s; p_closing := p_closing s; p_conn := p_conn s; p_accept := v; p_hc := p_hc s; p_inner := p_inner s; p_timer := p_timer s; p_armed := p_armed s; p_lost := p_lost s; o_verdict := o_verdict s; o_flight := o_flight s; o_recv := o_recv s; o_out := o_out s |}.
Definition upd_hc (s : pst) (v : bool) : pst :=
  {| p_transport := p_transport s; p_closing := p_closing s; p_conn := p_conn s; p_accept := p_accept s; p_hc := v; p_inner := p_inner s; p_timer := p_timer s; p_armed := p_armed s; p_lost := p_lost s; o_verdict := o_verdict s; o_flight := o_flight s; o_recv := o_recv s; o_out := o_out s |}.
Definition upd_inner (s : pst) (v : bool) : pst :=
  {| p_transport := p_transport s; p_closing := p_closing s; p_conn := p_conn s; p_accept := p_accept s; p_hc := p_hc s; p_inner := v; p_timer := p_timer s; p_armed := p_armed s; p_lost := p_lost s; o_verdict := o_verdict s; o_flight := o_flight s; o_recv := o_recv s; o_out := o_out s |}.
Definition upd_timer (s : pst) (v : bool) : pst :=
  {| p_transport := p_transport s; p_closing := p_closing s; p_conn := p_conn s; p_accept := p_accept s; p_hc := p_hc s; p_inner := p_inner s; p_timer := v; p_armed := p_armed s; p_lost := p_lost s; o_verdict := o_verdict s; o_flight := o_flight s; o_recv := o_recv s; o_out := o_out s |}.
Definition upd_armed (s : pst) (v : bool) : pst :=
  {| p_transport := p_transport s; p_closing := p_closing s; p_conn := p_conn s; p_accept := p_accept s; p_hc := p_hc s; p_inner := p_inner s; p_timer := p_timer s; p_armed := v; p_lost := p_lost s; o_verdict := o_verdict s; o_flight := o_flight s; o_recv := o_recv s; o_out := o_out s |}.
Definition upd_lost (s : pst) (v : bool) : pst :=
  {| p_transport := p_transport s; p_closing := p_closing s; p_conn := p_conn s; p_accept := p_accept s; p_hc := p_hc s; p_inner := p_inner s; p_timer := p_timer s; p_armed := p_armed s; p_lost := v; o_verdict := o_verdict s; o_flight := o_flight s; o_recv := o_recv s; o_out := o_out s |}.
Definition set_verdict (s : pst) (v : hs_verdict) : pst :=
  {| p_transport := p_transport s; p_closing := p_closing s; p_conn := p_conn s; p_accept := p_accept s; p_hc := p_hc s; p_inner := p_inner s; p_timer := p_timer s; p_armed := p_armed s; p_lost := p_lost s; o_verdict := v; o_flight := o_flight s; o_recv := o_recv s; o_out := o_out s |}.
Definition set_flight (s : pst) (v : str) : pst :=
  {| p_transport := p_transport s; p_closing := p_closing s; p_conn := p_conn s; p_accept := p_accept s; p_hc := p_hc s; p_inner := p_inner s; p_timer := p_timer s; p_armed := p_armed s; p_lost := p_lost s; o_verdict := o_verdict s; o_flight := v; o_recv := o_recv s; o_out := o_out s |}.
Definition set_recv (s : pst) (v : list recv_ans) : pst :=
  {| p_transport := p_transport s; p_closing := p_closing s; p_conn := p_conn s; p_accept := p_accept s; p_hc := p_hc s; p_inner := p_inner s; p_timer := p_timer s; p_armed := p_armed s; p_lost := p_lost s; o_verdict := o_verdict s; o_flight := o_flight s; o_recv := v; o_out := o_out s |}.
Definition set_out (s : pst) (v : str) : pst :=
  {| p_transport := p_transport s; p_closing := p_closing s; p_conn := p_conn s; p_accept := p_accept s; p_hc := p_hc s; p_inner := p_inner s; p_timer := p_timer s; p_armed := p_armed s; p_lost := p_lost s; o_verdict := o_verdict s; o_flight := o_flight s; o_recv := o_recv s; o_out := v |}.

(* the object before __init__ has run *)
Definition blank : pst :=
  {| p_transport := false; p_closing := false; p_conn := false; p_accept := false; p_hc := false; p_inner := false;
     p_timer := false; p_armed := false; p_lost := false; o_verdict := WantRead; o_flight := []; o_recv := []; o_out := [] |}.

(* ---------- actions and results ---------- *)
Inductive pact :=
| PWrite (b : str)        (* TCP transport.write(b) *)
| PInnerMade              (* inner_protocol.connection_made(wrapper) *)
| PInnerData (d : str)    (* inner_protocol.data_received(d) *)
| PInnerLost              (* inner_protocol.connection_lost(..) *)
| PClose                  (* TCP transport.close() on a transport that was not closing *)
| PCloseAgain.            (* TCP transport.close() on a closing transport: asyncio ignores it *)

Definition pres := (pst * list pact * option exc)%type.

(* self.transport.close() *)
Definition tcp_close (s : pst) : pst * list pact :=
  if p_closing s then (s, [PCloseAgain]) else (upd_closing s true, [PClose]).

(* loop.call_later(delay, callback) / handle.cancel() *)
Definition arm_timer (s : pst) : pst := upd_armed s true.
Definition disarm_timer (s : pst) : pst := upd_armed s false.

(* ---------- the OpenSSL connection object (oracle) ---------- *)
(* bio_write(ciphertext): what the ciphertext means is what the oracle answers afterwards (the event carries it) *)
Definition ssl_bio_write (s : pst) (d : str) : pst := s.
Definition ssl_set_accept_state (s : pst) : pst := upd_accept s true.
(* do_handshake(): leaves its flight in the outgoing BIO; returns / raises WantReadError / raises Error *)
Definition ssl_do_handshake (s : pst) : pst * option exc :=
  let s1 := set_flight (set_out s (o_out s ++ o_flight s)) [] in
  match o_verdict s with
  | HsDone => (s1, None)
  | WantRead => (s1, Some WantReadError)
  | HsError => (s1, Some SslError)
  end.
(* recv(n): the next answer (the model's slices are <= 8192 bytes by assumption: n is not consulted) *)
Definition ssl_recv (s : pst) (n : nat) : pst * (str + exc) :=
  match o_recv s with
  | [] => (s, inr WantReadError)
  | RData d :: r => (set_recv s r, inl d)
  | RZeroReturn :: r => (set_recv s r, inr ZeroReturnError)
  | RError :: r => (set_recv s r, inr SslError)
  end.
(* send(d): SSL_write accepts at most one record (Model.TlsPump.ssl_send) and returns how much it took *)
Definition ssl_send (s : pst) (d : str) : pst * nat :=
  let (r, _) := TlsPump.ssl_send d in (set_out s (o_out s ++ frame r), length r).
(* sendall(d): PyOpenSSL loops over SSL_write until everything is accepted (Model.TlsPump.sendall) *)
Definition ssl_sendall (s : pst) (d : str) : pst := set_out s (o_out s ++ concat (map frame (sendall d))).
(* bio_read(n): at most n bytes off the front of the outgoing BIO; WantReadError when it is empty *)
Definition ssl_bio_read (s : pst) (n : nat) : pst * (str + exc) :=
  match o_out s with
  | [] => (s, inr WantReadError)
  | b => (set_out s (drop n b), inl (take n b))
  end.
(* shutdown(): queues the close_notify alert (2 bytes, level warning / description 0) as one record; before the
   handshake is complete OpenSSL refuses (Error) *)
Definition ssl_shutdown (s : pst) : pst * option exc :=
  if p_hc s then (set_out s (o_out s ++ frame [1; 0]%N), None) else (s, Some SslError).

(* ---------- abstraction to Model.TlsPump ---------- *)
Definition abs (s : pst) : tst :=
  {| ph := if p_lost s then Dead else if p_hc s then Established else if p_closing s then Dead else Handshaking;
     hs_timer := p_armed s; inner := p_inner s |}.
Fixpoint abs_acts (a : list pact) : list taction :=
  match a with
  | [] => []
  | PWrite _ :: r => abs_acts r
  | PCloseAgain :: r => abs_acts r
  | PInnerMade :: r => TInnerMade :: abs_acts r
  | PInnerData d :: r => TInnerData d :: abs_acts r
  | PInnerLost :: r => TInnerLost :: abs_acts r
  | PClose :: r => TClose :: abs_acts r
  end.
Fixpoint writes (a : list pact) : list str :=
  match a with [] => [] | PWrite b :: r => b :: writes r | _ :: r => writes r end.
(* a method's result as the model sees it; an escaping exception has no counterpart in the model *)
Definition abs_res (r : pres) : option (tst * list taction) :=
  match r with (s, a, None) => Some (abs s, abs_acts a) | (_, _, Some _) => None end.

(* two model states are indistinguishable when they are equal or both dead (Dead is absorbing in tstep and the model
   never looks at the timer flag of a dead connection) *)
Definition teq (t1 t2 : tst) : Prop := t1 = t2 \/ (ph t1 = Dead /\ ph t2 = Dead /\ inner t1 = inner t2).

(* ---------- the event loop's side ---------- *)
Inductive pevent :=
| PRead (data : str) (v : hs_verdict) (flight : str) (answers : list recv_ans)
                          (* TCP data, with what OpenSSL will make of it *)
| PTimer                  (* the time of the call_later handle has come *)
| PLost.                  (* the TCP connection is gone *)

Definition set_oracle (s : pst) (v : hs_verdict) (fl : str) (ans : list recv_ans) : pst :=
  set_recv (set_flight (set_verdict s v) fl) ans.

Fixpoint datas (ans : list recv_ans) : list str :=
  match ans with [] => [] | RData d :: r => d :: datas r | _ :: r => datas r end.
Definition abs_ev (e : pevent) : tevent :=
  match e with PRead _ v _ ans => TRead v (datas ans) | PTimer => TTimer | PLost => TLost end.
(* the oracle answers the model knows: non-empty plaintext slices, then "no more data" *)
Definition plain_ans (x : recv_ans) : bool := match x with RData (_ :: _) => true | _ => false end.
Definition model_ev (e : pevent) : bool :=
  match e with PRead _ _ _ ans => forallb plain_ans ans | _ => true end.
(* fuel that suffices for the loops one event can cause *)
Definition ev_size (e : pevent) : nat :=
  match e with PRead _ _ fl ans => length fl + length ans | _ => O end.

Section Loop.
  (* the protocol's callbacks (instantiated with the generated methods in Equiv/EquivTls.v) *)
  Variable data_received : pst -> str -> pres.
  Variable handshake_timeout : pst -> pres.
  Variable connection_lost : pst -> pres.

  (* - nothing is delivered after connection_lost
     - a closing transport delivers no more data (close() removes the reader)
     - a call_later handle runs its callback once, unless cancelled
     - connection_lost is delivered once *)
  Definition loop_step (s : pst) (e : pevent) : pres :=
    if p_lost s then (s, [], None) else
    match e with
    | PRead d v fl ans => if p_closing s then (s, [], None) else data_received (set_oracle s v fl ans) d
    | PTimer => if p_armed s then handshake_timeout (upd_armed s false) else (s, [], None)
    | PLost => let '(s', a, r) := connection_lost s in (upd_lost s' true, a, r)
    end.

  (* a run stops at the first callback that lets an exception escape (asyncio's handling of that is not modelled) *)
  Fixpoint loop_run (s : pst) (evs : list pevent) : pres :=
    match evs with
    | [] => (s, [], None)
    | e :: r => let '(s1, a, x) := loop_step s e in
                match x with
                | Some _ => (s1, a, x)
                | None => let '(s2, b, y) := loop_run s1 r in (s2, a ++ b, y)
                end
    end.
End Loop.

(* ---------- the states the tie theorems quantify over ---------- *)
(* the object after connection_made (the model's tinit) *)
Definition cinit : pst :=
  {| p_transport := true; p_closing := false; p_conn := true; p_accept := true; p_hc := false; p_inner := false;
     p_timer := true; p_armed := true; p_lost := false; o_verdict := WantRead; o_flight := []; o_recv := []; o_out := [] |}.

(* invariant of the object between callbacks (Proofs/EquivTls_proofs.v: it holds of cinit and every callback keeps it) *)
Definition wf (s : pst) : Prop :=
  p_transport s = true /\ p_conn s = true /\
  p_timer s = p_armed s /\                        (* the attribute holds the handle exactly while it is pending *)
  p_inner s = p_hc s /\                           (* the inner protocol exists exactly when the handshake is complete *)
  (p_hc s = true -> p_armed s = false) /\
  (p_closing s = false -> o_out s = []) /\        (* the outgoing BIO is drained *)
  (p_lost s = false -> p_closing s = true -> p_hc s = false).   (* the pump itself closes only while handshaking *)
(* the TCP connection is open and nobody has closed it *)
Definition live (s : pst) : Prop := p_lost s = false /\ p_closing s = false.
