(* Gen = Model for the manual PyOpenSSL pump, server/tls_protocol.py (Gen/TlsGen.v, regenerated on every run by
   translate/py2coq_tls.py) against Model/TlsPump.v.  Statements only; the proofs are in Proofs/EquivTls_proofs.v.

   The generated methods work on the record `pst` of Equiv/TlsGlue.v (the object's attributes + the OpenSSL oracle);
   `abs`, `abs_acts`, `abs_ev` map its states, actions and events to the model's.  The oracle is instantiated as in
   the model: do_handshake answers with the event's verdict, recv yields the event's non-empty plaintext slices and then
   WantReadError (`model_ev`), SSL_write takes one record at a time, the outgoing BIO is read in 8192-byte pieces.
   `fuel` bounds the iterations of each `while True` loop; every theorem holds for all sufficient fuel. *)
From Coq Require Import List NArith Bool.
From NV Require Import Prelude.Str Model.TlsPump Equiv.TlsGlue Gen.TlsGen.
From NV Require Proofs.EquivTls_proofs.
Import ListNotations.

(* ---------- the outgoing path ---------- *)
(* _flush_outgoing: drains the BIO, one transport.write per piece of the model's `flush` *)
Theorem flush_outgoing_tie : forall fuel s,
  p_conn s = true -> p_transport s = true -> length (o_out s) < fuel ->
  gen_flush_outgoing fuel s = (set_out s [], map PWrite (flush (o_out s)), None).
Proof. exact EquivTls_proofs.flush_outgoing_tie. Qed.
Print Assumptions flush_outgoing_tie.

(* TLSTransportWrapper.write: the TCP writes are the model's wrapper_write, the BIO is empty again afterwards *)
Theorem wrapper_write_tie : forall fuel s d,
  p_conn s = true -> p_transport s = true -> o_out s = [] ->
  length (concat (map frame (sendall d))) < fuel ->
  gen_wrapper_write fuel s d = (s, map PWrite (wrapper_write d), None).
Proof. exact EquivTls_proofs.wrapper_write_tie. Qed.
Print Assumptions wrapper_write_tie.

(* the same with bytes already waiting in the BIO *)
Theorem wrapper_write_tie_pending : forall fuel s d,
  p_conn s = true -> p_transport s = true ->
  length (o_out s ++ concat (map frame (sendall d))) < fuel ->
  gen_wrapper_write fuel s d =
  (set_out s [], map PWrite (flush (o_out s ++ concat (map frame (sendall d)))), None).
Proof. exact EquivTls_proofs.wrapper_write_gen. Qed.
Print Assumptions wrapper_write_tie_pending.

(* ---------- construction ---------- *)
(* __init__ leaves every translated attribute unset; connection_made produces the state that abstracts to tinit *)
Theorem init_tie : forall fuel, gen_init fuel blank = (blank, [], None).
Proof. exact EquivTls_proofs.init_tie. Qed.
Print Assumptions init_tie.

Theorem connection_made_tie : forall fuel, gen_connection_made fuel blank = (cinit, [], None).
Proof. exact EquivTls_proofs.connection_made_tie. Qed.
Print Assumptions connection_made_tie.

Theorem cinit_tie : abs cinit = tinit /\ wf cinit.
Proof. exact (conj EquivTls_proofs.cinit_abs EquivTls_proofs.cinit_wf). Qed.
Print Assumptions cinit_tie.

(* ---------- the phase machine ---------- *)
(* gen_step / gen_run (Gen/TlsGen.v): the callbacks as asyncio dispatches them (TlsGlue.loop_step / loop_run) *)

(* one event on a live connection (TCP open, nobody has closed it): data_received / _handle_handshake_timeout /
   connection_lost, with everything they call, IS the model's tstep *)
Theorem tstep_tie : forall fuel s e,
  wf s -> live s -> model_ev e = true -> ev_size e < fuel ->
  abs_res (gen_step fuel s e) = Some (tstep (abs s) (abs_ev e)).
Proof. exact EquivTls_proofs.tstep_tie. Qed.
Print Assumptions tstep_tie.

(* The statement without `live` is FALSE (tstep_tie_dead_counterexample below): on a connection the pump has already
   closed the code still clears the timer; the model's Dead state is frozen.  Strongest true variant, for every state
   satisfying the invariant: the callback ends normally, keeps the invariant, performs exactly the model's actions, and
   reaches the model's state up to `teq` (equal, or both Dead with the same inner flag); on live states the state is
   equal, the handshake flight has been written to TCP and the BIO is drained - except after a failed handshake, whose
   flight (the alert) stays in the BIO. *)
Theorem tstep_tie_dead_partial : forall fuel s e,
  wf s -> model_ev e = true -> ev_size e < fuel ->
  exists s' a,
    gen_step fuel s e = (s', a, None) /\ wf s' /\
    abs_acts a = snd (tstep (abs s) (abs_ev e)) /\
    teq (abs s') (fst (tstep (abs s) (abs_ev e))) /\
    (live s -> abs s' = fst (tstep (abs s) (abs_ev e))) /\
    (live s -> forall d v fl ans, e = PRead d v fl ans ->
       if p_hc s then writes a = [] /\ o_out s' = []
       else match v with
            | HsError => writes a = [] /\ o_out s' = fl
            | _ => writes a = flush fl /\ o_out s' = []
            end).
Proof. exact EquivTls_proofs.step_char. Qed.
Print Assumptions tstep_tie_dead_partial.

Theorem tstep_tie_dead_counterexample :
  wf EquivTls_proofs.failed_hs /\
  gen_step 5 EquivTls_proofs.failed_hs PTimer =
    (upd_timer (upd_armed EquivTls_proofs.failed_hs false) false, [PCloseAgain], None) /\
  abs_res (gen_step 5 EquivTls_proofs.failed_hs PTimer) = Some ({| ph := Dead; hs_timer := false; inner := false |}, []) /\
  tstep (abs EquivTls_proofs.failed_hs) (abs_ev PTimer) = ({| ph := Dead; hs_timer := true; inner := false |}, []).
Proof. exact (conj EquivTls_proofs.failed_hs_wf EquivTls_proofs.tstep_tie_dead_counterexample). Qed.
Print Assumptions tstep_tie_dead_counterexample.
Eval vm_compute in (abs_res (gen_step 5 EquivTls_proofs.failed_hs PTimer), tstep (abs EquivTls_proofs.failed_hs) (abs_ev PTimer)).

(* The statement without `model_ev` is FALSE too: the model would forward an empty plaintext slice, the code stops at it
   (after the handshake) or skips it (established).  SSL_read never yields one, so this is a condition on the oracle. *)
Theorem tstep_tie_empty_slice_counterexample :
  abs_res (gen_step 5 cinit (PRead [] HsDone [] [RData []; RData [65]%N])) =
    Some ({| ph := Established; hs_timer := false; inner := true |}, [TInnerMade]) /\
  tstep (abs cinit) (abs_ev (PRead [] HsDone [] [RData []; RData [65]%N])) =
    ({| ph := Established; hs_timer := false; inner := true |}, [TInnerMade; TInnerData []; TInnerData [65]%N]) /\
  abs_res (gen_step 5 EquivTls_proofs.established (PRead [] WantRead [] [RData []; RData [65]%N])) =
    Some ({| ph := Established; hs_timer := false; inner := true |}, [TInnerData [65]%N]).
Proof. exact EquivTls_proofs.tstep_tie_empty_slice_counterexample. Qed.
Print Assumptions tstep_tie_empty_slice_counterexample.

(* a whole connection from connection_made on, any events (also after closes): the calls of the inner protocol and the
   effective TCP closes are exactly the model's trace; the final states agree up to `teq` *)
Theorem trun_tie : forall fuel evs,
  forallb model_ev evs = true -> Forall (fun e => ev_size e < fuel) evs ->
  exists s' a,
    gen_run fuel cinit evs = (s', a, None) /\ wf s' /\
    abs_acts a = snd (trun tinit (map abs_ev evs)) /\ teq (abs s') (fst (trun tinit (map abs_ev evs))).
Proof. exact EquivTls_proofs.trun_tie. Qed.
Print Assumptions trun_tie.

(* ---------- what the code does where the model's oracle is silent ---------- *)
(* the peer's close_notify (recv raises ZeroReturnError) *)
Theorem established_zero_return : forall fuel s d v fl pre post,
  wf s -> live s -> p_hc s = true -> forallb plain_ans pre = true -> length pre < fuel ->
  exists s', gen_step fuel s (PRead d v fl (pre ++ RZeroReturn :: post)) =
             (s', map PInnerData (datas pre) ++ [PInnerLost; PClose], None) /\ p_closing s' = true.
Proof. exact EquivTls_proofs.established_zero_return. Qed.
Print Assumptions established_zero_return.

(* a failing SSL_read closes the TCP transport *)
Theorem established_recv_error : forall fuel s d v fl pre post,
  wf s -> live s -> p_hc s = true -> forallb plain_ans pre = true -> length pre < fuel ->
  exists s', gen_step fuel s (PRead d v fl (pre ++ RError :: post)) =
             (s', map PInnerData (datas pre) ++ [PClose], None) /\ p_closing s' = true.
Proof. exact EquivTls_proofs.established_recv_error. Qed.
Print Assumptions established_recv_error.

(* after a close_notify the inner protocol's connection_lost is called twice: by _handle_close and by connection_lost *)
Theorem close_notify_double_lost :
  snd (fst (gen_run 5 EquivTls_proofs.established [PRead [] WantRead [] [RData [65]%N; RZeroReturn]; PLost])) =
  [PInnerData [65]%N; PInnerLost; PClose; PInnerLost].
Proof. exact EquivTls_proofs.close_notify_double_lost. Qed.
Print Assumptions close_notify_double_lost.

(* TLSTransportWrapper.close / is_closing (no counterpart in the model) *)
Theorem wrapper_close_spec : forall fuel s,
  p_conn s = true -> p_transport s = true -> p_hc s = true -> p_closing s = false ->
  length (o_out s ++ frame [1; 0]%N) < fuel ->
  gen_wrapper_close fuel s =
  (upd_closing (set_out s []) true, map PWrite (flush (o_out s ++ frame [1; 0]%N)) ++ [PClose], None).
Proof. exact EquivTls_proofs.wrapper_close_spec. Qed.
Print Assumptions wrapper_close_spec.

Theorem wrapper_is_closing_spec : forall s, p_transport s = true -> gen_wrapper_is_closing s = inl (p_closing s).
Proof. exact EquivTls_proofs.wrapper_is_closing_spec. Qed.
Print Assumptions wrapper_is_closing_spec.

(* HANDSHAKE_TIMEOUT as the source has it *)
Theorem handshake_timeout_value : gen_handshake_timeout_ms = 30000%N.
Proof. exact EquivTls_proofs.handshake_timeout_value. Qed.
Print Assumptions handshake_timeout_value.
