(* Single entry point of the extracted model runner: name + argument -> observation. *)
From Coq Require Import List NArith ZArith Bool.
From NV Require Import Prelude.Str Prelude.Res Prelude.Sx Model.Url.
From NV Require Spec.C19.
Import ListNotations.
Open Scope N_scope.

Definition show_res {T} (f : T -> list sx) (r : res T) : sx :=
  match r with
  | Ok a => L (sT "ok" :: f a)
  | Err k m => L [sT "err"; A k; A m]
  | OutOfModel => L [sT "oom"]
  end.

(* oracle table for ip6_check: key = bracket content; value = L [] (accepted) or L [A msg];
   a missing key yields the message "ORACLE-MISS" so that a divergence in what is asked shows up *)
Definition ip6_of_table (t : sx) (h : str) : option str :=
  match lookup_tab h (as_list t) with
  | Some (L []) => None
  | Some (L (A m :: _)) => Some m
  | _ => Some (lit "ORACLE-MISS")
  end.

Definition show_parsed (p : parsed) : list sx :=
  [A (p_host p); sN (p_port p); A (p_path p); A (p_query p); A (p_norm p)].

Definition read_res {T} (f : list sx -> T) (x : sx) : res T :=
  match as_list x with
  | A tag :: rest =>
      if eqb tag (lit "ok") then Ok (f rest)
      else if eqb tag (lit "err") then Err (as_str (nth 0 rest (L []))) (as_str (nth 1 rest (L [])))
      else OutOfModel
  | _ => OutOfModel
  end.
Definition read_parsed (l : list sx) : parsed :=
  {| p_host := as_str (nth 0 l (L [])); p_port := as_N (nth 1 l (L [])); p_path := as_str (nth 2 l (L []));
     p_query := as_str (nth 3 l (L [])); p_norm := as_str (nth 4 l (L [])) |}.

Definition run (name : str) (arg : sx) : sx :=
  if eqb name (lit "parse_url") then
    show_res show_parsed (parse_url (ip6_of_table (nth_sx 1 arg)) (as_str (nth_sx 0 arg)))
  else if eqb name (lit "C19.ok") then
    sB (Spec.C19.ok (read_res read_parsed (nth_sx 0 arg)) (read_res read_parsed (nth_sx 1 arg)))
  else L [sT "unknown-model"; A name].
Close Scope N_scope.
