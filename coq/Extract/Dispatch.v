(* Single entry point of the extracted model runner: name + argument -> observation. *)
From Coq Require Import List NArith ZArith Bool.
From Coq Require Import QArith.
From NV Require Import Prelude.Str Prelude.Res Prelude.Sx Model.Url Model.Redirect Model.Bucket Model.Ip Model.Titan Model.ServerProto Model.Proxy Model.ClientProto Model.Tofu Model.Session Model.Fs Model.Static Model.Listing Model.CertAuth Model.Certs.
From NV Require Model.Reload.
From NV Require Model.CliClient.
From NV Require Spec.C19 Spec.C16 Spec.C10 Spec.C09 Spec.ServerTrace Spec.C01 Spec.C04 Spec.C07 Spec.C15 Spec.C08 Spec.C17 Spec.C13 Spec.C03 Spec.C12 Spec.C11 Spec.C18 Spec.C02 Spec.C14 Spec.C05.
Import ListNotations.
Open Scope N_scope.

Definition show_res {T} (f : T -> list sx) (r : res T) : sx :=
  match r with
  | Ok a => L (sT "ok" :: f a)
  | Err k m => L [sT "err"; A k; A m]
  | OutOfModel => L [sT "oom"]
  end.

(* oracle table for ip6_check: key = bracket content; value = L [] (accepted) or L [A msg];
   a missing key yields the message "ORACLE-MISS" so that a divergence in what is asked shows up *)
Definition ip6_of_table (t : sx) (h : str) : option str :=
  match lookup_tab h (as_list t) with
  | Some (L []) => None
  | Some (L (A m :: _)) => Some m
  | _ => Some (lit "ORACLE-MISS")
  end.

Definition show_parsed (p : parsed) : list sx :=
  [A (p_host p); sN (p_port p); A (p_path p); A (p_query p); A (p_norm p)].

Definition read_res {T} (f : list sx -> T) (x : sx) : res T :=
  match as_list x with
  | A tag :: rest =>
      if eqb tag (lit "ok") then Ok (f rest)
      else if eqb tag (lit "err") then Err (as_str (nth 0 rest (L []))) (as_str (nth 1 rest (L [])))
      else OutOfModel
  | _ => OutOfModel
  end.
Definition read_parsed (l : list sx) : parsed :=
  {| p_host := as_str (nth 0 l (L [])); p_port := as_N (nth 1 l (L [])); p_path := as_str (nth 2 l (L []));
     p_query := as_str (nth 3 l (L [])); p_norm := as_str (nth 4 l (L [])) |}.

(* ---- C16 ---- *)
Definition read_response (x : sx) : response :=
  {| r_status := as_Z (nth_sx 0 x); r_meta := as_str (nth_sx 1 x); r_body := as_str (nth_sx 2 x) |}.
Definition show_response (r : response) : list sx := [sZ (r_status r); A (r_meta r); A (r_body r)].
(* table rows: (url response) ; _get_single = parse_url then table lookup *)
Definition tab_of (ip6t t : sx) (u : str) : option response :=
  match parse_url (ip6_of_table ip6t) u with
  | Ok _ => match lookup_tab u (as_list t) with Some r => Some (read_response r) | None => None end
  | _ => None
  end.
Definition fetch_of (ip6t t : sx) (_ : nat) (u : str) : res response :=
  match parse_url (ip6_of_table ip6t) u with
  | Ok _ => match lookup_tab u (as_list t) with
            | Some r => Ok (read_response r)
            | None => Err (lit "unscripted") []
            end
  | Err _ m => Err (lit "bad_url") m
  | OutOfModel => OutOfModel
  end.
Definition show_outcome (o : Redirect.outcome) : sx :=
  match o with
  | Final r => L (sT "final" :: show_response r)
  | Fail k => L [sT "fail"; A k]
  | OutOfFuel => L [sT "fuel"]
  end.
Definition read_outcome (x : sx) : Redirect.outcome :=
  match as_list x with
  | A tag :: rest => if eqb tag (lit "final") then Final (read_response (L rest))
                     else if eqb tag (lit "fail") then Fail (as_str (nth 0 rest (L [])))
                     else OutOfFuel
  | _ => OutOfFuel
  end.
Definition show_walk (r : Redirect.outcome * list str) : sx := L [show_outcome (fst r); L (map A (snd r))].

(* ---- C10 ---- *)
Definition as_Q (x : sx) : Q :=
  Qmake (as_Z (nth_sx 0 x)) (match as_N (nth_sx 1 x) with Npos p => p | N0 => 1%positive end).
Definition read_event (x : sx) : Bucket.event :=
  if eqb (as_str (nth_sx 0 x)) (lit "r") then Req (as_Q (nth_sx 1 x)) (as_str (nth_sx 2 x))
  else Cleanup (as_Q (nth_sx 1 x)).
Definition read_log_entry (x : sx) : Q * str * bool :=
  (as_Q (nth_sx 0 x), as_str (nth_sx 1 x), as_bool (nth_sx 2 x)).

(* ---- C09 ---- *)
Definition read_fam (x : sx) : fam := if eqb (as_str x) (lit "6") then V6 else V4.
Definition read_net (x : sx) : net :=
  {| n_fam := read_fam (nth_sx 0 x); n_base := as_N (nth_sx 1 x); n_plen := as_N (nth_sx 2 x) |}.
Definition read_addr (x : sx) : option addr :=
  match as_list x with
  | [f; v] => Some {| a_fam := read_fam f; a_val := as_N v |}
  | _ => None
  end.
Definition ipnet_of_table (t : sx) (s : str) : option net :=
  match lookup_tab s (as_list t) with
  | Some (L [f; b; p]) => Some (read_net (L [f; b; p]))
  | _ => None
  end.
Definition read_olist (x : sx) : option (list str) :=
  match as_opt x with Some l => Some (map as_str (as_list l)) | None => None end.
Definition read_onet (x : sx) : option net :=
  match as_list x with [f; b; p] => Some (read_net x) | _ => None end.

(* ---- server protocol ---- *)
Definition read_body (x : sx) : body :=
  match as_list x with
  | [A t; A v] => if eqb t (lit "t") then BText v else BBytes v
  | _ => BNone
  end.
Definition read_resp (x : sx) : resp :=
  {| rs_status := as_Z (nth_sx 0 x); rs_meta := as_str (nth_sx 1 x); rs_body := read_body (nth_sx 2 x) |}.
Definition read_hres (x : sx) : hres :=
  let tag := as_str (nth_sx 0 x) in
  if eqb tag (lit "value") then HValue (read_resp (nth_sx 1 x))
  else if eqb tag (lit "raise") then HRaise (as_str (nth_sx 1 x))
  else HAsync.
Definition read_ostr (x : sx) : option str := match as_list x with [A s] => Some s | _ => None end.
Definition read_task_outcome (x : sx) : ServerProto.outcome :=
  let tag := as_str (nth_sx 0 x) in
  if eqb tag (lit "resp") then ServerProto.OResp (read_resp (nth_sx 1 x))
  else if eqb tag (lit "raise") then ServerProto.ORaise (as_str (nth_sx 1 x))
  else if eqb tag (lit "mw") then ServerProto.OMw (as_bool (nth_sx 1 x)) (read_ostr (nth_sx 2 x))
  else ServerProto.OMalformed.
Definition read_sevent (x : sx) : ServerProto.event :=
  let tag := as_str (nth_sx 0 x) in
  if eqb tag (lit "read") then ERead (map as_str (as_list (nth_sx 1 x)))
  else if eqb tag (lit "timer") then ETimer
  else if eqb tag (lit "done") then EDone (N.to_nat (as_N (nth_sx 1 x))) (read_task_outcome (nth_sx 2 x))
  else ELost.
Definition s_ostr (o : option str) : sx := match o with Some s => L [A s] | None => L [] end.
Definition sNat (n : nat) : sx := sN (N.of_nat n).
Definition show_action (a : action) : sx :=
  match a with
  | AWrite b => L [sT "w"; A b]
  | AClose => L [sT "c"]
  | AMw id url ip fp => L [sT "mw"; sNat id; A url; A ip; s_ostr fp]
  | AHandler line => L [sT "h"; A line]
  | AHandlerTask id => L [sT "ht"; sNat id]
  | AUpload id line c => L [sT "up"; sNat id; A line; A c]
  | AUploadCall line c => L [sT "upc"; A line; A c]
  | AOutOfModel => L [sT "oom"]
  end.
(* cfg: has_mw has_upload peer_ip fp hres ip6table up_call_fails
   (up_call_fails: () = the upload handler's call returns an awaitable, (msg) = it fails with that message before one
   exists; absent = ()) *)
Definition server_run (cfg evs : sx) : list (list action * bool) :=
  ServerProto.run (ip6_of_table (nth_sx 5 cfg)) (fun _ => read_hres (nth_sx 4 cfg))
    (as_bool (nth_sx 0 cfg)) (as_bool (nth_sx 1 cfg)) (read_ostr (nth_sx 6 cfg)) (as_str (nth_sx 2 cfg)) (read_ostr (nth_sx 3 cfg))
    init (map read_sevent (as_list evs)).

Definition read_action (x : sx) : action :=
  let tag := as_str (nth_sx 0 x) in
  if eqb tag (lit "w") then AWrite (as_str (nth_sx 1 x))
  else if eqb tag (lit "c") then AClose
  else if eqb tag (lit "mw") then AMw (N.to_nat (as_N (nth_sx 1 x))) (as_str (nth_sx 2 x)) (as_str (nth_sx 3 x)) (read_ostr (nth_sx 4 x))
  else if eqb tag (lit "h") then AHandler (as_str (nth_sx 1 x))
  else if eqb tag (lit "ht") then AHandlerTask (N.to_nat (as_N (nth_sx 1 x)))
  else if eqb tag (lit "up") then AUpload (N.to_nat (as_N (nth_sx 1 x))) (as_str (nth_sx 2 x)) (as_str (nth_sx 3 x))
  else if eqb tag (lit "upc") then AUploadCall (as_str (nth_sx 1 x)) (as_str (nth_sx 2 x))
  else AOutOfModel.   (* unknown tags (e.g. "escape") never compare equal to a model action *)
Definition read_obs (x : sx) : ServerTrace.obs :=
  map (fun e => (map read_action (as_list (nth_sx 0 e)), as_bool (nth_sx 1 e))) (as_list x).
Definition read_cfg (x : sx) : ServerTrace.cfg :=
  {| ServerTrace.c_mw := as_bool (nth_sx 0 x); ServerTrace.c_upload := as_bool (nth_sx 1 x);
     ServerTrace.c_ip := as_str (nth_sx 2 x); ServerTrace.c_fp := read_ostr (nth_sx 3 x);
     ServerTrace.c_hres := read_hres (nth_sx 4 x); ServerTrace.c_upfail := read_ostr (nth_sx 6 x) |}.

(* ---- client protocol ---- *)
Definition decode_of_table (t : sx) (label body : str) : option str :=
  match lookup_tab label (as_list t) with
  | Some (L rows) => match lookup_tab body rows with Some (L [A x]) => Some x | _ => None end
  | _ => None
  end.
Definition read_cevent (x : sx) : cevent :=
  let tag := as_str (nth_sx 0 x) in
  if eqb tag (lit "connected") then CConnected
  else if eqb tag (lit "send") then CSend
  else if eqb tag (lit "data") then CData (as_str (nth_sx 1 x))
  else CLost (read_ostr (nth_sx 1 x)).
Definition show_caction (a : caction) : sx :=
  match a with CWrite b => L [sT "w"; A b] | CClose => L [sT "c"] | CEscape k => L [sT "escape"; A k] end.
Definition show_cbody (b : cbody) : sx :=
  match b with CNone => L [] | CText t => L [sT "t"; A t] | CBytes x => L [sT "b"; A x] end.
Definition show_cresult (r : cresult) : sx :=
  match r with
  | ROk c => L [sT "ok"; sN (cr_status c); A (cr_meta c); show_cbody (cr_body c)]
  | RErr k => L [sT "err"; A k]
  end.
Definition show_fut (f : fut) : sx := match f with Pending => L [sT "pending"] | Done r => show_cresult r end.
Definition read_cbody (x : sx) : cbody :=
  match as_list x with
  | [A t; A v] => if eqb t (lit "t") then CText v else CBytes v
  | _ => CNone
  end.
Definition read_fut (x : sx) : fut :=
  let tag := as_str (nth_sx 0 x) in
  if eqb tag (lit "ok") then Done (ROk {| cr_status := as_N (nth_sx 1 x); cr_meta := as_str (nth_sx 2 x); cr_body := read_cbody (nth_sx 3 x) |})
  else if eqb tag (lit "err") then Done (RErr (as_str (nth_sx 1 x)))
  else Pending.

(* ---- trust store ---- *)
Definition read_row (x : sx) : row :=
  {| r_host := as_str (nth_sx 0 x); r_port := as_N (nth_sx 1 x); r_fp := as_str (nth_sx 2 x); r_first := as_str (nth_sx 3 x) |}.
Definition show_row (r : row) : sx := L [A (r_host r); sN (r_port r); A (r_fp r); A (r_first r)].
Definition read_store (x : sx) : store := map read_row (as_list x).
Definition show_store (s : store) : sx := L (map show_row s).
Definition read_entry (x : sx) : entry :=
  {| e_host := as_str (nth_sx 0 x); e_port := as_Z (nth_sx 1 x); e_port_is_int := as_bool (nth_sx 2 x);
     e_fp := as_str (nth_sx 3 x); e_first := as_str (nth_sx 4 x); e_complete := as_bool (nth_sx 5 x) |}.
Definition read_cb (x : sx) : option (str -> N -> str -> str -> cb_result) :=
  let t := as_str x in
  if eqb t (lit "update") then Some (fun _ _ _ _ => CbUpdate)
  else if eqb t (lit "skip") then Some (fun _ _ _ _ => CbSkip)
  else if eqb t (lit "raise") then Some (fun _ _ _ _ => CbRaise)
  else None.
(* statements of an operation on store s, and whether it completes without raising *)
Definition op_stmts (s : store) (op : sx) : list stmt * bool :=
  let tag := as_str (nth_sx 0 op) in
  if eqb tag (lit "trust") then
    (trust_stmts s (as_str (nth_sx 1 op)) (as_N (nth_sx 2 op)) (as_str (nth_sx 3 op)) (as_str (nth_sx 4 op)), true)
  else if eqb tag (lit "verify") then
    (snd (verify s (as_str (nth_sx 1 op)) (as_N (nth_sx 2 op)) (as_str (nth_sx 3 op))), true)
  else if eqb tag (lit "revoke") then ([SDelete (as_str (nth_sx 1 op)) (as_N (nth_sx 2 op)); SCommit], true)
  else if eqb tag (lit "revoke_host") then ([SDeleteHost (as_str (nth_sx 1 op)); SCommit], true)
  else if eqb tag (lit "clear") then ([SDeleteAll; SCommit], true)
  else if eqb tag (lit "import") then
    import_stmts (read_cb (nth_sx 3 op)) s (as_bool (nth_sx 1 op)) (map read_entry (as_list (nth_sx 2 op)))
  else ([], true).
Definition read_presented (x : sx) : presented :=
  if eqb (as_str (nth_sx 0 x)) (lit "cert") then PCert (as_str (nth_sx 1 x)) else PUnreadable.
Definition show_sresult (r : session_result) : sx :=
  match r with
  | SAccepted => L [sT "accepted"]
  | SChanged o n => L [sT "changed"; A o; A n]
  | SRefused => L [sT "refused"]
  end.
Definition read_sresult (x : sx) : session_result :=
  let t := as_str (nth_sx 0 x) in
  if eqb t (lit "accepted") then SAccepted
  else if eqb t (lit "changed") then SChanged (as_str (nth_sx 1 x)) (as_str (nth_sx 2 x))
  else SRefused.
Definition show_sevent (e : sevent) : sx :=
  match e with SWrite b => L [sT "w"; A b] | SVerified r => L [sT "v"; show_sresult r] end.
Definition read_sevent' (x : sx) : sevent :=
  if eqb (as_str (nth_sx 0 x)) (lit "w") then SWrite (as_str (nth_sx 1 x)) else SVerified (read_sresult (nth_sx 1 x)).
Definition read_upstream (x : sx) : upstream :=
  let t := as_str (nth_sx 0 x) in
  if eqb t (lit "stream") then UStream (as_str (nth_sx 1 x)) (read_ostr (nth_sx 2 x))
  else if eqb t (lit "connfail") then UConnectFail else UTimeout.

(* ---- filesystem handlers ---- *)
Definition read_path (x : sx) : path := map as_str (as_list x).
Definition show_path (p : path) : sx := L (map A p).
Definition read_node (x : sx) : node :=
  let t := as_str (nth_sx 0 x) in
  if eqb t (lit "f") then File (as_str (nth_sx 1 x)) else if eqb t (lit "l") then Link (as_str (nth_sx 1 x)) else Dir.
Definition show_node (n : node) : sx :=
  match n with File c => L [sT "f"; A c] | Dir => L [sT "d"] | Link t => L [sT "l"; A t] end.
Definition read_fs (x : sx) : fs := map (fun e => (read_path (nth_sx 0 e), read_node (nth_sx 1 e))) (as_list x).
Definition show_fs (f : fs) : sx := L (map (fun e => L [show_path (fst e); show_node (snd e)]) f).
Definition show_sout (f : fs) (o : sout) : sx :=
  match o with
  | OServe p m t => L [sT "serve"; show_path p; A m; A t]
  | OListing d => L [sT "listing"; show_path d; sNat (length (children f d))]
  | OStatus st m => L [sT "status"; sZ st; A m]
  | ORaise k => L [sT "raise"; A k]
  | OOom => L [sT "oom"]
  end.
Definition read_scfg (x : sx) : scfg :=
  {| s_root := read_path (nth_sx 0 x); s_indices := map as_str (as_list (nth_sx 1 x));
     s_listing := as_bool (nth_sx 2 x); s_max := as_N (nth_sx 3 x) |}.
Definition read_ucfg (x : sx) : ucfg :=
  {| u_root := read_path (nth_sx 0 x); u_max := as_N (nth_sx 1 x);
     u_types := match as_opt (nth_sx 2 x) with Some l => Some (map as_str (as_list l)) | None => None end;
     u_tokens := map as_str (as_list (nth_sx 3 x)); u_delete := as_bool (nth_sx 4 x) |}.
Definition read_ureq (x : sx) : ureq :=
  {| q_path := as_str (nth_sx 0 x); q_size := as_N (nth_sx 1 x); q_mime := as_str (nth_sx 2 x);
     q_token := read_ostr (nth_sx 3 x); q_content := as_str (nth_sx 4 x) |}.
Definition read_rule (x : sx) : rule :=
  {| ru_prefix := as_str (nth_sx 0 x); ru_require := as_bool (nth_sx 1 x);
     ru_allowed := match as_opt (nth_sx 2 x) with Some l => Some (map as_str (as_list l)) | None => None end |}.
Definition show_verdict (v : CertAuth.verdict) : sx :=
  match v with Allow => sT "allow" | Deny60 => sT "60" | Deny61 => sT "61" end.
Definition read_opath (x : sx) : option path := match as_list x with [p] => Some (read_path p) | _ => None end.

Definition dispatch (name : str) (arg : sx) : sx :=
  if eqb name (lit "parse_url") then
    show_res show_parsed (parse_url (ip6_of_table (nth_sx 1 arg)) (as_str (nth_sx 0 arg)))
  else if eqb name (lit "C19.ok") then
    sB (Spec.C19.ok (read_res read_parsed (nth_sx 0 arg)) (read_res read_parsed (nth_sx 1 arg)))
  else if eqb name (lit "follow") then
    (* arg: follow max url table ip6table *)
    show_walk (get (fetch_of (nth_sx 4 arg) (nth_sx 3 arg)) (as_bool (nth_sx 0 arg))
                   (N.to_nat (as_N (nth_sx 1 arg))) (as_str (nth_sx 2 arg)))
  else if eqb name (lit "cli_get") then
    (* the command line `nauyaca get url [-r max] [--no-redirects]` (Model/CliClient.v).  arg: no_redirects max url table ip6table;
       result: outcome, URLs connected to in order, exit status *)
    match Model.CliClient.cli_get (fetch_of (nth_sx 4 arg) (nth_sx 3 arg)) (as_str (nth_sx 2 arg))
                                  (N.to_nat (as_N (nth_sx 1 arg))) (as_bool (nth_sx 0 arg)) with
    | (o, log, code) => L [show_outcome o; L (map A log); sN code]
    end
  else if eqb name (lit "C16.ok") then
    (* arg: follow max url table ip6table outcome log *)
    sB (Spec.C16.ok (tab_of (nth_sx 4 arg) (nth_sx 3 arg)) (as_bool (nth_sx 0 arg))
          (N.to_nat (as_N (nth_sx 1 arg))) (as_str (nth_sx 2 arg))
          (read_outcome (nth_sx 5 arg), map as_str (as_list (nth_sx 6 arg))))
  else if eqb name (lit "bucket") then
    (* arg: cap rate events *)
    L (map (fun e => sB (snd e))
         (Model.Bucket.run {| cap := as_Q (nth_sx 0 arg); rate := as_Q (nth_sx 1 arg) |} []
                           (map read_event (as_list (nth_sx 2 arg)))))
  else if eqb name (lit "C10.ok") then
    sB (Spec.C10.ok {| cap := as_Q (nth_sx 0 arg); rate := as_Q (nth_sx 1 arg) |}
                    (map read_log_entry (as_list (nth_sx 2 arg))))
  else if eqb name (lit "C10.ideal") then
    sB (Spec.C10.ideal_ok {| cap := as_Q (nth_sx 0 arg); rate := as_Q (nth_sx 1 arg) |}
                          (map read_log_entry (as_list (nth_sx 2 arg))))
  else if eqb name (lit "acl") then
    (* arg: enabled allow deny default peer nettable *)
    match server_admits (ipnet_of_table (nth_sx 5 arg))
            {| sc_enabled := as_bool (nth_sx 0 arg); sc_allow := read_olist (nth_sx 1 arg);
               sc_deny := read_olist (nth_sx 2 arg); sc_default := as_bool (nth_sx 3 arg) |}
            (read_addr (nth_sx 4 arg)) with
    | Some b => L [sT "admit"; sB b]
    | None => L [sT "startup-error"]
    end
  else if eqb name (lit "C09.ok") then
    (* arg: enabled allow_entries deny_entries default peer observed *)
    sB (Spec.C09.ok (as_bool (nth_sx 0 arg)) (map read_onet (as_list (nth_sx 1 arg)))
          (map read_onet (as_list (nth_sx 2 arg))) (as_bool (nth_sx 3 arg)) (read_addr (nth_sx 4 arg))
          (match as_list (nth_sx 5 arg) with [A t; b] => if eqb t (lit "admit") then Some (as_bool b) else None | _ => None end))
  else if eqb name (lit "server") then
    let r := server_run (nth_sx 0 arg) (nth_sx 1 arg) in
    if existsb (fun x => existsb (fun a => match a with AOutOfModel => true | _ => false end) (fst x)) r
    then L [sT "oom"]
    else L (map (fun r => L [L (map show_action (fst r)); sB (snd r)]) r)
  else if eqb name (lit "C01.ok") then
    sB (Spec.C01.ok (ip6_of_table (nth_sx 5 (nth_sx 0 arg))) (read_cfg (nth_sx 0 arg))
                    (map read_sevent (as_list (nth_sx 1 arg))) (read_obs (nth_sx 2 arg)))
  else if eqb name (lit "C04.ok") then
    sB (Spec.C04.ok (ip6_of_table (nth_sx 5 (nth_sx 0 arg))) (read_cfg (nth_sx 0 arg))
                    (map read_sevent (as_list (nth_sx 1 arg))) (read_obs (nth_sx 2 arg)))
  else if eqb name (lit "C07.ok") then sB (Spec.C07.ok (read_obs (nth_sx 2 arg)))
  else if eqb name (lit "C07.same") then sB (Spec.C07.same (read_obs (nth_sx 0 arg)) (read_obs (nth_sx 1 arg)))
  else if eqb name (lit "C15.ok") then
    sB (Spec.C15.ok (map read_sevent (as_list (nth_sx 1 arg))) (read_obs (nth_sx 2 arg)))
  else if eqb name (lit "C08.ok") then
    sB (Spec.C08.ok (ip6_of_table (nth_sx 5 (nth_sx 0 arg))) (read_cfg (nth_sx 0 arg))
          (map read_sevent (as_list (nth_sx 1 arg))) (read_obs (nth_sx 2 arg))
          (match as_list (nth_sx 3 arg) with
           | [h; p; pa; q] => Some {| Spec.C08.k_host := as_str h; Spec.C08.k_port := as_N p;
                                      Spec.C08.k_path := as_str pa; Spec.C08.k_query := as_str q |}
           | _ => None end))
  else if eqb name (lit "proxy") then
    (* arg: upstream prefix strip path query ip6table -> url + what the client does with it *)
    let c := {| px_upstream := as_str (nth_sx 0 arg); px_prefix := as_str (nth_sx 1 arg); px_strip := as_bool (nth_sx 2 arg) |} in
    let url := upstream_url c (as_str (nth_sx 3 arg)) (as_str (nth_sx 4 arg)) in
    L [A url;
       match gemini_from_line (ip6_of_table (nth_sx 5 arg)) url with
       | Ok p => L [sT "connect"; A (p_host p); sN (p_port p); A (p_norm p)]
       | Err k _ => L [sT "refused"; A k]
       | OutOfModel => L [sT "oom"]
       end]
  else if eqb name (lit "C17.ok") then
    (* arg: upstream prefix strip path query ip6table host port line *)
    sB (Spec.C17.ok (ip6_of_table (nth_sx 5 arg))
          {| px_upstream := as_str (nth_sx 0 arg); px_prefix := as_str (nth_sx 1 arg); px_strip := as_bool (nth_sx 2 arg) |}
          (as_str (nth_sx 3 arg)) (as_str (nth_sx 4 arg))
          {| Spec.C17.ob_host := as_str (nth_sx 6 arg); Spec.C17.ob_port := as_N (nth_sx 7 arg); Spec.C17.ob_line := as_str (nth_sx 8 arg) |})
  else if eqb name (lit "route") then
    (* arg: routes ((pattern type) ...) path -> index of the matching route or () *)
    let rs := map (fun r => {| rt_pattern := as_str (nth_sx 0 r);
                               rt_type := if eqb (as_str (nth_sx 1 r)) (lit "exact") then RExact else RPrefix;
                               rt_handler := as_N (nth_sx 2 r) |}) (as_list (nth_sx 0 arg)) in
    match route_to rs (as_str (nth_sx 1 arg)) with Some i => L [sN i] | None => L [] end
  else if eqb name (lit "client") then
    (* arg: request send_on_connect decode_body cap table events *)
    let r := crun (map as_str (as_list (nth_sx 0 arg))) (as_bool (nth_sx 1 arg)) (as_bool (nth_sx 2 arg))
                  (as_N (nth_sx 3 arg)) (decode_of_table (nth_sx 4 arg)) cinit (map read_cevent (as_list (nth_sx 5 arg))) in
    L [show_fut (cfut (fst r)); L (map (fun a => L (map show_caction a)) (snd r))]
  else if eqb name (lit "C13.ok") then
    (* arg: decode_body cap table stream exc observed *)
    sB (Spec.C13.ok (as_bool (nth_sx 0 arg)) (as_N (nth_sx 1 arg)) (decode_of_table (nth_sx 2 arg))
                    (as_str (nth_sx 3 arg)) (read_ostr (nth_sx 4 arg)) (read_fut (nth_sx 5 arg)))
  else if eqb name (lit "tofu_op") then
    (* arg: store op -> completes, states visible after a crash before statement k (k = 0..n), final *)
    let s := read_store (nth_sx 0 arg) in
    let (l, okb) := op_stmts s (nth_sx 1 arg) in
    L [sB okb; L (map (fun k => show_store (after_crash s l k)) (seq 0 (S (length l)))); show_store (finish s l okb)]
  else if eqb name (lit "C12.ok") then
    sB (Spec.C12.ok (read_store (nth_sx 0 arg)) (read_store (nth_sx 1 arg)) (read_store (nth_sx 2 arg)) (as_bool (nth_sx 3 arg)))
  else if eqb name (lit "tofu_check") then
    let r := tofu_check (read_store (nth_sx 0 arg)) (as_str (nth_sx 1 arg)) (as_N (nth_sx 2 arg))
                        (read_presented (nth_sx 3 arg)) (as_str (nth_sx 4 arg)) in
    L [show_store (fst r); show_sresult (snd r)]
  else if eqb name (lit "C03.ok") then
    sB (Spec.C03.ok (read_store (nth_sx 0 arg)) (as_str (nth_sx 1 arg)) (as_N (nth_sx 2 arg)) (read_presented (nth_sx 3 arg))
                    (read_sresult (nth_sx 4 arg)) (read_store (nth_sx 5 arg)))
  else if eqb name (lit "session") then
    (* arg: request decode_body cap table tofu store h p presented now chunks exc *)
    let r := session_call (map as_str (as_list (nth_sx 0 arg))) (as_bool (nth_sx 1 arg)) (as_N (nth_sx 2 arg))
               (decode_of_table (nth_sx 3 arg)) (as_bool (nth_sx 4 arg)) (read_store (nth_sx 5 arg)) (as_str (nth_sx 6 arg))
               (as_N (nth_sx 7 arg)) (read_presented (nth_sx 8 arg)) (as_str (nth_sx 9 arg))
               (map as_str (as_list (nth_sx 10 arg))) (read_ostr (nth_sx 11 arg)) in
    L [show_store (fst (fst r));
       match snd (fst r) with
       | CallResult cr => L [sT "result"; show_cresult cr]
       | CallChanged o n => L [sT "changed"; A o; A n]
       | CallRefused => L [sT "refused"]
       end;
       L (map show_sevent (snd r))]
  else if eqb name (lit "C11.ok") then sB (Spec.C11.ok (map read_sevent' (as_list (nth_sx 0 arg))))
  else if eqb name (lit "relay") then A (relay (as_N (nth_sx 0 arg)) (read_upstream (nth_sx 1 arg)))
  else if eqb name (lit "C18.ok") then
    sB (Spec.C18.ok (as_N (nth_sx 0 arg)) (read_upstream (nth_sx 1 arg)) (as_str (nth_sx 2 arg)) (as_bool (nth_sx 3 arg)))
  else if eqb name (lit "static") then
    (* arg: cfg fs url_path *)
    let f := read_fs (nth_sx 1 arg) in show_sout f (handle (read_scfg (nth_sx 0 arg)) f (as_str (nth_sx 2 arg)))
  else if eqb name (lit "static.listing_text") then
    (* arg: fs dir base -> the text of generate_directory_listing(dir, base)  (Model/Listing.v) *)
    match listing_text format_file_size (read_fs (nth_sx 0 arg)) (read_path (nth_sx 1 arg)) (as_str (nth_sx 2 arg)) with
    | Some t => L [sT "ok"; A t]
    | None => L [sT "none"]
    end
  else if eqb name (lit "gemtext.size") then A (format_file_size (as_N arg))
  else if eqb name (lit "gemtext.parent") then A (parent_str (as_str arg))
  else if eqb name (lit "C02.ok") then
    (* arg: root status served(opt path) leaks *)
    sB (Spec.C02.ok (read_path (nth_sx 0 arg)) (as_Z (nth_sx 1 arg)) (read_opath (nth_sx 2 arg)) (as_bool (nth_sx 3 arg)))
  else if eqb name (lit "upload") then
    (* arg: cfg fs req fault tok -> response + new fs   (tok: the value of secrets.token_hex(8) in the run compared) *)
    let r := handle_upload (read_ucfg (nth_sx 0 arg)) (read_fs (nth_sx 1 arg)) (read_ureq (nth_sx 2 arg))
                           (match as_list (nth_sx 3 arg) with [k] => Some (as_N k) | _ => None end)
                           (as_str (nth_sx 4 arg)) in
    L [match fst r with UResp st m => L [sT "resp"; sZ st; A m] | URaise k => L [sT "raise"; A k] | UOom => L [sT "oom"] end;
       show_fs (snd r)]
  else if eqb name (lit "C14.ok") then
    (* arg: cfg req status target(opt path) before after *)
    sB (Spec.C14.ok (read_ucfg (nth_sx 0 arg)) (read_ureq (nth_sx 1 arg)) (as_Z (nth_sx 2 arg)) (read_opath (nth_sx 3 arg))
                    (read_fs (nth_sx 4 arg)) (read_fs (nth_sx 5 arg)))
  else if eqb name (lit "certauth") then
    (* arg: rules url_path fp *)
    match decide (map read_rule (as_list (nth_sx 0 arg))) (as_str (nth_sx 1 arg)) (read_ostr (nth_sx 2 arg)) with
    | Ok v => show_verdict v
    | _ => L [sT "oom"]
    end
  else if eqb name (lit "C05.ok") then
    (* arg: rules fp status delivered_location(opt) *)
    sB (Spec.C05.ok (map read_rule (as_list (nth_sx 0 arg))) (read_ostr (nth_sx 1 arg)) (as_Z (nth_sx 2 arg)) (read_ostr (nth_sx 3 arg)))
  else if eqb name (lit "certs.fingerprint_of_digest") then
    (* arg: algorithm digest(bytes) -> the fingerprint string the model builds from that digest, or its refusal.
       The oracles are instantiated trivially (certificate = its digest, der / sha256 / sha1 = identity): what is
       compared with the implementation is the string construction - prefix, separator, hex_lower *)
    show_res (fun s => [A s])
      (fingerprint (fun c : str => c) (fun x => x) (fun x => x) (as_str (nth_sx 1 arg)) (as_str (nth_sx 0 arg)))
  else if eqb name (lit "reload.server_args") then
    (* arg: sys.argv[2:] of `nauyaca serve ... --reload ...` -> the list `serve` hands to run_with_reload *)
    L (map A (Model.Reload.server_args (map as_str (as_list arg))))
  else if eqb name (lit "reload.child_argv") then
    (* arg: the same -> the command line of the child the supervisor starts, without the interpreter path *)
    L (map A (tl (Model.Reload.child_argv [] (map as_str (as_list arg)))))
  else L [sT "unknown-model"; A name].
Close Scope N_scope.
