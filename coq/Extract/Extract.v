From Coq Require Import ExtrOcamlBasic.
From NV Require Import Extract.Dispatch.
Extraction "model.ml" Dispatch.dispatch.
