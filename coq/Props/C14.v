(* C14 - Titan uploads change only the authorised target, exactly as sent.  Proofs/Fs_proofs.v *)
From Coq Require Import List NArith ZArith Bool.
From NV Require Import Prelude.Str Prelude.Res Model.Fs Model.Static.
From NV Require Spec.C14 Proofs.Fs_proofs.
Import ListNotations.
Open Scope N_scope.

(* tok is the random part of the temporary file's name (the value of secrets.token_hex(8)): every statement holds
   for every value of it.
   frame: whatever the request, every path other than the target keeps its node, except that
   missing parent directories of the target may have been created (in particular a file that happens to carry the
   temporary name is left alone) *)
Theorem C14_frame : forall c f r flt tok out f' p,
  handle_upload c f r flt tok = (out, f') ->
  lstat f' p <> lstat f p ->
  (lstat f p = None /\ lstat f' p = Some Dir) \/
  (out = UResp 20 (lit "text/gemini") /\ resolve_target c f (q_path r) = Ok (Some p)).
Proof. exact Fs_proofs.frame. Qed.
Print Assumptions C14_frame.

(* a successful store: the target lies inside the upload directory and holds exactly the content *)
Theorem C14_exact : forall c f r tok f' t,
  handle_upload c f r None tok = (UResp 20 (lit "text/gemini"), f') -> q_size r <> 0 ->
  resolve_target c f (q_path r) = Ok (Some t) ->
  path_prefixb (u_root c) t = true /\ lstat f' t = Some (File (q_content r)).
Proof. exact Fs_proofs.exact. Qed.
Print Assumptions C14_exact.

(* a successful delete removes the target and nothing else *)
Theorem C14_delete : forall c f r flt tok f' t,
  handle_upload c f r flt tok = (UResp 20 (lit "text/gemini"), f') -> q_size r = 0 ->
  resolve_target c f (q_path r) = Ok (Some t) ->
  lstat f' t = None /\ u_delete c = true.
Proof. exact Fs_proofs.delete_ok. Qed.
Print Assumptions C14_delete.

(* any change to a regular file requires: valid token, size within the limit, allowed media type,
   deletion enabled for zero-byte requests *)
Theorem C14_guards : forall c f r flt tok out f' p,
  handle_upload c f r flt tok = (out, f') -> lstat f' p <> lstat f p ->
  (Spec.C14.is_file (lstat f p) = true \/ Spec.C14.is_file (lstat f' p) = true) ->
  Spec.C14.guards_ok c r = true.
Proof. exact Fs_proofs.guards. Qed.
Print Assumptions C14_guards.

(* every non-success answer - including a store that failed part-way - leaves every regular file
   unchanged and creates none *)
Theorem C14_failure_noop : forall c f r flt tok out f' p,
  handle_upload c f r flt tok = (out, f') -> out <> UResp 20 (lit "text/gemini") ->
  Spec.C14.is_file (lstat f p) = true \/ Spec.C14.is_file (lstat f' p) = true -> lstat f' p = lstat f p.
Proof. exact Fs_proofs.failure_noop. Qed.
Print Assumptions C14_failure_noop.

(* tie to the code: see C02_code_tie - the upload handler reads the request path through the same function *)
From NV Require Gen.PyGen Equiv.Equiv.
Theorem C14_code_tie : forall (unq : str -> str) path,
  PyGen.gen_canonical_path_segments unq path false =
  match canon_strict (comps (unq path)) [] with Some s => Ok s | None => Err (lit "ValueError") [] end.
Proof. exact Equiv.canonical_segments_strict_tie. Qed.
Print Assumptions C14_code_tie.


(* ---- tie to the code (server/handler.py FileUploadHandler): the statements of coq/Equiv/EquivStatic.v, re-checked here against the definitions regenerated
   from /repo's working tree (coq/Gen); see DESIGN.md 11.8 ---- *)
From Coq Require Import List NArith ZArith Bool.
From NV Require Import Prelude.Str Prelude.Res Prelude.Utf8 Model.Fs Model.Static Model.CertAuth.
From NV Require Import Equiv.StaticGlue Gen.StaticGen.
From NV Require Gen.PyGen.
From NV Require Equiv.EquivStatic.
Theorem C14_code_upload_is_safe_path_tie : forall L c f p,
  gen_upload_is_safe_path L c f p = Ok (path_prefixb (u_root c) p).
Proof. exact EquivStatic.upload_is_safe_path_tie. Qed.
Print Assumptions C14_code_upload_is_safe_path_tie.

Theorem C14_code_resolve_target_tie : forall flt tok c f p,
  contained (u_root c) (gen_resolve_target (model_lib flt tok) c f p) = resolve_target c f p.
Proof. exact EquivStatic.resolve_target_tie. Qed.
Print Assumptions C14_code_resolve_target_tie.

Theorem C14_code_handle_delete_tie : forall flt tok c f r,
  token_ok c (q_token r) = true -> (u_max c <? q_size r)%N = false ->
  match u_types c with Some (t :: ts) => negb (existsb (eqb (q_mime r)) (t :: ts)) | _ => false end = false ->
  q_size r = 0%N ->
  upload_out (gen_handle_delete (model_lib flt tok) c f (q_path r)) = model_out (handle_upload c f r flt tok).
Proof. exact EquivStatic.handle_delete_tie. Qed.
Print Assumptions C14_code_handle_delete_tie.

Theorem C14_code_handle_upload_tie : forall flt tok c f r,
  upload_out (gen_handle_upload (model_lib flt tok) c f r) = model_out (handle_upload c f r flt tok).
Proof. exact EquivStatic.handle_upload_tie. Qed.
Print Assumptions C14_code_handle_upload_tie.



(* ---- tie to the code (protocol/request.py TitanRequest.from_line: the path, size, media type and token the upload handler receives): theorems of coq/Equiv/EquivUrl.v (statements there), re-checked against the definitions
   regenerated from /repo's working tree; see DESIGN.md 11.8 ---- *)
From NV Require Equiv.EquivUrl.
Theorem C14_code_titan_from_line_tie : ltac:(let t := type of @EquivUrl.titan_from_line_tie in exact t).
Proof. exact (@EquivUrl.titan_from_line_tie). Qed.
Print Assumptions C14_code_titan_from_line_tie.

Theorem C14_code_parse_titan_params_tie : ltac:(let t := type of @EquivUrl.parse_titan_params_tie in exact t).
Proof. exact (@EquivUrl.parse_titan_params_tie). Qed.
Print Assumptions C14_code_parse_titan_params_tie.



(* ---- tie to the code (server/protocol.py: the content handed to the upload handler is the first <size> bytes after the request line): theorems of coq/Equiv/EquivServer.v (statements there), re-checked against the definitions
   regenerated from /repo's working tree; see DESIGN.md 11.8 ---- *)
From NV Require Equiv.EquivServer.
Theorem C14_code_data_received_tie : ltac:(let t := type of @EquivServer.data_received_tie in exact t).
Proof. exact (@EquivServer.data_received_tie). Qed.
Print Assumptions C14_code_data_received_tie.

Theorem C14_code_handle_titan_url_tie : ltac:(let t := type of @EquivServer.handle_titan_url_tie in exact t).
Proof. exact (@EquivServer.handle_titan_url_tie). Qed.
Print Assumptions C14_code_handle_titan_url_tie.

Theorem C14_code_process_titan_upload_tie : ltac:(let t := type of @EquivServer.process_titan_upload_tie in exact t).
Proof. exact (@EquivServer.process_titan_upload_tie). Qed.
Print Assumptions C14_code_process_titan_upload_tie.

Theorem C14_code_start_titan_upload_tie : ltac:(let t := type of @EquivServer.start_titan_upload_tie in exact t).
Proof. exact (@EquivServer.start_titan_upload_tie). Qed.
Print Assumptions C14_code_start_titan_upload_tie.


Close Scope N_scope.
