(* C11 - TOFU: nothing is sent to a peer before its certificate is verified.  Proofs/Tofu_proofs.v *)
From Coq Require Import List NArith ZArith Bool.
From NV Require Import Prelude.Str Prelude.Res Model.Tofu Model.ClientProto Model.Session.
From NV Require Spec.C11 Proofs.Tofu_proofs.
Import ListNotations.

(* for every request (URL, Titan parameters, token, content), store, peer certificate and peer
   behaviour: with TOFU on, every write follows an accepting verification and a failed
   verification means the peer received nothing *)
Theorem C11_no_write_before_verify : forall request decode_body cap dw s h p c now chunks exc,
  Spec.C11.ok (snd (session_call request decode_body cap dw true s h p c now chunks exc)) = true.
Proof. exact Tofu_proofs.no_write_before_verify. Qed.
Print Assumptions C11_no_write_before_verify.

Theorem C11_nothing_on_failure : forall request decode_body cap dw s h p c now chunks exc,
  snd (tofu_check s h p c now) <> SAccepted ->
  forall b, ~ In (SWrite b) (snd (session_call request decode_body cap dw true s h p c now chunks exc)).
Proof. exact Tofu_proofs.nothing_on_failure. Qed.
Print Assumptions C11_nothing_on_failure.

(* and when verification passes the request is sent, whole and once *)
Theorem C11_sent_after_accept : forall request decode_body cap dw s h p c now chunks exc s',
  tofu_check s h p c now = (s', SAccepted) ->
  snd (session_call request decode_body cap dw true s h p c now chunks exc) = SVerified SAccepted :: map SWrite request.
Proof. exact Tofu_proofs.sent_after_accept. Qed.
Print Assumptions C11_sent_after_accept.

(* ---- tie to the code (server/tls_protocol.py TLSServerProtocol): the statements of coq/Equiv/EquivTls.v, re-checked here against the definitions regenerated
   from /repo's working tree (coq/Gen); see DESIGN.md 11.8 ---- *)
From Coq Require Import List NArith Bool.
From NV Require Import Prelude.Str Model.TlsPump Equiv.TlsGlue Gen.TlsGen.
From NV Require Equiv.EquivTls.
Theorem C11_code_connection_made_tie : forall fuel, gen_connection_made fuel blank = (cinit, [], None).
Proof. exact EquivTls.connection_made_tie. Qed.
Print Assumptions C11_code_connection_made_tie.

Theorem C11_code_cinit_tie : abs cinit = tinit /\ wf cinit.
Proof. exact EquivTls.cinit_tie. Qed.
Print Assumptions C11_code_cinit_tie.

Theorem C11_code_tstep_tie : forall fuel s e,
  wf s -> live s -> model_ev e = true -> ev_size e < fuel ->
  abs_res (gen_step fuel s e) = Some (tstep (abs s) (abs_ev e)).
Proof. exact EquivTls.tstep_tie. Qed.
Print Assumptions C11_code_tstep_tie.

Theorem C11_code_trun_tie : forall fuel evs,
  forallb model_ev evs = true -> Forall (fun e => ev_size e < fuel) evs ->
  exists s' a,
    gen_run fuel cinit evs = (s', a, None) /\ wf s' /\
    abs_acts a = snd (trun tinit (map abs_ev evs)) /\ teq (abs s') (fst (trun tinit (map abs_ev evs))).
Proof. exact EquivTls.trun_tie. Qed.
Print Assumptions C11_code_trun_tie.

(* ---- tie to the code (client/session.py GeminiClient._get_single, upload): theorems of coq/Equiv/EquivSession.v (statements there), re-checked against the definitions
   regenerated from /repo's working tree; see DESIGN.md 11.8 ---- *)
From NV Require Equiv.EquivSession.
Theorem C11_code_get_single_tie : ltac:(let t := type of @EquivSession.get_single_tie in exact t).
Proof. exact (@EquivSession.get_single_tie). Qed.
Print Assumptions C11_code_get_single_tie.

Theorem C11_code_upload_tie : ltac:(let t := type of @EquivSession.upload_tie in exact t).
Proof. exact (@EquivSession.upload_tie). Qed.
Print Assumptions C11_code_upload_tie.

Theorem C11_code_get_single_c11 : ltac:(let t := type of @EquivSession.get_single_c11 in exact t).
Proof. exact (@EquivSession.get_single_c11). Qed.
Print Assumptions C11_code_get_single_c11.

Theorem C11_code_upload_c11 : ltac:(let t := type of @EquivSession.upload_c11 in exact t).
Proof. exact (@EquivSession.upload_c11). Qed.
Print Assumptions C11_code_upload_c11.

Theorem C11_code_get_single_close_once : ltac:(let t := type of @EquivSession.get_single_close_once in exact t).
Proof. exact (@EquivSession.get_single_close_once). Qed.
Print Assumptions C11_code_get_single_close_once.

Theorem C11_code_upload_close_once : ltac:(let t := type of @EquivSession.upload_close_once in exact t).
Proof. exact (@EquivSession.upload_close_once). Qed.
Print Assumptions C11_code_upload_close_once.

Theorem C11_code_get_single_protocol_args : ltac:(let t := type of @EquivSession.get_single_protocol_args in exact t).
Proof. exact (@EquivSession.get_single_protocol_args). Qed.
Print Assumptions C11_code_get_single_protocol_args.

