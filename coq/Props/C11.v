(* C11 - TOFU: nothing is sent to a peer before its certificate is verified.  Proofs/Tofu_proofs.v *)
From Coq Require Import List NArith ZArith Bool.
From NV Require Import Prelude.Str Prelude.Res Model.Tofu Model.ClientProto Model.Session.
From NV Require Spec.C11 Proofs.Tofu_proofs.
Import ListNotations.

(* for every request (URL, Titan parameters, token, content), store, peer certificate and peer
   behaviour: with TOFU on, every write follows an accepting verification and a failed
   verification means the peer received nothing *)
Theorem C11_no_write_before_verify : forall request decode_body cap dw s h p c now chunks exc,
  Spec.C11.ok (snd (session_call request decode_body cap dw true s h p c now chunks exc)) = true.
Proof. exact Tofu_proofs.no_write_before_verify. Qed.
Print Assumptions C11_no_write_before_verify.

Theorem C11_nothing_on_failure : forall request decode_body cap dw s h p c now chunks exc,
  snd (tofu_check s h p c now) <> SAccepted ->
  forall b, ~ In (SWrite b) (snd (session_call request decode_body cap dw true s h p c now chunks exc)).
Proof. exact Tofu_proofs.nothing_on_failure. Qed.
Print Assumptions C11_nothing_on_failure.

(* and when verification passes the request is sent, whole and once *)
Theorem C11_sent_after_accept : forall request decode_body cap dw s h p c now chunks exc s',
  tofu_check s h p c now = (s', SAccepted) ->
  snd (session_call request decode_body cap dw true s h p c now chunks exc) = SVerified SAccepted :: map SWrite request.
Proof. exact Tofu_proofs.sent_after_accept. Qed.
Print Assumptions C11_sent_after_accept.
