(* C01 - property theorems about the server protocol model (Model/ServerProto.v), for every
   handler behaviour, configuration and event schedule.  Proofs: Proofs/Server_proofs.v. *)
From Coq Require Import List NArith ZArith Bool.
From NV Require Import Prelude.Str Prelude.Res Model.Url Model.Titan Model.ServerProto Spec.ServerTrace.
From NV Require Spec.C01 Proofs.Server_proofs.
Import ListNotations.

(* at most one response is ever started on a connection *)
Theorem C01_single_response : forall ip6 handler mw up ucf ip fp evs,
  Spec.C01.clause_single (run ip6 handler mw up ucf ip fp init evs) = true.
Proof. exact Server_proofs.single_response. Qed.
Print Assumptions C01_single_response.

(* what reaches the peer is nothing, or one well-formed header (+ body only after 2x), then close *)
Theorem C01_shape : forall ip6 handler mw up ucf ip fp evs,
  Spec.C01.clause_shape (run ip6 handler mw up ucf ip fp init evs) = true.
Proof. exact Server_proofs.shape. Qed.
Print Assumptions C01_shape.

(* a body on the wire is the serialisation of a value the handler side produced *)
Theorem C01_faithful : forall ip6 c evs,
  Spec.C01.clause_faithful c evs
    (run ip6 (fun _ => c_hres c) (c_mw c) (c_upload c) (c_upfail c) (c_ip c) (c_fp c) init evs) = true.
Proof. exact Server_proofs.faithful. Qed.
Print Assumptions C01_faithful.

(* nothing is written after the peer has gone *)
Theorem C01_silent_after_lost : forall ip6 handler mw up ucf ip fp evs,
  Spec.C01.clause_silent_after_lost evs (run ip6 handler mw up ucf ip fp init evs) false = true.
Proof. exact Server_proofs.silent_after_lost. Qed.
Print Assumptions C01_silent_after_lost.

(* once triggered and quiescent, the connection has been answered and closed.
   Full statement (kept type-checked); it is FALSE of the model only because the model declines to
   judge request lines outside the URL model (non-ASCII authority: action AOutOfModel, nothing sent) *)
Definition C01_obligation_full_statement : Prop := forall ip6 c evs,
  Spec.C01.clause_obligation ip6 c evs
    (run ip6 (fun _ => c_hres c) (c_mw c) (c_upload c) (c_upfail c) (c_ip c) (c_fp c) init evs) = true.

(* proved: the same for every schedule whose request line is inside the URL model *)
Theorem C01_obligation_partial : forall ip6 c evs,
  existsb (fun a => match a with AOutOfModel => true | _ => false end)
          (flat (run ip6 (fun _ => c_hres c) (c_mw c) (c_upload c) (c_upfail c) (c_ip c) (c_fp c) init evs)) = false ->
  Spec.C01.clause_obligation ip6 c evs
    (run ip6 (fun _ => c_hres c) (c_mw c) (c_upload c) (c_upfail c) (c_ip c) (c_fp c) init evs) = true.
Proof. exact Server_proofs.obligation_partial. Qed.
Print Assumptions C01_obligation_partial.

(* stalled past the request timeout (judged from the schedule alone, not from the implementation's own timer flag): one
   response and a close *)
From NV Require Proofs.C01_timeout.
Theorem C01_timeout_obligation_partial : forall ip6 c evs,
  valid_reads evs (run ip6 (fun _ => c_hres c) (c_mw c) (c_upload c) (c_upfail c) (c_ip c) (c_fp c) init evs) false = true ->
  existsb (fun a => match a with AOutOfModel => true | _ => false end)
          (flat (run ip6 (fun _ => c_hres c) (c_mw c) (c_upload c) (c_upfail c) (c_ip c) (c_fp c) init evs)) = false ->
  Spec.C01.clause_timeout_obligation ip6 c evs
    (run ip6 (fun _ => c_hres c) (c_mw c) (c_upload c) (c_upfail c) (c_ip c) (c_fp c) init evs) = true.
Proof. exact C01_timeout.timeout_obligation_partial. Qed.
Print Assumptions C01_timeout_obligation_partial.

(* ---- the same theorems about the code: `gen_run` / `gen_final` / `gen_step` / `cl_data_received` are the connection's
   transition function assembled from the translation of /repo/src/nauyaca/server/protocol.py (coq/Gen/ServerGen.v,
   regenerated from the working tree on every run; event dispatch in coq/Equiv/ServerLoop.v).  `reenc_ok` is the one
   assumed fact about CPython's lenient UTF-8 decoder (satisfiable: EquivServerLoop.reenc_ok_satisfiable). ---- *)
From NV Require Import Prelude.Utf8 Equiv.ServerGlue Gen.ServerGen Equiv.ServerLoop.
From NV Require Equiv.EquivServerLoop Proofs.Server_on_code.
Theorem C01_single_response_on_code : forall reenc : str -> str,
  EquivServerLoop.reenc_ok reenc ->
  forall ip6 handler mw up ucf ip fp evs,
  Spec.C01.clause_single (gen_run reenc ip6 handler mw up ucf ip fp init evs) = true.
Proof. exact Server_on_code.single_response_on_code. Qed.
Print Assumptions C01_single_response_on_code.

Theorem C01_shape_on_code : forall reenc : str -> str,
  EquivServerLoop.reenc_ok reenc ->
  forall ip6 handler mw up ucf ip fp evs,
  Spec.C01.clause_shape (gen_run reenc ip6 handler mw up ucf ip fp init evs) = true.
Proof. exact Server_on_code.shape_on_code. Qed.
Print Assumptions C01_shape_on_code.

Theorem C01_faithful_on_code : forall reenc : str -> str,
  EquivServerLoop.reenc_ok reenc ->
  forall ip6 c evs,
  Spec.C01.clause_faithful c evs
    (gen_run reenc ip6 (fun _ => c_hres c) (c_mw c) (c_upload c) (c_upfail c) (c_ip c) (c_fp c) init evs) = true.
Proof. exact Server_on_code.faithful_on_code. Qed.
Print Assumptions C01_faithful_on_code.

Theorem C01_silent_after_lost_on_code : forall reenc : str -> str,
  EquivServerLoop.reenc_ok reenc ->
  forall ip6 handler mw up ucf ip fp evs,
  Spec.C01.clause_silent_after_lost evs (gen_run reenc ip6 handler mw up ucf ip fp init evs) false = true.
Proof. exact Server_on_code.silent_after_lost_on_code. Qed.
Print Assumptions C01_silent_after_lost_on_code.

Theorem C01_obligation_on_code_partial : forall reenc : str -> str,
  EquivServerLoop.reenc_ok reenc ->
  forall ip6 c evs,
  existsb (fun a => match a with AOutOfModel => true | _ => false end)
          (flat (gen_run reenc ip6 (fun _ => c_hres c) (c_mw c) (c_upload c) (c_upfail c) (c_ip c) (c_fp c) init evs)) = false ->
  Spec.C01.clause_obligation ip6 c evs
    (gen_run reenc ip6 (fun _ => c_hres c) (c_mw c) (c_upload c) (c_upfail c) (c_ip c) (c_fp c) init evs) = true.
Proof. exact Server_on_code.obligation_partial_on_code. Qed.
Print Assumptions C01_obligation_on_code_partial.

(* ---- the upload handler's CALL may fail before an awaitable exists (DESIGN 11.25, 11.26).  All theorems above quantify over it:
   `ucf` / `c_upfail c` = None (an awaitable comes back, completion arrives as EDone) or Some msg (the call raised Exception(msg),
   or handed back something asyncio.create_task refuses).  Stated once explicitly: such a call counts as an invocation
   (action AUploadCall), creates no task, and is answered exactly as a task that failed with the same message is. ---- *)
Theorem C01_upload_call_failure_answered_as_failed_task : forall handler ucf msg s t id rest,
  titan s = Some t ->
  start_upload true (Some msg) s
    = (fst (upload_failed s msg), AUploadCall (t_line t) (content s) :: snd (upload_failed s msg)) /\
  is_invocation (AUploadCall (t_line t) (content s)) = true /\
  spawn_id (AUploadCall (t_line t) (content s)) = None /\
  (take_task id (pending s) = (Some TUpload, rest) ->
   task_done handler true ucf s id (ORaise msg) = upload_failed (set_pending s rest) msg).
Proof.
  intros handler ucf msg s t id rest T. repeat split.
  - unfold start_upload. rewrite T. destruct (upload_failed s msg). reflexivity.
  - intro H. unfold task_done. rewrite H. reflexivity.
Qed.
Print Assumptions C01_upload_call_failure_answered_as_failed_task.

(* ... and _start_titan_upload as translated from the source - its `except Exception as e` clause included - is that model
   function, for every behaviour of the call (the oracle `upcall_of ucf`, coq/Equiv/ServerGlue.v) *)
From NV Require Equiv.EquivServer.
Theorem C01_code_start_titan_upload_tie : ltac:(let t := type of @EquivServer.start_titan_upload_tie in exact t).
Proof. exact (@EquivServer.start_titan_upload_tie). Qed.
Print Assumptions C01_code_start_titan_upload_tie.

(* ---- tie to the code (server/tls_protocol.py: what the PyOpenSSL wrapper does with the response writes and the close): theorems of coq/Equiv/EquivTls.v (statements there), re-checked against the definitions
   regenerated from /repo's working tree; see DESIGN.md 11.8 ---- *)
From NV Require Equiv.EquivTls.
Theorem C01_code_wrapper_write_tie : ltac:(let t := type of @EquivTls.wrapper_write_tie in exact t).
Proof. exact (@EquivTls.wrapper_write_tie). Qed.
Print Assumptions C01_code_wrapper_write_tie.

Theorem C01_code_wrapper_close_spec : ltac:(let t := type of @EquivTls.wrapper_close_spec in exact t).
Proof. exact (@EquivTls.wrapper_close_spec). Qed.
Print Assumptions C01_code_wrapper_close_spec.

Theorem C01_code_trun_tie : ltac:(let t := type of @EquivTls.trun_tie in exact t).
Proof. exact (@EquivTls.trun_tie). Qed.
Print Assumptions C01_code_trun_tie.

(* ---- tie to the code: every loop.create_server call leaves asyncio's TLS handshake / shutdown timing at its defaults (a shorter shutdown allowance cuts large responses to slow readers short) (coq/Proofs/TlsListeners.v): re-checked here against the definitions regenerated from /repo's working tree; see DESIGN.md 11.8 ---- *)
From NV Require Proofs.TlsListeners.
Theorem C01_code_listeners_default_timing : ltac:(let t := type of @TlsListeners.listeners_default_timing in exact t).
Proof. exact (@TlsListeners.listeners_default_timing). Qed.
Print Assumptions C01_code_listeners_default_timing.
