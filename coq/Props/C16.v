(* C16 - property theorems.  Only statements; proofs live in Proofs/C16_proofs.v. *)
From Coq Require Import List NArith ZArith Bool.
From NV Require Import Prelude.Str Prelude.Res Model.Redirect.
From NV Require Spec.C16 Proofs.C16_proofs.
Import ListNotations.

(* at most max_redirects + 1 connections, for every server behaviour (fetch may depend on the hop) *)
Theorem C16_bound : forall fetch max u,
  length (snd (get fetch true max u)) <= max + 1.
Proof. exact C16_proofs.bound. Qed.
Print Assumptions C16_bound.

(* the Python recursion terminates: the fuel given by `get` is never exhausted *)
Theorem C16_terminates : forall fetch max u, fst (get fetch true max u) <> OutOfFuel.
Proof. exact C16_proofs.terminates. Qed.
Print Assumptions C16_terminates.

(* every URL requested after the first starts with gemini:// *)
Theorem C16_scheme : forall fetch max u,
  Forall (fun x => prefixb gemini_prefix x = true) (tl (snd (get fetch true max u))).
Proof. exact C16_proofs.scheme. Qed.
Print Assumptions C16_scheme.

(* no URL is requested twice: loops are cut, not walked *)
Theorem C16_loop_free : forall fetch max u, NoDup (snd (get fetch true max u)).
Proof. exact C16_proofs.loop_free. Qed.
Print Assumptions C16_loop_free.

(* a followable redirect is never handed back as if it were final content *)
Theorem C16_no_redirect_as_content : forall fetch max u r,
  fst (get fetch true max u) = Final r -> Spec.C16.followable r = false.
Proof. exact C16_proofs.no_redirect_as_content. Qed.
Print Assumptions C16_no_redirect_as_content.

(* a loop-free chain of at most max redirects through a scripted table is followed to its end *)
Theorem C16_follows : forall tab max u l final,
  Spec.C16.walk tab max u = (l, Some final) -> NoDup l ->
  get (fun _ x => match tab x with Some r => Ok r | None => Err (lit "unscripted") [] end) true max u = (Final final, l).
Proof. exact C16_proofs.follows. Qed.
Print Assumptions C16_follows.

(* following disabled: exactly one connection, the answer unchanged *)
Theorem C16_disabled : forall fetch max u r,
  fetch 0 u = Ok r -> get fetch false max u = (Final r, [u]).
Proof. exact C16_proofs.disabled. Qed.
Print Assumptions C16_disabled.

(* the whole predicate holds of the model against any scripted table *)
Theorem C16_ok : forall tab follow max u,
  Spec.C16.ok tab follow max u
    (get (fun _ x => match tab x with Some r => Ok r | None => Err (lit "unscripted") [] end) follow max u) = true.
Proof. exact C16_proofs.ok_model. Qed.
Print Assumptions C16_ok.

(* tie to the code: the definition regenerated from GeminiClient._get_with_redirects computes the model's walk *)
From NV Require Gen.PyGen Equiv.Equiv.
Theorem C16_code_tie : forall fetch fuel url max chain,
  (forall i u m, fetch i u <> Err (lit "OutOfFuel") m) ->
  Equiv.outcome_of (PyGen.gen_get_with_redirects fetch fuel url max chain) = fst (follow fetch fuel max url chain).
Proof. exact Equiv.get_with_redirects_tie. Qed.
Print Assumptions C16_code_tie.

(* ---- tie to the code (client/session.py GeminiClient.__init__ and get): theorems of coq/Equiv/EquivSession.v (statements there), re-checked against the definitions
   regenerated from /repo's working tree; see DESIGN.md 11.8 ---- *)
From NV Require Equiv.EquivSession.
Theorem C16_code_init_tie : ltac:(let t := type of @EquivSession.init_tie in exact t).
Proof. exact (@EquivSession.init_tie). Qed.
Print Assumptions C16_code_init_tie.

Theorem C16_code_init_defaults : ltac:(let t := type of @EquivSession.init_defaults in exact t).
Proof. exact (@EquivSession.init_defaults). Qed.
Print Assumptions C16_code_init_defaults.

Theorem C16_code_get_tie : ltac:(let t := type of @EquivSession.get_tie in exact t).
Proof. exact (@EquivSession.get_tie). Qed.
Print Assumptions C16_code_get_tie.

(* ---- tie to the code (client/session.py: get -> _get_with_redirects with the constructor's bound = the model's Redirect.get): theorems of coq/Equiv/EquivSessionGet.v (statements there), re-checked against the definitions
   regenerated from /repo's working tree; see DESIGN.md 11.8 ---- *)
From NV Require Equiv.EquivSessionGet.
Theorem C16_code_get_redirect_tie : ltac:(let t := type of @EquivSessionGet.get_redirect_tie in exact t).
Proof. exact (@EquivSessionGet.get_redirect_tie). Qed.
Print Assumptions C16_code_get_redirect_tie.

(* the redirect target is the whole meta of a 3x response (GeminiResponse.redirect_url, is_redirect) *)
Theorem C16_code_response_redirect_url_tie : ltac:(let t := type of @Equiv.response_redirect_url_tie in exact t).
Proof. exact (@Equiv.response_redirect_url_tie). Qed.
Print Assumptions C16_code_response_redirect_url_tie.
Theorem C16_code_status_is_redirect_tie : ltac:(let t := type of @Equiv.status_is_redirect_tie in exact t).
Proof. exact (@Equiv.status_is_redirect_tie). Qed.
Print Assumptions C16_code_status_is_redirect_tie.

(* ---- tie to the code (src/nauyaca/__main__.py, the `get` command: a wiring layer over GeminiClient): theorems of
   coq/Equiv/EquivCliClient.v (statements there), re-checked against the definitions regenerated from /repo's working tree by
   translate/py2coq_cliclient.py; see DESIGN.md 11.8 ---- *)
From NV Require Equiv.EquivCliClient.
(* every argument of GeminiClient(..) / client.get(..) is the option's value *)
Theorem C16_code_cli_get_wiring_tie : ltac:(let t := type of @EquivCliClient.cli_get_wiring_tie in exact t).
Proof. exact (@EquivCliClient.cli_get_wiring_tie). Qed.
Print Assumptions C16_code_cli_get_wiring_tie.
(* follow_redirects = not --no-redirects, for ALL values of --max-redirects *)
Theorem C16_code_cli_get_follow : ltac:(let t := type of @EquivCliClient.cli_get_follow in exact t).
Proof. exact (@EquivCliClient.cli_get_follow). Qed.
Print Assumptions C16_code_cli_get_follow.
(* the client's bound is the option's value *)
Theorem C16_code_cli_get_max : ltac:(let t := type of @EquivCliClient.cli_get_max in exact t).
Proof. exact (@EquivCliClient.cli_get_max). Qed.
Print Assumptions C16_code_cli_get_max.
Theorem C16_code_cli_get_exit_tie : ltac:(let t := type of @EquivCliClient.cli_get_exit_tie in exact t).
Proof. exact (@EquivCliClient.cli_get_exit_tie). Qed.
Print Assumptions C16_code_cli_get_exit_tie.
Theorem C16_code_cli_get_command_tie : ltac:(let t := type of @EquivCliClient.cli_get_command_tie in exact t).
Proof. exact (@EquivCliClient.cli_get_command_tie). Qed.
Print Assumptions C16_code_cli_get_command_tie.
Theorem C16_code_cli_get_defaults : ltac:(let t := type of @EquivCliClient.cli_get_defaults in exact t).
Proof. exact (@EquivCliClient.cli_get_defaults). Qed.
Print Assumptions C16_code_cli_get_defaults.
Theorem C16_code_cli_get_options : ltac:(let t := type of @EquivCliClient.cli_get_options in exact t).
Proof. exact (@EquivCliClient.cli_get_options). Qed.
Print Assumptions C16_code_cli_get_options.

(* ---- C16 of the command line (coq/Proofs/C16_cli.v): the theorems above instantiated through the regenerated wiring, for every
   option values and every server behaviour ---- *)
From NV Require Proofs.C16_cli.
(* `nauyaca get` = GeminiClient.get (regenerated constructor, get, redirect walk) with follow = not --no-redirects, bound = -r *)
Theorem C16_code_cli_get_is_session_get : ltac:(let t := type of @C16_cli.cli_get_is_session_get in exact t).
Proof. exact (@C16_cli.cli_get_is_session_get). Qed.
Print Assumptions C16_code_cli_get_is_session_get.
(* the extracted model the live runs are judged against is that run *)
Theorem C16_code_cli_model_is_code : ltac:(let t := type of @C16_cli.cli_model_is_code in exact t).
Proof. exact (@C16_cli.cli_model_is_code). Qed.
Print Assumptions C16_code_cli_model_is_code.
(* at most max_redirects + 1 connections *)
Theorem C16_code_cli_bound : ltac:(let t := type of @C16_cli.cli_bound in exact t).
Proof. exact (@C16_cli.cli_bound). Qed.
Print Assumptions C16_code_cli_bound.
(* --no-redirects: exactly one connection, the 3x returned unchanged *)
Theorem C16_code_cli_no_redirects : ltac:(let t := type of @C16_cli.cli_no_redirects in exact t).
Proof. exact (@C16_cli.cli_no_redirects). Qed.
Print Assumptions C16_code_cli_no_redirects.
Theorem C16_code_cli_terminates : ltac:(let t := type of @C16_cli.cli_terminates in exact t).
Proof. exact (@C16_cli.cli_terminates). Qed.
Print Assumptions C16_code_cli_terminates.
Theorem C16_code_cli_scheme : ltac:(let t := type of @C16_cli.cli_scheme in exact t).
Proof. exact (@C16_cli.cli_scheme). Qed.
Print Assumptions C16_code_cli_scheme.
Theorem C16_code_cli_loop_free : ltac:(let t := type of @C16_cli.cli_loop_free in exact t).
Proof. exact (@C16_cli.cli_loop_free). Qed.
Print Assumptions C16_code_cli_loop_free.
(* following enabled: a followable redirect is never the command's final response, for EVERY --max-redirects (0 included) *)
Theorem C16_code_cli_no_redirect_as_content : ltac:(let t := type of @C16_cli.cli_no_redirect_as_content in exact t).
Proof. exact (@C16_cli.cli_no_redirect_as_content). Qed.
Print Assumptions C16_code_cli_no_redirect_as_content.
Theorem C16_code_cli_follows : ltac:(let t := type of @C16_cli.cli_follows in exact t).
Proof. exact (@C16_cli.cli_follows). Qed.
Print Assumptions C16_code_cli_follows.
Theorem C16_code_cli_ok : ltac:(let t := type of @C16_cli.cli_ok in exact t).
Proof. exact (@C16_cli.cli_ok). Qed.
Print Assumptions C16_code_cli_ok.
(* exit status 0 iff the fetch ended in a response with status < 40 - which, with following enabled, is not a followable redirect *)
Theorem C16_code_cli_exit_zero : ltac:(let t := type of @C16_cli.cli_exit_zero in exact t).
Proof. exact (@C16_cli.cli_exit_zero). Qed.
Print Assumptions C16_code_cli_exit_zero.
Theorem C16_code_cli_exit_zero_final : ltac:(let t := type of @C16_cli.cli_exit_zero_final in exact t).
Proof. exact (@C16_cli.cli_exit_zero_final). Qed.
Print Assumptions C16_code_cli_exit_zero_final.
Theorem C16_code_cli_command : ltac:(let t := type of @C16_cli.cli_command in exact t).
Proof. exact (@C16_cli.cli_command). Qed.
Print Assumptions C16_code_cli_command.
(* non-vacuity: -r 0 against a one-hop chain is one connection and an error, not the 31 as content *)
Theorem C16_code_cli_r0_one_hop : ltac:(let t := type of @C16_cli.ex_cli_r0_one_hop in exact t).
Proof. exact (@C16_cli.ex_cli_r0_one_hop). Qed.
Print Assumptions C16_code_cli_r0_one_hop.
