(* C16 - property theorems.  Only statements; proofs live in Proofs/C16_proofs.v. *)
From Coq Require Import List NArith ZArith Bool.
From NV Require Import Prelude.Str Prelude.Res Model.Redirect.
From NV Require Spec.C16 Proofs.C16_proofs.
Import ListNotations.

(* at most max_redirects + 1 connections, for every server behaviour (fetch may depend on the hop) *)
Theorem C16_bound : forall fetch max u,
  length (snd (get fetch true max u)) <= max + 1.
Proof. exact C16_proofs.bound. Qed.
Print Assumptions C16_bound.

(* the Python recursion terminates: the fuel given by `get` is never exhausted *)
Theorem C16_terminates : forall fetch max u, fst (get fetch true max u) <> OutOfFuel.
Proof. exact C16_proofs.terminates. Qed.
Print Assumptions C16_terminates.

(* every URL requested after the first starts with gemini:// *)
Theorem C16_scheme : forall fetch max u,
  Forall (fun x => prefixb gemini_prefix x = true) (tl (snd (get fetch true max u))).
Proof. exact C16_proofs.scheme. Qed.
Print Assumptions C16_scheme.

(* no URL is requested twice: loops are cut, not walked *)
Theorem C16_loop_free : forall fetch max u, NoDup (snd (get fetch true max u)).
Proof. exact C16_proofs.loop_free. Qed.
Print Assumptions C16_loop_free.

(* a followable redirect is never handed back as if it were final content *)
Theorem C16_no_redirect_as_content : forall fetch max u r,
  fst (get fetch true max u) = Final r -> Spec.C16.followable r = false.
Proof. exact C16_proofs.no_redirect_as_content. Qed.
Print Assumptions C16_no_redirect_as_content.

(* a loop-free chain of at most max redirects through a scripted table is followed to its end *)
Theorem C16_follows : forall tab max u l final,
  Spec.C16.walk tab max u = (l, Some final) -> NoDup l ->
  get (fun _ x => match tab x with Some r => Ok r | None => Err (lit "unscripted") [] end) true max u = (Final final, l).
Proof. exact C16_proofs.follows. Qed.
Print Assumptions C16_follows.

(* following disabled: exactly one connection, the answer unchanged *)
Theorem C16_disabled : forall fetch max u r,
  fetch 0 u = Ok r -> get fetch false max u = (Final r, [u]).
Proof. exact C16_proofs.disabled. Qed.
Print Assumptions C16_disabled.

(* the whole predicate holds of the model against any scripted table *)
Theorem C16_ok : forall tab follow max u,
  Spec.C16.ok tab follow max u
    (get (fun _ x => match tab x with Some r => Ok r | None => Err (lit "unscripted") [] end) follow max u) = true.
Proof. exact C16_proofs.ok_model. Qed.
Print Assumptions C16_ok.

(* tie to the code: the definition regenerated from GeminiClient._get_with_redirects computes the model's walk *)
From NV Require Gen.PyGen Equiv.Equiv.
Theorem C16_code_tie : forall fetch fuel url max chain,
  (forall i u m, fetch i u <> Err (lit "OutOfFuel") m) ->
  Equiv.outcome_of (PyGen.gen_get_with_redirects fetch fuel url max chain) = fst (follow fetch fuel max url chain).
Proof. exact Equiv.get_with_redirects_tie. Qed.
Print Assumptions C16_code_tie.

(* ---- tie to the code (client/session.py GeminiClient.__init__ and get): theorems of coq/Equiv/EquivSession.v (statements there), re-checked against the definitions
   regenerated from /repo's working tree; see DESIGN.md 11.8 ---- *)
From NV Require Equiv.EquivSession.
Theorem C16_code_init_tie : ltac:(let t := type of @EquivSession.init_tie in exact t).
Proof. exact (@EquivSession.init_tie). Qed.
Print Assumptions C16_code_init_tie.

Theorem C16_code_init_defaults : ltac:(let t := type of @EquivSession.init_defaults in exact t).
Proof. exact (@EquivSession.init_defaults). Qed.
Print Assumptions C16_code_init_defaults.

Theorem C16_code_get_tie : ltac:(let t := type of @EquivSession.get_tie in exact t).
Proof. exact (@EquivSession.get_tie). Qed.
Print Assumptions C16_code_get_tie.

(* ---- tie to the code (client/session.py: get -> _get_with_redirects with the constructor's bound = the model's Redirect.get): theorems of coq/Equiv/EquivSessionGet.v (statements there), re-checked against the definitions
   regenerated from /repo's working tree; see DESIGN.md 11.8 ---- *)
From NV Require Equiv.EquivSessionGet.
Theorem C16_code_get_redirect_tie : ltac:(let t := type of @EquivSessionGet.get_redirect_tie in exact t).
Proof. exact (@EquivSessionGet.get_redirect_tie). Qed.
Print Assumptions C16_code_get_redirect_tie.

(* the redirect target is the whole meta of a 3x response (GeminiResponse.redirect_url, is_redirect) *)
Theorem C16_code_response_redirect_url_tie : ltac:(let t := type of @Equiv.response_redirect_url_tie in exact t).
Proof. exact (@Equiv.response_redirect_url_tie). Qed.
Print Assumptions C16_code_response_redirect_url_tie.
Theorem C16_code_status_is_redirect_tie : ltac:(let t := type of @Equiv.status_is_redirect_tie in exact t).
Proof. exact (@Equiv.status_is_redirect_tie). Qed.
Print Assumptions C16_code_status_is_redirect_tie.
