(* C07 - outcome independent of read segmentation; handlers run at most once. *)
From Coq Require Import List NArith ZArith Bool.
From NV Require Import Prelude.Str Prelude.Res Model.Url Model.Titan Model.ServerProto Spec.ServerTrace.
From NV Require Spec.C07 Proofs.Server_proofs.
Import ListNotations.

(* at most one request-handler or upload-handler invocation, whatever the schedule *)
Theorem C07_at_most_once : forall ip6 handler mw up ip fp evs,
  Spec.C07.at_most_once (run ip6 handler mw up ip fp init evs) = true.
Proof. exact Server_proofs.at_most_once. Qed.
Print Assumptions C07_at_most_once.

(* once the request is complete, further reads change nothing but the buffer *)
Theorem C07_trailing_ignored : forall ip6 handler mw up ip fp s d,
  line_rcvd s = true -> await_titan s = false ->
  data_received ip6 handler mw up ip fp s d = (set_buf s (buf s ++ d) true, []).
Proof. exact Server_proofs.trailing_ignored. Qed.
Print Assumptions C07_trailing_ignored.

(* segmentation independence: any way of cutting the client's bytes into reads and slices
   produces the same actions as delivering them in one piece *)
Theorem C07_refines : forall ip6 handler mw up ip fp (reads : list (list str)),
  flat (run ip6 handler mw up ip fp init (map ERead reads)) =
  flat (run ip6 handler mw up ip fp init [ERead [concat (concat reads)]]).
Proof. exact Server_proofs.refines. Qed.
Print Assumptions C07_refines.
