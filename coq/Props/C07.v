(* C07 - outcome independent of read segmentation; handlers run at most once. *)
From Coq Require Import List NArith ZArith Bool.
From NV Require Import Prelude.Str Prelude.Res Model.Url Model.Titan Model.ServerProto Spec.ServerTrace.
From NV Require Spec.C07 Proofs.Server_proofs.
Import ListNotations.

(* at most one request-handler or upload-handler invocation, whatever the schedule *)
Theorem C07_at_most_once : forall ip6 handler mw up ucf ip fp evs,
  Spec.C07.at_most_once (run ip6 handler mw up ucf ip fp init evs) = true.
Proof. exact Server_proofs.at_most_once. Qed.
Print Assumptions C07_at_most_once.

(* once the request is complete, further reads change nothing but the buffer *)
Theorem C07_trailing_ignored : forall ip6 handler mw up ucf ip fp s d,
  line_rcvd s = true -> await_titan s = false ->
  data_received ip6 handler mw up ucf ip fp s d = (set_buf s (buf s ++ d) true, []).
Proof. exact Server_proofs.trailing_ignored. Qed.
Print Assumptions C07_trailing_ignored.

(* segmentation independence: any way of cutting the client's bytes into reads and slices
   produces the same actions as delivering them in one piece *)
Theorem C07_refines : forall ip6 handler mw up ucf ip fp (reads : list (list str)),
  flat (run ip6 handler mw up ucf ip fp init (map ERead reads)) =
  flat (run ip6 handler mw up ucf ip fp init [ERead [concat (concat reads)]]).
Proof. exact Server_proofs.refines. Qed.
Print Assumptions C07_refines.

(* ---- the same theorems about the code: `gen_run` / `gen_final` / `gen_step` / `cl_data_received` are the connection's
   transition function assembled from the translation of /repo/src/nauyaca/server/protocol.py (coq/Gen/ServerGen.v,
   regenerated from the working tree on every run; event dispatch in coq/Equiv/ServerLoop.v).  `reenc_ok` is the one
   assumed fact about CPython's lenient UTF-8 decoder (satisfiable: EquivServerLoop.reenc_ok_satisfiable). ---- *)
From NV Require Import Prelude.Utf8 Equiv.ServerGlue Gen.ServerGen Equiv.ServerLoop.
From NV Require Equiv.EquivServerLoop Proofs.Server_on_code.
Theorem C07_at_most_once_on_code : forall reenc : str -> str,
  EquivServerLoop.reenc_ok reenc ->
  forall ip6 handler mw up ucf ip fp evs,
  Spec.C07.at_most_once (gen_run reenc ip6 handler mw up ucf ip fp init evs) = true.
Proof. exact Server_on_code.at_most_once_on_code. Qed.
Print Assumptions C07_at_most_once_on_code.

Theorem C07_trailing_ignored_on_code : forall reenc : str -> str,
  EquivServerLoop.reenc_ok reenc ->
  forall ip6 handler mw up ucf ip fp s d,
  line_rcvd s = true -> await_titan s = false ->
  cl_data_received reenc ip6 handler mw up (upcall_of ucf) ip fp s d = (set_buf s (buf s ++ d) true, []).
Proof. exact Server_on_code.trailing_ignored_on_code. Qed.
Print Assumptions C07_trailing_ignored_on_code.

Theorem C07_refines_on_code : forall reenc : str -> str,
  EquivServerLoop.reenc_ok reenc ->
  forall ip6 handler mw up ucf ip fp (reads : list (list str)),
  flat (gen_run reenc ip6 handler mw up ucf ip fp init (map ERead reads)) =
  flat (gen_run reenc ip6 handler mw up ucf ip fp init [ERead [concat (concat reads)]]).
Proof. exact Server_on_code.refines_on_code. Qed.
Print Assumptions C07_refines_on_code.

(* ---- tie to the code (server/tls_protocol.py: every plaintext slice OpenSSL yields reaches the inner protocol, in order, in the read it arrived in): theorems of coq/Equiv/EquivTls.v (statements there), re-checked against the definitions
   regenerated from /repo's working tree; see DESIGN.md 11.8 ---- *)
From NV Require Equiv.EquivTls.
Theorem C07_code_tstep_tie : ltac:(let t := type of @EquivTls.tstep_tie in exact t).
Proof. exact (@EquivTls.tstep_tie). Qed.
Print Assumptions C07_code_tstep_tie.

Theorem C07_code_trun_tie : ltac:(let t := type of @EquivTls.trun_tie in exact t).
Proof. exact (@EquivTls.trun_tie). Qed.
Print Assumptions C07_code_trun_tie.

