(* C02 - static serving never escapes the document root.  Proofs/Fs_proofs.v *)
From Coq Require Import List NArith ZArith Bool.
From NV Require Import Prelude.Str Prelude.Res Prelude.Utf8 Model.Fs Model.Static.
From NV Require Spec.C02 Proofs.Fs_proofs.
Import ListNotations.

(* a success response carries the content of a regular file whose location is completely
   resolved (resolving it again changes nothing) and lies inside the document root *)
Theorem C02_containment : forall c f url q mime t,
  handle c f url = OServe q mime t ->
  path_prefixb (s_root c) q = true /\ realpath f [] q = RPath q /\
  exists content, lstat f q = Some (File content) /\ read_text content = Some t.
Proof. exact Fs_proofs.containment. Qed.
Print Assumptions C02_containment.

(* ... or the listing of a directory with the same two properties *)
Theorem C02_listing_inside : forall c f url d,
  handle c f url = OListing d ->
  path_prefixb (s_root c) d = true /\ realpath f [] d = RPath d /\ lstat f d = Some Dir /\ s_listing c = true.
Proof. exact Fs_proofs.listing_inside. Qed.
Print Assumptions C02_listing_inside.

(* every other outcome is a non-success status with one of five fixed messages: no file content *)
Theorem C02_no_leak : forall c f url st m,
  handle c f url = OStatus st m ->
  (st = 51 /\ m = lit "Not found")%Z \/ (st = 50 /\ m = lit "File too large - use alternative protocol")%Z \/
  (st = 40 /\ m = lit "File encoding error (not UTF-8)")%Z \/ (st = 40 /\ m = lit "Error generating directory listing")%Z.
Proof. exact Fs_proofs.no_leak. Qed.
Print Assumptions C02_no_leak.

(* containment is by path components: a sibling whose name merely extends the root's name is outside *)
Theorem C02_prefix_sibling : forall r a x q, x <> [] -> path_prefixb (r ++ [a]) (r ++ [a ++ x] ++ q) = false.
Proof. exact Fs_proofs.prefix_sibling. Qed.
Print Assumptions C02_prefix_sibling.

(* reachability: in a tree without symbolic links, a regular UTF-8 file within the size limit is
   served when requested by its own path, literal (names without '%') ... *)
Theorem C02_reachable_literal : forall c f segs content t,
  (forall p n, In (p, n) f -> match n with Link _ => False | _ => True end) ->
  lstat f (s_root c ++ segs) = Some (File content) -> segs <> [] ->
  (forall n, In n segs -> n <> [] /\ n <> dot /\ n <> dotdot /\ mem ch_slash n = false /\ mem ch_pct n = false /\ mem 0%N n = false) ->
  (length (s_root c ++ segs) < 1000)%nat ->
  (N.of_nat (length content) <= s_max c)%N -> read_text content = Some t ->
  (* the document root itself is a canonical path, and no name exceeds the 255-byte limit *)
  (forall n, In n (s_root c) -> n <> [] /\ n <> dot /\ n <> dotdot) ->
  name_too_long (s_root c ++ segs) = false ->
  handle c f (ch_slash :: CertAuth.join_slash segs) = OServe (s_root c ++ segs) (mime_of (s_root c ++ segs)) t.
Proof. exact Fs_proofs.reachable_literal_partial. Qed.
Print Assumptions C02_reachable_literal.

(* tie to the code: the definition regenerated from utils.url.canonical_path_segments (clamp=False, as the handlers call it)
   computes Model.Fs.canon_strict *)
From NV Require Gen.PyGen Equiv.Equiv.
Theorem C02_code_tie : forall (unq : str -> str) path,
  PyGen.gen_canonical_path_segments unq path false =
  match canon_strict (comps (unq path)) [] with Some s => Ok s | None => Err (lit "ValueError") [] end.
Proof. exact Equiv.canonical_segments_strict_tie. Qed.
Print Assumptions C02_code_tie.

(* ---- tie to the code (server/handler.py StaticFileHandler): the statements of coq/Equiv/EquivStatic.v, re-checked here against the definitions regenerated
   from /repo's working tree (coq/Gen); see DESIGN.md 11.8 ---- *)
From Coq Require Import List NArith ZArith Bool.
From NV Require Import Prelude.Str Prelude.Res Prelude.Utf8 Model.Fs Model.Static Model.CertAuth.
From NV Require Import Equiv.StaticGlue Gen.StaticGen.
From NV Require Gen.PyGen.
From NV Require Equiv.EquivStatic.
Theorem C02_code_resolve_fully_tie : forall flt tok f base rel,
  gen_resolve_fully (model_lib flt tok) f (base, rel) = nul_guard rel (rfull_res (resolve_fully f base rel)).
Proof. exact EquivStatic.resolve_fully_tie. Qed.
Print Assumptions C02_code_resolve_fully_tie.

Theorem C02_code_static_is_safe_path_tie : forall L c f p,
  gen_static_is_safe_path L c f p = Ok (path_prefixb (s_root c) p).
Proof. exact EquivStatic.static_is_safe_path_tie. Qed.
Print Assumptions C02_code_static_is_safe_path_tie.

Theorem C02_code_handle_tie : forall flt tok c f url,
  norm_resp (gen_handle (model_lib flt tok) c f url) = resp_of_sout url (handle c f url).
Proof. exact EquivStatic.handle_tie. Qed.
Print Assumptions C02_code_handle_tie.

Theorem C02_code_canon_lib_tie : forall flt tok p up, unquote p = Ok up ->
  l_canon (model_lib flt tok) p false = PyGen.gen_canonical_path_segments (fun _ => up) p false.
Proof. exact EquivStatic.canon_lib_tie. Qed.
Print Assumptions C02_code_canon_lib_tie.

(* ---- tie to the code: content/gemtext.py (the text of a directory listing) (coq/Equiv/EquivGemtext.v): re-checked here against the definitions regenerated from /repo's working tree; see DESIGN.md 11.8 ---- *)
From NV Require Equiv.EquivGemtext.
Theorem C02_code_format_file_size_tie : ltac:(let t := type of @EquivGemtext.format_file_size_tie in exact t).
Proof. exact (@EquivGemtext.format_file_size_tie). Qed.
Print Assumptions C02_code_format_file_size_tie.

Theorem C02_code_listing_tie : ltac:(let t := type of @EquivGemtext.listing_tie in exact t).
Proof. exact (@EquivGemtext.listing_tie). Qed.
Print Assumptions C02_code_listing_tie.

Theorem C02_code_listing_in_model : ltac:(let t := type of @EquivGemtext.listing_in_model in exact t).
Proof. exact (@EquivGemtext.listing_in_model). Qed.
Print Assumptions C02_code_listing_in_model.

Theorem C02_code_static_listing_tie : ltac:(let t := type of @EquivGemtext.static_listing_tie in exact t).
Proof. exact (@EquivGemtext.static_listing_tie). Qed.
Print Assumptions C02_code_static_listing_tie.

Theorem C02_code_handle_listing_tie : ltac:(let t := type of @EquivGemtext.handle_listing_tie in exact t).
Proof. exact (@EquivGemtext.handle_listing_tie). Qed.
Print Assumptions C02_code_handle_listing_tie.

(* ---- a directory listing is a function of names, kinds and sizes only (coq/Proofs/C02_listing.v) ---- *)
From NV Require Proofs.C02_listing.
Theorem C02_model_listing_content_independent : ltac:(let t := type of @C02_listing.listing_content_independent in exact t).
Proof. exact (@C02_listing.listing_content_independent). Qed.
Print Assumptions C02_model_listing_content_independent.

Theorem C02_model_listing_factorisation : ltac:(let t := type of @C02_listing.listing_factorisation in exact t).
Proof. exact (@C02_listing.listing_factorisation). Qed.
Print Assumptions C02_model_listing_factorisation.

Theorem C02_model_listing_lines : ltac:(let t := type of @C02_listing.listing_lines in exact t).
Proof. exact (@C02_listing.listing_lines). Qed.
Print Assumptions C02_model_listing_lines.

Theorem C02_model_listing_static : ltac:(let t := type of @C02_listing.listing_static in exact t).
Proof. exact (@C02_listing.listing_static). Qed.
Print Assumptions C02_model_listing_static.

Theorem C02_model_handle_listing_text : ltac:(let t := type of @C02_listing.handle_listing_text in exact t).
Proof. exact (@C02_listing.handle_listing_text). Qed.
Print Assumptions C02_model_handle_listing_text.
