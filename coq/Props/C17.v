(* C17 - the reverse proxy only talks to its upstream and maps URLs faithfully.
   Proofs: Proofs/C17_proofs.v. *)
From Coq Require Import List NArith Bool.
From NV Require Import Prelude.Str Prelude.Res Model.Url Model.Proxy Spec.UrlOracle.
From NV Require Spec.C17 Proofs.C17_proofs.
Import ListNotations.

(* the forwarded path always starts with '/', and is exactly what the property prescribes:
   the client's path, minus the prefix when stripping is on and the prefix ends on a segment boundary *)
Theorem C17_mapped_spec : forall prefix strip path,
  starts_with_slash path = true ->
  mapped prefix strip path = Spec.C17.expected_suffix prefix strip path /\
  starts_with_slash (mapped prefix strip path) = true.
Proof. exact C17_proofs.mapped_spec. Qed.
Print Assumptions C17_mapped_spec.

(* confinement: appending anything that starts with '/' to an acceptable URL never changes the
   host or the port it denotes - whatever '@', ':', '//', ';', '%2F' or '..' the suffix contains *)
Theorem C17_confined : forall ip6 U X pu p,
  parse_url ip6 U = Ok pu -> starts_with_slash X = true -> parse_url ip6 (U ++ X) = Ok p ->
  p_host p = p_host pu /\ p_port p = p_port pu.
Proof. exact C17_proofs.confined. Qed.
Print Assumptions C17_confined.

(* hence the URL the proxy requests always denotes the configured upstream's host and port *)
Theorem C17_upstream_confined : forall ip6 c path query pu p,
  parse_url ip6 (rstrip_slash (px_upstream c)) = Ok pu -> starts_with_slash path = true ->
  parse_url ip6 (upstream_url c path query) = Ok p ->
  p_host p = p_host pu /\ p_port p = p_port pu.
Proof. exact C17_proofs.upstream_confined. Qed.
Print Assumptions C17_upstream_confined.

(* mapping: path = upstream base path ++ mapped client path, query = client query *)
Theorem C17_mapping : forall ip6 c path query su p,
  urlsplit ip6 (rstrip_slash (px_upstream c)) = Ok su -> u_netloc su <> [] ->
  ~ In ch_qm (rstrip_slash (px_upstream c)) -> ~ In ch_hash (rstrip_slash (px_upstream c)) ->
  starts_with_slash path = true -> ~ In ch_qm path -> ~ In ch_hash path -> ~ In ch_hash query ->
  (forall x, In x (path ++ query) -> is_unsafe x = false) ->
  parse_url ip6 (upstream_url c path query) = Ok p ->
  p_path p = u_path su ++ mapped (px_prefix c) (px_strip c) path /\ p_query p = query.
Proof. exact C17_proofs.mapping. Qed.
Print Assumptions C17_mapping.

(* the request line put on the wire (the normalised URL) is parsed by the upstream to the same
   host, port, path and query *)
Theorem C17_request_line : forall ip6 c path query p, oracle_ok ip6 ->
  parse_url ip6 (upstream_url c path query) = Ok p -> parse_url ip6 (p_norm p) = Ok p.
Proof. exact C17_proofs.request_line. Qed.
Print Assumptions C17_request_line.

(* routing: the first route (in registration order) whose pattern matches handles the request *)
Theorem C17_route_first_match : forall (H : Type) (rs : list (route H)) path h,
  route_to rs path = Some h <->
  exists l1 r l2, rs = l1 ++ r :: l2 /\ matches path r = true /\ h = rt_handler r /\
                  forall x, In x l1 -> matches path x = false.
Proof. exact C17_proofs.route_first_match. Qed.
Print Assumptions C17_route_first_match.

(* tie to the code: the definition regenerated from ProxyHandler._handle_async (URL construction) computes Model.Proxy.upstream_url *)
From NV Require Gen.PyGen Equiv.Equiv.
Theorem C17_code_tie : forall c path query,
  PyGen.gen_upstream_url (rstrip_slash (px_upstream c)) (px_prefix c) (px_strip c) path query = upstream_url c path query.
Proof. exact Equiv.upstream_url_tie. Qed.
Print Assumptions C17_code_tie.

(* ---- tie to the code (server/router.py, server/proxy.py): the statements of coq/Equiv/EquivMw.v, re-checked here against the definitions regenerated
   from /repo's working tree (coq/Gen); see DESIGN.md 11.8 ---- *)
From Coq Require Import List NArith ZArith QArith Bool.
From NV Require Import Prelude.Str Prelude.Res Model.Bucket Model.Ip Model.Proxy Model.ServerProto Model.Session Equiv.ServerGlue Equiv.MwGlue.
From NV Require Import Gen.MwGen.
From NV Require Equiv.EquivMw.
Theorem C17_code_router_route_tie : forall REQ RX req_path rxm (routes : list (Proxy.route (REQ -> resp))) dflt request,
  gen_router_route REQ RX req_path rxm (map EquivMw.py_route_of routes) dflt request =
  match Proxy.route_to routes (req_path request) with
  | Some h => h request
  | None => EquivMw.or_default dflt request
  end.
Proof. exact EquivMw.router_route_tie. Qed.
Print Assumptions C17_code_router_route_tie.

Theorem C17_code_router_route_first_match : forall REQ RX req_path rxm (routes : list (py_Route REQ RX)) dflt request,
  gen_router_route REQ RX req_path rxm routes dflt request =
  match find (EquivMw.py_matches rxm (req_path request)) routes with
  | Some r => Route_handler r request
  | None => EquivMw.or_default dflt request
  end.
Proof. exact EquivMw.router_route_first_match. Qed.
Print Assumptions C17_code_router_route_first_match.

Theorem C17_code_router_add_model_route : forall REQ RX rc (routes : list (Proxy.route (REQ -> resp))) (r : Proxy.route (REQ -> resp)),
  gen_router_add_route REQ RX rc (map EquivMw.py_route_of routes) (rt_pattern r) (rt_handler r)
                       (match rt_type r with RExact => RouteType_EXACT | RPrefix => RouteType_PREFIX end) =
  Ok (map EquivMw.py_route_of (routes ++ [r])).
Proof. exact EquivMw.router_add_model_route. Qed.
Print Assumptions C17_code_router_add_model_route.

Theorem C17_code_proxy_relay_tie : forall (get : str -> callres resp) url, gen_proxy_relay get url = EquivMw.relay_spec (get url).
Proof. exact EquivMw.proxy_relay_tie. Qed.
Print Assumptions C17_code_proxy_relay_tie.

(* ---- tie to the code (server/config.py get_location_router, server/location.py LocationConfig): theorems of coq/Equiv/EquivWiring.v (statements there), re-checked against the definitions
   regenerated from /repo's working tree; see DESIGN.md 11.8 / 11.11 ---- *)
From NV Require Equiv.EquivWiring.
Theorem C17_code_location_router_tie : ltac:(let t := type of @EquivWiring.location_router_tie in exact t).
Proof. exact (@EquivWiring.location_router_tie). Qed.
Print Assumptions C17_code_location_router_tie.

Theorem C17_code_location_routing : ltac:(let t := type of @EquivWiring.location_routing in exact t).
Proof. exact (@EquivWiring.location_routing). Qed.
Print Assumptions C17_code_location_routing.

Theorem C17_code_proxy_location_url : ltac:(let t := type of @EquivWiring.proxy_location_url in exact t).
Proof. exact (@EquivWiring.proxy_location_url). Qed.
Print Assumptions C17_code_proxy_location_url.

Theorem C17_code_handler_of_injective : ltac:(let t := type of @EquivWiring.handler_of_injective in exact t).
Proof. exact (@EquivWiring.handler_of_injective). Qed.
Print Assumptions C17_code_handler_of_injective.

Theorem C17_code_validated_location : ltac:(let t := type of @EquivWiring.validated_location in exact t).
Proof. exact (@EquivWiring.validated_location). Qed.
Print Assumptions C17_code_validated_location.

(* ---- tie to the code (utils/url.py parse_url: the path and query the proxy maps are those of the request line): theorems of coq/Equiv/EquivUrl.v (statements there), re-checked against the definitions
   regenerated from /repo's working tree; see DESIGN.md 11.8 ---- *)
From NV Require Equiv.EquivUrl.
Theorem C17_code_parse_url_tie : ltac:(let t := type of @EquivUrl.parse_url_tie in exact t).
Proof. exact (@EquivUrl.parse_url_tie). Qed.
Print Assumptions C17_code_parse_url_tie.

