(* C18 - the reverse proxy relays responses verbatim and contains upstream faults.  Proofs/C18_proofs.v *)
From Coq Require Import List NArith ZArith Bool.
From NV Require Import Prelude.Str Prelude.Res Prelude.Utf8 Model.ClientProto Model.ServerProto Model.Session Spec.ServerTrace.
From NV Require Spec.C18 Proofs.C18_proofs.
Import ListNotations.
Open Scope N_scope.

(* UTF-8: decoding then encoding is the identity on every valid byte string *)
Theorem Utf8_encode_decode : forall b s, decode b = Some s -> encode_replace s = b.
Proof. exact C18_proofs.encode_decode. Qed.
Print Assumptions Utf8_encode_decode.

(* verbatim relay: every well-formed upstream response - any status class, media type, declared
   charset, body bytes - reaches the downstream client byte for byte *)
Theorem C18_relay_verbatim : forall cap b, Spec.C18.wf_upstream cap b = true -> relay cap (UStream b None) = b.
Proof. exact C18_proofs.relay_verbatim. Qed.
Print Assumptions C18_relay_verbatim.

(* fault containment: whatever else the upstream does, the downstream gets a single well-formed 43 *)
Theorem C18_fault_43 : forall cap u,
  u = UConnectFail \/ u = UTimeout \/
  (exists b exc k, u = UStream b exc /\ Spec.C13.spec_result false cap (fun _ _ => None) b exc = RErr k) ->
  prefixb (lit "43 ") (relay cap u) = true /\ response_shape (relay cap u) = true.
Proof. exact C18_proofs.fault_43. Qed.
Print Assumptions C18_fault_43.

(* whatever the upstream does the downstream response is well-formed *)
Theorem C18_always_wellformed : forall cap u, response_shape (relay cap u) = true.
Proof. exact C18_proofs.always_wellformed. Qed.
Print Assumptions C18_always_wellformed.

(* ---- tie to the code (client/protocol.py GeminiClientProtocol): the statements of coq/Equiv/EquivClient.v, re-checked here against the definitions regenerated
   from /repo's working tree (coq/Gen); see DESIGN.md 11.8 ---- *)
From Coq Require Import List NArith ZArith Bool.
From NV Require Import Prelude.Str Prelude.Res Prelude.Utf8 Model.Titan Model.ClientProto Equiv.ClientGlue Gen.ClientGen.
From NV Require Equiv.EquivClient.
Theorem C18_code_cstep_data_tie : forall request soc db dw s d,
  connected s = true ->
  gen_data_received gen_header_too_long (gen_parse_header gen_set_error) gen_set_error s d
  = cstep request soc db gen_MAX_RESPONSE_BODY_SIZE dw s (CData d).
Proof. exact EquivClient.cstep_data_tie. Qed.
Print Assumptions C18_code_cstep_data_tie.

Theorem C18_code_cstep_lost_tie : forall request soc db cap dw url s exc,
  (cfut s = Pending -> hdr s = true -> status s <> None) ->
  gen_connection_lost dw url db s (option_map (app (lit "conn:")) exc) = cstep request soc db cap dw s (CLost exc).
Proof. exact EquivClient.cstep_lost_tie. Qed.
Print Assumptions C18_code_cstep_lost_tie.

Theorem C18_code_status_known_reachable : forall request soc db cap dw evs,
  let s := fst (crun request soc db cap dw cinit evs) in
  cfut s = Pending -> hdr s = true -> status s <> None.
Proof. exact EquivClient.status_known_reachable. Qed.
Print Assumptions C18_code_status_known_reachable.



(* ---- tie to the code (server/proxy.py relay): the statements of coq/Equiv/EquivMw.v, re-checked here against the definitions regenerated
   from /repo's working tree (coq/Gen); see DESIGN.md 11.8 ---- *)
From Coq Require Import List NArith ZArith QArith Bool.
From NV Require Import Prelude.Str Prelude.Res Model.Bucket Model.Ip Model.Proxy Model.ServerProto Model.Session Equiv.ServerGlue Equiv.MwGlue.
From NV Require Import Gen.MwGen.
From NV Require Equiv.EquivMw.
Theorem C18_code_proxy_relay_tie : forall (get : str -> callres resp) url, gen_proxy_relay get url = EquivMw.relay_spec (get url).
Proof. exact EquivMw.proxy_relay_tie. Qed.
Print Assumptions C18_code_proxy_relay_tie.

Theorem C18_code_proxy_relay_model_partial : forall msg cap u url,
  let g := gen_proxy_relay (fun _ => EquivMw.upstream_call msg cap u) url in
  let m := proxy_response cap u in
  rs_status g = rs_status m /\ rs_body g = rs_body m /\ prefixb (rs_meta m) (rs_meta g) = true /\
  (u <> UConnectFail -> g = m).
Proof. exact EquivMw.proxy_relay_model_partial. Qed.
Print Assumptions C18_code_proxy_relay_model_partial.



(* ---- tie to the code (server/protocol.py: the request timer is cancelled when the request line is complete - it cannot fire while the proxy waits for its upstream): theorems of coq/Equiv/EquivServer.v (statements there), re-checked against the definitions
   regenerated from /repo's working tree; see DESIGN.md 11.8 ---- *)
From NV Require Equiv.EquivServer.
Theorem C18_code_data_received_tie : ltac:(let t := type of @EquivServer.data_received_tie in exact t).
Proof. exact (@EquivServer.data_received_tie). Qed.
Print Assumptions C18_code_data_received_tie.

Theorem C18_code_handle_timeout_tie : ltac:(let t := type of @EquivServer.handle_timeout_tie in exact t).
Proof. exact (@EquivServer.handle_timeout_tie). Qed.
Print Assumptions C18_code_handle_timeout_tie.


Close Scope N_scope.

(* ---- tie to the code: ServerConfig.get_location_router - every proxy location gets its own handler, built from that location's upstream, prefix, strip_prefix and timeout (coq/Equiv/EquivWiring.v): re-checked here against the definitions regenerated from /repo's working tree; see DESIGN.md 11.8 ---- *)
From NV Require Equiv.EquivWiring.
Theorem C18_code_location_router_tie : ltac:(let t := type of @EquivWiring.location_router_tie in exact t).
Proof. exact (@EquivWiring.location_router_tie). Qed.
Print Assumptions C18_code_location_router_tie.

Theorem C18_code_routes_of_each : ltac:(let t := type of @EquivWiring.routes_of_each in exact t).
Proof. exact (@EquivWiring.routes_of_each). Qed.
Print Assumptions C18_code_routes_of_each.

Theorem C18_code_handler_of_injective : ltac:(let t := type of @EquivWiring.handler_of_injective in exact t).
Proof. exact (@EquivWiring.handler_of_injective). Qed.
Print Assumptions C18_code_handler_of_injective.

Theorem C18_code_proxy_location_url : ltac:(let t := type of @EquivWiring.proxy_location_url in exact t).
Proof. exact (@EquivWiring.proxy_location_url). Qed.
Print Assumptions C18_code_proxy_location_url.
