(* C18 - the reverse proxy relays responses verbatim and contains upstream faults.  Proofs/C18_proofs.v *)
From Coq Require Import List NArith ZArith Bool.
From NV Require Import Prelude.Str Prelude.Res Prelude.Utf8 Model.ClientProto Model.ServerProto Model.Session Spec.ServerTrace.
From NV Require Spec.C18 Proofs.C18_proofs.
Import ListNotations.
Open Scope N_scope.

(* UTF-8: decoding then encoding is the identity on every valid byte string *)
Theorem Utf8_encode_decode : forall b s, decode b = Some s -> encode_replace s = b.
Proof. exact C18_proofs.encode_decode. Qed.
Print Assumptions Utf8_encode_decode.

(* verbatim relay: every well-formed upstream response - any status class, media type, declared
   charset, body bytes - reaches the downstream client byte for byte *)
Theorem C18_relay_verbatim : forall cap b, Spec.C18.wf_upstream cap b = true -> relay cap (UStream b None) = b.
Proof. exact C18_proofs.relay_verbatim. Qed.
Print Assumptions C18_relay_verbatim.

(* fault containment: whatever else the upstream does, the downstream gets a single well-formed 43 *)
Theorem C18_fault_43 : forall cap u,
  u = UConnectFail \/ u = UTimeout \/
  (exists b exc k, u = UStream b exc /\ Spec.C13.spec_result false cap (fun _ _ => None) b exc = RErr k) ->
  prefixb (lit "43 ") (relay cap u) = true /\ response_shape (relay cap u) = true.
Proof. exact C18_proofs.fault_43. Qed.
Print Assumptions C18_fault_43.

(* whatever the upstream does the downstream response is well-formed *)
Theorem C18_always_wellformed : forall cap u, response_shape (relay cap u) = true.
Proof. exact C18_proofs.always_wellformed. Qed.
Print Assumptions C18_always_wellformed.
Close Scope N_scope.
