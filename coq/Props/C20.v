(* C20 - no service below TLS 1.2 and none without TLS.
   PARTIAL by design: the negotiation itself is OpenSSL's (oracle `negotiate`); what is proved is
   (a) every context the code builds - as extracted from the CURRENT source into
   Gen/TlsConfigGen.v on every run - sets its floor to TLS 1.2, every call site uses such a
   builder and every listening socket carries TLS; (b) the manual TLS layer creates the inner
   protocol only after a completed handshake. *)
From Coq Require Import List String Bool Arith.
From NV Require Import Model.TlsConfig Model.TlsPump Gen.TlsConfigGen.
From NV Require Proofs.Tls_proofs.
Import ListNotations.
Open Scope list_scope.

(* (a) over the generated lists: finite, decided by computation *)
Theorem C20_min_everywhere_partial :
  forallb (fun b => floor_ok builders (fst b)) builders = true /\
  forallb (fun c => floor_ok builders (snd c)) call_sites = true /\
  Nat.leb 5 (List.length call_sites) = true /\
  forallb (fun l => snd (fst l) || snd l) listeners = true /\ Nat.leb 2 (List.length listeners) = true.
Proof. vm_compute. repeat split; reflexivity. Qed.
Print Assumptions C20_min_everywhere_partial.

(* a context whose floor is TLS 1.2 negotiates nothing below it, whatever the peer offers *)
Theorem C20_negotiation_floor : forall ops offered v,
  Nat.leb (vnum TLS1_2) (vnum (effective_min ops)) = true ->
  Nat.leb (vnum TLS1_2) (vnum (effective_max ops)) = true ->     (* both conjuncts of floor_ok *)
  negotiate ops offered = Some v -> vnum TLS1_2 <= vnum v.
Proof. exact Tls_proofs.negotiation_floor_partial. Qed.
Print Assumptions C20_negotiation_floor.

(* (b) the inner protocol exists only after a completed handshake; before that no handler-side
   callback runs *)
Theorem C20_gate : forall evs,
  In TInnerMade (snd (trun tinit evs)) -> exists pre pl post, evs = pre ++ TRead HsDone pl :: post.
Proof. exact Tls_proofs.gate. Qed.
Print Assumptions C20_gate.

Theorem C20_plaintext : forall evs,
  (forall pl, ~ In (TRead HsDone pl) evs) ->
  forall a, In a (snd (trun tinit evs)) -> a = TClose.
Proof. exact Tls_proofs.plaintext. Qed.
Print Assumptions C20_plaintext.

(* C15, handshake half: while the handshake is incomplete and the connection open, the timer is
   armed; when it fires the TCP connection is closed *)
Theorem C15_handshake_timer : forall evs,
  let s := fst (trun tinit evs) in
  ph s = Handshaking -> hs_timer s = true /\ tstep s TTimer = ({| ph := Dead; hs_timer := false; inner := inner s |}, [TClose]).
Proof. exact Tls_proofs.handshake_timer. Qed.
Print Assumptions C15_handshake_timer.

(* ---- tie to the code (server/server.py start_server: TLS context selection and listeners): theorems of coq/Equiv/EquivWiring.v (their statements are there; several live in Sections
   over the configuration, so they are cited by type), re-checked against coq/Gen/WiringGen.v regenerated from /repo's
   working tree; see DESIGN.md 11.11 ---- *)
From NV Require Equiv.EquivWiring.
Theorem C20_code_wiring_context_choice : ltac:(let t := type of @EquivWiring.context_choice in exact t).
Proof. exact (@EquivWiring.context_choice). Qed.
Print Assumptions C20_code_wiring_context_choice.

Theorem C20_code_wiring_listener_protection : ltac:(let t := type of @EquivWiring.listener_protection in exact t).
Proof. exact (@EquivWiring.listener_protection). Qed.
Print Assumptions C20_code_wiring_listener_protection.

Theorem C20_code_wiring_no_plaintext_listener : ltac:(let t := type of @EquivWiring.no_plaintext_listener in exact t).
Proof. exact (@EquivWiring.no_plaintext_listener). Qed.
Print Assumptions C20_code_wiring_no_plaintext_listener.

(* ---- tie to the code: server/tls_protocol.py - the only bytes the PyOpenSSL layer writes to the TCP transport are those of OpenSSL's outgoing BIO (the action alphabet of the pump has no raw write); a handshake timeout closes, nothing else (coq/Equiv/EquivTls.v): re-checked here against the definitions regenerated from /repo's working tree; see DESIGN.md 11.8 ---- *)
From NV Require Equiv.EquivTls.
Theorem C20_code_connection_made_tie : ltac:(let t := type of @EquivTls.connection_made_tie in exact t).
Proof. exact (@EquivTls.connection_made_tie). Qed.
Print Assumptions C20_code_connection_made_tie.

Theorem C20_code_tstep_tie : ltac:(let t := type of @EquivTls.tstep_tie in exact t).
Proof. exact (@EquivTls.tstep_tie). Qed.
Print Assumptions C20_code_tstep_tie.

Theorem C20_code_trun_tie : ltac:(let t := type of @EquivTls.trun_tie in exact t).
Proof. exact (@EquivTls.trun_tie). Qed.
Print Assumptions C20_code_trun_tie.

Theorem C20_code_flush_outgoing_tie : ltac:(let t := type of @EquivTls.flush_outgoing_tie in exact t).
Proof. exact (@EquivTls.flush_outgoing_tie). Qed.
Print Assumptions C20_code_flush_outgoing_tie.

Theorem C20_code_handshake_timeout_value : ltac:(let t := type of @EquivTls.handshake_timeout_value in exact t).
Proof. exact (@EquivTls.handshake_timeout_value). Qed.
Print Assumptions C20_code_handshake_timeout_value.

(* ---- tie to the code: client/session.py - one connection attempt per call, with the context the constructor built (a failed handshake is reported, never retried with other TLS settings) (coq/Equiv/EquivSession.v): re-checked here against the definitions regenerated from /repo's working tree; see DESIGN.md 11.8 ---- *)
From NV Require Equiv.EquivSession.
Theorem C20_code_init_tie : ltac:(let t := type of @EquivSession.init_tie in exact t).
Proof. exact (@EquivSession.init_tie). Qed.
Print Assumptions C20_code_init_tie.

Theorem C20_code_get_single_tie : ltac:(let t := type of @EquivSession.get_single_tie in exact t).
Proof. exact (@EquivSession.get_single_tie). Qed.
Print Assumptions C20_code_get_single_tie.

Theorem C20_code_upload_tie : ltac:(let t := type of @EquivSession.upload_tie in exact t).
Proof. exact (@EquivSession.upload_tie). Qed.
Print Assumptions C20_code_upload_tie.

Theorem C20_code_get_single_connect_failure : ltac:(let t := type of @EquivSession.get_single_connect_failure in exact t).
Proof. exact (@EquivSession.get_single_connect_failure). Qed.
Print Assumptions C20_code_get_single_connect_failure.

Theorem C20_code_upload_connect_failure : ltac:(let t := type of @EquivSession.upload_connect_failure in exact t).
Proof. exact (@EquivSession.upload_connect_failure). Qed.
Print Assumptions C20_code_upload_connect_failure.

Theorem C20_code_get_single_close_once : ltac:(let t := type of @EquivSession.get_single_close_once in exact t).
Proof. exact (@EquivSession.get_single_close_once). Qed.
Print Assumptions C20_code_get_single_close_once.
