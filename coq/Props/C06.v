(* C06 - responses arrive complete and unaltered, for any size (PyOpenSSL pump bookkeeping).
   PARTIAL by design: TCP flow control, asyncio buffer flushing on close and OpenSSL's record
   protection are exercised by the live runs, not proved.  Proofs/Tls_proofs.v *)
From Coq Require Import List NArith Bool.
From NV Require Import Prelude.Str Model.ServerProto Model.TlsPump.
From NV Require Proofs.Tls_proofs.
Import ListNotations.

(* sendall: every byte is accepted, in order, in records of 1..16384 bytes - for every length *)
Theorem C06_sendall_complete : forall d,
  concat (sendall d) = d /\ Forall (fun r => r <> [] /\ length r <= record_max) (sendall d).
Proof. exact Tls_proofs.sendall_complete. Qed.
Print Assumptions C06_sendall_complete.

(* flush: the memory BIO is drained completely, in pieces of 1..8192 bytes *)
Theorem C06_flush_complete : forall b,
  concat (flush b) = b /\ Forall (fun p => p <> [] /\ length p <= bio_piece) (flush b).
Proof. exact Tls_proofs.flush_complete. Qed.
Print Assumptions C06_flush_complete.

(* the peer, removing the record framing, recovers exactly what was written *)
Theorem C06_pump_delivers_partial : forall d, deframe (concat (wrapper_write d)) = d.
Proof. exact Tls_proofs.pump_delivers. Qed.
Print Assumptions C06_pump_delivers_partial.

(* a whole response: header write, body write - the client reads header ++ body, whatever the sizes *)
Theorem C06_response_partial : forall r,
  let (h, b) := serialize r in
  deframe (concat (wrapper_write h ++ wrapper_write b)) = h ++ b.
Proof. exact Tls_proofs.response_delivers. Qed.
Print Assumptions C06_response_partial.

(* what a single SSL_write (the behaviour before the fix) would have lost *)
Example ex_C06_single_send_truncates :
  exists d : str, fst (ssl_send d) <> d.
Proof. exact Tls_proofs.single_send_truncates. Qed.

(* the listening sockets (table regenerated from the source by translate/tlsconf.py) leave asyncio's TLS handshake and
   shutdown timeouts at their defaults: how long a slow reader may take to drain a response after close() (C06), and how
   long a silent peer may sit in the handshake on the standard-library backend (C15), are asyncio's constants *)
From NV Require Gen.TlsConfigGen Proofs.TlsListeners.
Theorem C06_listeners_default_timing : TlsListeners.default_tls_timing TlsConfigGen.listener_options = true.
Proof. exact TlsListeners.listeners_default_timing. Qed.
Print Assumptions C06_listeners_default_timing.
