(* C06 - responses arrive complete and unaltered, for any size (PyOpenSSL pump bookkeeping).
   PARTIAL by design: TCP flow control, asyncio buffer flushing on close and OpenSSL's record
   protection are exercised by the live runs, not proved.  Proofs/Tls_proofs.v *)
From Coq Require Import List NArith Bool.
From NV Require Import Prelude.Str Model.ServerProto Model.TlsPump.
From NV Require Proofs.Tls_proofs.
Import ListNotations.

(* sendall: every byte is accepted, in order, in records of 1..16384 bytes - for every length *)
Theorem C06_sendall_complete : forall d,
  concat (sendall d) = d /\ Forall (fun r => r <> [] /\ length r <= record_max) (sendall d).
Proof. exact Tls_proofs.sendall_complete. Qed.
Print Assumptions C06_sendall_complete.

(* flush: the memory BIO is drained completely, in pieces of 1..8192 bytes *)
Theorem C06_flush_complete : forall b,
  concat (flush b) = b /\ Forall (fun p => p <> [] /\ length p <= bio_piece) (flush b).
Proof. exact Tls_proofs.flush_complete. Qed.
Print Assumptions C06_flush_complete.

(* the peer, removing the record framing, recovers exactly what was written *)
Theorem C06_pump_delivers_partial : forall d, deframe (concat (wrapper_write d)) = d.
Proof. exact Tls_proofs.pump_delivers. Qed.
Print Assumptions C06_pump_delivers_partial.

(* a whole response: header write, body write - the client reads header ++ body, whatever the sizes *)
Theorem C06_response_partial : forall r,
  let (h, b) := serialize r in
  deframe (concat (wrapper_write h ++ wrapper_write b)) = h ++ b.
Proof. exact Tls_proofs.response_delivers. Qed.
Print Assumptions C06_response_partial.

(* what a single SSL_write (the behaviour before the fix) would have lost *)
Example ex_C06_single_send_truncates :
  exists d : str, fst (ssl_send d) <> d.
Proof. exact Tls_proofs.single_send_truncates. Qed.

(* the listening sockets (table regenerated from the source by translate/tlsconf.py) leave asyncio's TLS handshake and
   shutdown timeouts at their defaults: how long a slow reader may take to drain a response after close() (C06), and how
   long a silent peer may sit in the handshake on the standard-library backend (C15), are asyncio's constants *)
From NV Require Gen.TlsConfigGen Proofs.TlsListeners.
Theorem C06_listeners_default_timing : TlsListeners.default_tls_timing TlsConfigGen.listener_options = true.
Proof. exact TlsListeners.listeners_default_timing. Qed.
Print Assumptions C06_listeners_default_timing.

(* ---- tie to the code (server/tls_protocol.py TLSTransportWrapper.write, _flush_outgoing): the statements of coq/Equiv/EquivTls.v, re-checked here against the definitions regenerated
   from /repo's working tree (coq/Gen); see DESIGN.md 11.8 ---- *)
From Coq Require Import List NArith Bool.
From NV Require Import Prelude.Str Model.TlsPump Equiv.TlsGlue Gen.TlsGen.
From NV Require Equiv.EquivTls.
Theorem C06_code_flush_outgoing_tie : forall fuel s,
  p_conn s = true -> p_transport s = true -> length (o_out s) < fuel ->
  gen_flush_outgoing fuel s = (set_out s [], map PWrite (flush (o_out s)), None).
Proof. exact EquivTls.flush_outgoing_tie. Qed.
Print Assumptions C06_code_flush_outgoing_tie.

Theorem C06_code_wrapper_write_tie : forall fuel s d,
  p_conn s = true -> p_transport s = true -> o_out s = [] ->
  length (concat (map frame (sendall d))) < fuel ->
  gen_wrapper_write fuel s d = (s, map PWrite (wrapper_write d), None).
Proof. exact EquivTls.wrapper_write_tie. Qed.
Print Assumptions C06_code_wrapper_write_tie.

Theorem C06_code_wrapper_write_tie_pending : forall fuel s d,
  p_conn s = true -> p_transport s = true ->
  length (o_out s ++ concat (map frame (sendall d))) < fuel ->
  gen_wrapper_write fuel s d =
  (set_out s [], map PWrite (flush (o_out s ++ concat (map frame (sendall d)))), None).
Proof. exact EquivTls.wrapper_write_tie_pending. Qed.
Print Assumptions C06_code_wrapper_write_tie_pending.

(* ---- tie to the code: the static handler serves a file of up to AND INCLUDING max_file_size bytes (the comparison is part of handle) (coq/Equiv/EquivStatic.v): re-checked here against the definitions regenerated from /repo's working tree; see DESIGN.md 11.8 ---- *)
From NV Require Equiv.EquivStatic.
Theorem C06_code_handle_tie : ltac:(let t := type of @EquivStatic.handle_tie in exact t).
Proof. exact (@EquivStatic.handle_tie). Qed.
Print Assumptions C06_code_handle_tie.
