(* C04 - no handler runs for a request the middleware chain refuses or has not decided. *)
From Coq Require Import List NArith ZArith Bool.
From NV Require Import Prelude.Str Prelude.Res Model.Url Model.Titan Model.ServerProto Spec.ServerTrace.
From NV Require Spec.C04 Proofs.Server_proofs.
Import ListNotations.

(* every handler / upload-handler invocation happens in the very step in which a consulted
   chain answers "allow"; every consultation carries the peer address, the presented
   fingerprint and the normalised URL of the request that was sent *)
Theorem C04_gate : forall ip6 c evs,
  Spec.C04.gate c (Spec.C04.expected_url ip6 (stream evs)) evs
    (run ip6 (fun _ => c_hres c) (c_mw c) (c_upload c) (c_upfail c) (c_ip c) (c_fp c) init evs) [] false = true.
Proof. exact Server_proofs.gate. Qed.
Print Assumptions C04_gate.

(* with a chain configured, Gemini and Titan alike: no invocation unless some consulted task
   was answered with allow *)
Theorem C04_no_invocation_without_allow : forall ip6 handler up ucf ip fp evs,
  (forall i t, ~ In (EDone i (OMw true t)) evs) ->
  existsb is_invocation (flat (run ip6 handler true up ucf ip fp init evs)) = false.
Proof. exact Server_proofs.no_invocation_without_allow. Qed.
Print Assumptions C04_no_invocation_without_allow.

(* a refusing or raising chain: no invocation, and the client receives the refusal *)
Theorem C04_refusal : forall ip6 c evs, c_mw c = true ->
  valid_reads evs (run ip6 (fun _ => c_hres c) (c_mw c) (c_upload c) (c_upfail c) (c_ip c) (c_fp c) init evs) false = true ->
  Spec.C04.refusal c evs
    (run ip6 (fun _ => c_hres c) (c_mw c) (c_upload c) (c_upfail c) (c_ip c) (c_fp c) init evs) = true.
Proof. exact Server_proofs.refusal. Qed.
Print Assumptions C04_refusal.

(* tie to the code: the definition regenerated from MiddlewareChain.process_request answers with the FIRST rejecting
   component's response, and admits only if every component admits *)
From NV Require Gen.PyGen Equiv.Equiv.
Theorem C04_first_rejection_wins : forall mws url ip fp,
  PyGen.gen_chain_process mws url ip fp = Equiv.chain_spec mws url ip fp.
Proof. exact Equiv.chain_process_tie. Qed.
Print Assumptions C04_first_rejection_wins.

(* ---- the same theorems about the code: `gen_run` / `gen_final` / `gen_step` / `cl_data_received` are the connection's
   transition function assembled from the translation of /repo/src/nauyaca/server/protocol.py (coq/Gen/ServerGen.v,
   regenerated from the working tree on every run; event dispatch in coq/Equiv/ServerLoop.v).  `reenc_ok` is the one
   assumed fact about CPython's lenient UTF-8 decoder (satisfiable: EquivServerLoop.reenc_ok_satisfiable). ---- *)
From NV Require Import Prelude.Utf8 Equiv.ServerGlue Gen.ServerGen Equiv.ServerLoop.
From NV Require Equiv.EquivServerLoop Proofs.Server_on_code.
Theorem C04_gate_on_code : forall reenc : str -> str,
  EquivServerLoop.reenc_ok reenc ->
  forall ip6 c evs,
  Spec.C04.gate c (Spec.C04.expected_url ip6 (stream evs)) evs
    (gen_run reenc ip6 (fun _ => c_hres c) (c_mw c) (c_upload c) (c_upfail c) (c_ip c) (c_fp c) init evs) [] false = true.
Proof. exact Server_on_code.gate_on_code. Qed.
Print Assumptions C04_gate_on_code.

Theorem C04_no_invocation_without_allow_on_code : forall reenc : str -> str,
  EquivServerLoop.reenc_ok reenc ->
  forall ip6 handler up ucf ip fp evs,
  (forall i t, ~ In (EDone i (OMw true t)) evs) ->
  existsb is_invocation (flat (gen_run reenc ip6 handler true up ucf ip fp init evs)) = false.
Proof. exact Server_on_code.no_invocation_without_allow_on_code. Qed.
Print Assumptions C04_no_invocation_without_allow_on_code.

Theorem C04_refusal_on_code : forall reenc : str -> str,
  EquivServerLoop.reenc_ok reenc ->
  forall ip6 c evs, c_mw c = true ->
  valid_reads evs (gen_run reenc ip6 (fun _ => c_hres c) (c_mw c) (c_upload c) (c_upfail c) (c_ip c) (c_fp c) init evs) false = true ->
  Spec.C04.refusal c evs
    (gen_run reenc ip6 (fun _ => c_hres c) (c_mw c) (c_upload c) (c_upfail c) (c_ip c) (c_fp c) init evs) = true.
Proof. exact Server_on_code.refusal_on_code. Qed.
Print Assumptions C04_refusal_on_code.

(* ---- tie to the code (server/server.py start_server, __main__._serve, server/config.py): theorems of coq/Equiv/EquivWiring.v (their statements are there; several live in Sections
   over the configuration, so they are cited by type), re-checked against coq/Gen/WiringGen.v regenerated from /repo's
   working tree; see DESIGN.md 11.11 ---- *)
From NV Require Equiv.EquivWiring.
Theorem C04_code_wiring_middlewares_tie : ltac:(let t := type of @EquivWiring.middlewares_tie in exact t).
Proof. exact (@EquivWiring.middlewares_tie). Qed.
Print Assumptions C04_code_wiring_middlewares_tie.

Theorem C04_code_wiring_each_configured_once : ltac:(let t := type of @EquivWiring.each_configured_once in exact t).
Proof. exact (@EquivWiring.each_configured_once). Qed.
Print Assumptions C04_code_wiring_each_configured_once.

Theorem C04_code_wiring_wiring_order_tie : ltac:(let t := type of @EquivWiring.wiring_order_tie in exact t).
Proof. exact (@EquivWiring.wiring_order_tie). Qed.
Print Assumptions C04_code_wiring_wiring_order_tie.

Theorem C04_code_wiring_chain_none_iff : ltac:(let t := type of @EquivWiring.chain_none_iff in exact t).
Proof. exact (@EquivWiring.chain_none_iff). Qed.
Print Assumptions C04_code_wiring_chain_none_iff.

Theorem C04_code_wiring_one_listener_in_every_case : ltac:(let t := type of @EquivWiring.one_listener_in_every_case in exact t).
Proof. exact (@EquivWiring.one_listener_in_every_case). Qed.
Print Assumptions C04_code_wiring_one_listener_in_every_case.

Theorem C04_code_wiring_every_factory_same_chain_and_router : ltac:(let t := type of @EquivWiring.every_factory_same_chain_and_router in exact t).
Proof. exact (@EquivWiring.every_factory_same_chain_and_router). Qed.
Print Assumptions C04_code_wiring_every_factory_same_chain_and_router.

Theorem C04_code_wiring_protocol_consults_the_wired_list : ltac:(let t := type of @EquivWiring.protocol_consults_the_wired_list in exact t).
Proof. exact (@EquivWiring.protocol_consults_the_wired_list). Qed.
Print Assumptions C04_code_wiring_protocol_consults_the_wired_list.

Theorem C04_code_wiring_wired_chain_admits_iff : ltac:(let t := type of @EquivWiring.wired_chain_admits_iff in exact t).
Proof. exact (@EquivWiring.wired_chain_admits_iff). Qed.
Print Assumptions C04_code_wiring_wired_chain_admits_iff.

Theorem C04_code_wiring_wired_first_rejection_supplies : ltac:(let t := type of @EquivWiring.wired_first_rejection_supplies in exact t).
Proof. exact (@EquivWiring.wired_first_rejection_supplies). Qed.
Print Assumptions C04_code_wiring_wired_first_rejection_supplies.

Theorem C04_code_wiring_cli_wiring : ltac:(let t := type of @EquivWiring.cli_wiring in exact t).
Proof. exact (@EquivWiring.cli_wiring). Qed.
Print Assumptions C04_code_wiring_cli_wiring.

(* ---- tie to the code: the certificate fingerprint and the places that obtain the presented certificate (coq/Equiv/EquivCerts.v): re-checked here against the definitions regenerated from /repo's working tree; see DESIGN.md 11.8 ---- *)
From NV Require Equiv.EquivCerts.
Theorem C04_code_fingerprint_tie : ltac:(let t := type of @EquivCerts.fingerprint_tie in exact t).
Proof. exact (@EquivCerts.fingerprint_tie). Qed.
Print Assumptions C04_code_fingerprint_tie.

Theorem C04_code_fingerprint_default_tie : ltac:(let t := type of @EquivCerts.fingerprint_default_tie in exact t).
Proof. exact (@EquivCerts.fingerprint_default_tie). Qed.
Print Assumptions C04_code_fingerprint_default_tie.

Theorem C04_code_default_algorithm_tie : ltac:(let t := type of @EquivCerts.default_algorithm_tie in exact t).
Proof. exact (@EquivCerts.default_algorithm_tie). Qed.
Print Assumptions C04_code_default_algorithm_tie.

Theorem C04_code_server_peer_tie : ltac:(let t := type of @EquivCerts.server_peer_tie in exact t).
Proof. exact (@EquivCerts.server_peer_tie). Qed.
Print Assumptions C04_code_server_peer_tie.

Theorem C04_code_client_peer_tie : ltac:(let t := type of @EquivCerts.client_peer_tie in exact t).
Proof. exact (@EquivCerts.client_peer_tie). Qed.
Print Assumptions C04_code_client_peer_tie.

Theorem C04_code_titan_client_peer_tie : ltac:(let t := type of @EquivCerts.titan_client_peer_tie in exact t).
Proof. exact (@EquivCerts.titan_client_peer_tie). Qed.
Print Assumptions C04_code_titan_client_peer_tie.

Theorem C04_code_x509_to_cryptography_tie : ltac:(let t := type of @EquivCerts.x509_to_cryptography_tie in exact t).
Proof. exact (@EquivCerts.x509_to_cryptography_tie). Qed.
Print Assumptions C04_code_x509_to_cryptography_tie.

Theorem C04_code_wrapper_getpeercert_tie : ltac:(let t := type of @EquivCerts.wrapper_getpeercert_tie in exact t).
Proof. exact (@EquivCerts.wrapper_getpeercert_tie). Qed.
Print Assumptions C04_code_wrapper_getpeercert_tie.

Theorem C04_code_sites_outside_certificates_use_default : ltac:(let t := type of @EquivCerts.sites_outside_certificates_use_default in exact t).
Proof. exact (@EquivCerts.sites_outside_certificates_use_default). Qed.
Print Assumptions C04_code_sites_outside_certificates_use_default.

Theorem C04_code_security_sites_present : ltac:(let t := type of @EquivCerts.security_sites_present in exact t).
Proof. exact (@EquivCerts.security_sites_present). Qed.
Print Assumptions C04_code_security_sites_present.

(* ---- the fingerprint format: equality of fingerprints is equality of SHA-256 digests (coq/Proofs/Certs_format.v) ---- *)
From NV Require Proofs.Certs_format.
Theorem C04_model_fingerprint_default_strict : ltac:(let t := type of @Certs_format.fingerprint_default_strict in exact t).
Proof. exact (@Certs_format.fingerprint_default_strict). Qed.
Print Assumptions C04_model_fingerprint_default_strict.

Theorem C04_model_fingerprint_eq_iff_digest_eq : ltac:(let t := type of @Certs_format.fingerprint_eq_iff_digest_eq in exact t).
Proof. exact (@Certs_format.fingerprint_eq_iff_digest_eq). Qed.
Print Assumptions C04_model_fingerprint_eq_iff_digest_eq.

Theorem C04_model_fingerprint_eqb_iff_digest_eq : ltac:(let t := type of @Certs_format.fingerprint_eqb_iff_digest_eq in exact t).
Proof. exact (@Certs_format.fingerprint_eqb_iff_digest_eq). Qed.
Print Assumptions C04_model_fingerprint_eqb_iff_digest_eq.

Theorem C04_model_fingerprint_sha256_ne_sha1 : ltac:(let t := type of @Certs_format.fingerprint_sha256_ne_sha1 in exact t).
Proof. exact (@Certs_format.fingerprint_sha256_ne_sha1). Qed.
Print Assumptions C04_model_fingerprint_sha256_ne_sha1.

Theorem C04_model_peer_fingerprint_is_hash_of_presented_der : ltac:(let t := type of @Certs_format.peer_fingerprint_is_hash_of_presented_der in exact t).
Proof. exact (@Certs_format.peer_fingerprint_is_hash_of_presented_der). Qed.
Print Assumptions C04_model_peer_fingerprint_is_hash_of_presented_der.

Theorem C04_model_pyopenssl_fingerprint_is_hash_of_dumped_der : ltac:(let t := type of @Certs_format.pyopenssl_fingerprint_is_hash_of_dumped_der in exact t).
Proof. exact (@Certs_format.pyopenssl_fingerprint_is_hash_of_dumped_der). Qed.
Print Assumptions C04_model_pyopenssl_fingerprint_is_hash_of_dumped_der.

(* ---- tie to the code: which certificate of the PyOpenSSL connection is the peer's (coq/Equiv/EquivCerts.v): re-checked here against the definitions regenerated from /repo's working tree; see DESIGN.md 11.8 ---- *)
From NV Require Equiv.EquivCerts.
Theorem C04_code_conn_peer_certificate_tie : ltac:(let t := type of @EquivCerts.conn_peer_certificate_tie in exact t).
Proof. exact (@EquivCerts.conn_peer_certificate_tie). Qed.
Print Assumptions C04_code_conn_peer_certificate_tie.
