(* C09 - property theorems.  Only statements; proofs live in Proofs/C09_proofs.v. *)
From Coq Require Import List NArith Bool.
From NV Require Import Prelude.Str Model.Ip.
From NV Require Spec.C09 Proofs.C09_proofs.
Import ListNotations.
Open Scope N_scope.

(* netmask membership = integer interval membership, for every aligned network and address *)
Theorem C09_contains_interval : forall n a, Spec.C09.aligned n -> Spec.C09.addr_wf a ->
  (contains n a = true <-> Spec.C09.in_net n a).
Proof. exact C09_proofs.contains_interval. Qed.
Print Assumptions C09_contains_interval.

(* the decision is exactly the configured policy *)
Theorem C09_decision : forall c a,
  Forall Spec.C09.aligned (allow c) -> Forall Spec.C09.aligned (deny c) ->
  (forall x, a = Some x -> Spec.C09.addr_wf x) ->
  (is_allowed c a = true <-> Spec.C09.admitted c a).
Proof. exact C09_proofs.decision. Qed.
Print Assumptions C09_decision.

(* an address that cannot be parsed is refused *)
Theorem C09_unparsable_refused : forall c, is_allowed c None = false.
Proof. exact C09_proofs.unparsable_refused. Qed.
Print Assumptions C09_unparsable_refused.

(* configuration -> running server: the component is present whenever there is something to
   enforce, and then decides with the configured lists and default *)
Theorem C09_config_faithful : forall ipnet s a al dl,
  sc_enabled s = true ->
  parse_entries ipnet (olist (sc_allow s)) = Some al -> parse_entries ipnet (olist (sc_deny s)) = Some dl ->
  server_admits ipnet s a =
    Some (match al, dl, sc_default s with
          | [], [], true => true
          | _, _, _ => is_allowed {| allow := al; deny := dl; default_allow := sc_default s |} a
          end).
Proof. exact C09_proofs.config_faithful. Qed.
Print Assumptions C09_config_faithful.

(* an entry that cannot be interpreted prevents start-up (whenever the policy is in force) *)
Theorem C09_bad_entry_blocks : forall ipnet s a,
  wants_component s = true ->
  (parse_entries ipnet (olist (sc_allow s)) = None \/ parse_entries ipnet (olist (sc_deny s)) = None) ->
  server_admits ipnet s a = None.
Proof. exact C09_proofs.bad_entry_blocks. Qed.
Print Assumptions C09_bad_entry_blocks.

(* the interval oracle used by the monitor agrees with the Prop-level policy *)
Theorem C09_admittedb_spec : forall c a, Spec.C09.admittedb c a = true <-> Spec.C09.admitted c a.
Proof. exact C09_proofs.admittedb_spec. Qed.
Print Assumptions C09_admittedb_spec.

(* tie to the code: the definition regenerated from AccessControl._is_allowed computes Model.Ip.is_allowed *)
From NV Require Gen.PyGen Equiv.Equiv.
Theorem C09_code_tie : forall ipaddr dn al dflt ip,
  PyGen.gen_is_allowed ipaddr dn al dflt ip = is_allowed {| allow := al; deny := dn; default_allow := dflt |} (ipaddr ip).
Proof. exact Equiv.is_allowed_tie. Qed.
Print Assumptions C09_code_tie.


(* ---- tie to the code (server/middleware.py AccessControl): the statements of coq/Equiv/EquivMw.v, re-checked here against the definitions regenerated
   from /repo's working tree (coq/Gen); see DESIGN.md 11.8 ---- *)
From Coq Require Import List NArith ZArith QArith Bool.
From NV Require Import Prelude.Str Prelude.Res Model.Bucket Model.Ip Model.Proxy Model.ServerProto Model.Session Equiv.ServerGlue Equiv.MwGlue.
From NV Require Import Gen.MwGen.
From NV Require Equiv.EquivMw.
Theorem C09_code_ac_init_tie : forall ipnet al dl, gen_ac_init ipnet al dl = EquivMw.ac_init_spec ipnet al dl.
Proof. exact EquivMw.ac_init_tie. Qed.
Print Assumptions C09_code_ac_init_tie.

Theorem C09_code_ac_is_allowed_tie : forall ipaddr dn al dflt ip,
  gen_ac_is_allowed ipaddr dn al dflt ip = is_allowed {| allow := al; deny := dn; default_allow := dflt |} (ipaddr ip).
Proof. exact EquivMw.ac_is_allowed_tie. Qed.
Print Assumptions C09_code_ac_is_allowed_tie.

Theorem C09_code_ac_process_tie : forall ipaddr dn al dflt url ip fp,
  gen_ac_process ipaddr dn al dflt url ip fp =
  EquivMw.ac_answer (is_allowed {| allow := al; deny := dn; default_allow := dflt |} (ipaddr ip)).
Proof. exact EquivMw.ac_process_tie. Qed.
Print Assumptions C09_code_ac_process_tie.

Theorem C09_code_ac_server_tie : forall ipnet ipaddr s url ip fp,
  wants_component s = true ->
  match gen_ac_init ipnet (sc_allow s) (sc_deny s) with
  | Ok (a, d) => Some (fst (gen_ac_process ipaddr d a (sc_default s) url ip fp))
  | _ => None
  end = server_admits ipnet s (ipaddr ip).
Proof. exact EquivMw.ac_server_tie. Qed.
Print Assumptions C09_code_ac_server_tie.



(* ---- tie to the code (server/config.py get_access_control_config, __main__._serve, server/server.py start_server: the configured policy reaches the chain): theorems of coq/Equiv/EquivWiring.v (statements there), re-checked against the definitions
   regenerated from /repo's working tree; see DESIGN.md 11.8 / 11.11 ---- *)
From NV Require Equiv.EquivWiring.
Theorem C09_code_access_control_config_tie : ltac:(let t := type of @EquivWiring.access_control_config_tie in exact t).
Proof. exact (@EquivWiring.access_control_config_tie). Qed.
Print Assumptions C09_code_access_control_config_tie.

Theorem C09_code_serve_args_tie : ltac:(let t := type of @EquivWiring.serve_args_tie in exact t).
Proof. exact (@EquivWiring.serve_args_tie). Qed.
Print Assumptions C09_code_serve_args_tie.

Theorem C09_code_cli_wiring : ltac:(let t := type of @EquivWiring.cli_wiring in exact t).
Proof. exact (@EquivWiring.cli_wiring). Qed.
Print Assumptions C09_code_cli_wiring.

Theorem C09_code_middlewares_tie : ltac:(let t := type of @EquivWiring.middlewares_tie in exact t).
Proof. exact (@EquivWiring.middlewares_tie). Qed.
Print Assumptions C09_code_middlewares_tie.


Close Scope N_scope.
