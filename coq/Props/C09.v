(* C09 - property theorems.  Only statements; proofs live in Proofs/C09_proofs.v. *)
From Coq Require Import List NArith Bool.
From NV Require Import Prelude.Str Model.Ip.
From NV Require Spec.C09 Proofs.C09_proofs.
Import ListNotations.
Open Scope N_scope.

(* netmask membership = integer interval membership, for every aligned network and address *)
Theorem C09_contains_interval : forall n a, Spec.C09.aligned n -> Spec.C09.addr_wf a ->
  (contains n a = true <-> Spec.C09.in_net n a).
Proof. exact C09_proofs.contains_interval. Qed.
Print Assumptions C09_contains_interval.

(* the decision is exactly the configured policy *)
Theorem C09_decision : forall c a,
  Forall Spec.C09.aligned (allow c) -> Forall Spec.C09.aligned (deny c) ->
  (forall x, a = Some x -> Spec.C09.addr_wf x) ->
  (is_allowed c a = true <-> Spec.C09.admitted c a).
Proof. exact C09_proofs.decision. Qed.
Print Assumptions C09_decision.

(* an address that cannot be parsed is refused *)
Theorem C09_unparsable_refused : forall c, is_allowed c None = false.
Proof. exact C09_proofs.unparsable_refused. Qed.
Print Assumptions C09_unparsable_refused.

(* configuration -> running server: the component is present whenever there is something to
   enforce, and then decides with the configured lists and default *)
Theorem C09_config_faithful : forall ipnet s a al dl,
  sc_enabled s = true ->
  parse_entries ipnet (olist (sc_allow s)) = Some al -> parse_entries ipnet (olist (sc_deny s)) = Some dl ->
  server_admits ipnet s a =
    Some (match al, dl, sc_default s with
          | [], [], true => true
          | _, _, _ => is_allowed {| allow := al; deny := dl; default_allow := sc_default s |} a
          end).
Proof. exact C09_proofs.config_faithful. Qed.
Print Assumptions C09_config_faithful.

(* an entry that cannot be interpreted prevents start-up (whenever the policy is in force) *)
Theorem C09_bad_entry_blocks : forall ipnet s a,
  wants_component s = true ->
  (parse_entries ipnet (olist (sc_allow s)) = None \/ parse_entries ipnet (olist (sc_deny s)) = None) ->
  server_admits ipnet s a = None.
Proof. exact C09_proofs.bad_entry_blocks. Qed.
Print Assumptions C09_bad_entry_blocks.

(* the interval oracle used by the monitor agrees with the Prop-level policy *)
Theorem C09_admittedb_spec : forall c a, Spec.C09.admittedb c a = true <-> Spec.C09.admitted c a.
Proof. exact C09_proofs.admittedb_spec. Qed.
Print Assumptions C09_admittedb_spec.

(* tie to the code: the definition regenerated from AccessControl._is_allowed computes Model.Ip.is_allowed *)
From NV Require Gen.PyGen Equiv.Equiv.
Theorem C09_code_tie : forall ipaddr dn al dflt ip,
  PyGen.gen_is_allowed ipaddr dn al dflt ip = is_allowed {| allow := al; deny := dn; default_allow := dflt |} (ipaddr ip).
Proof. exact Equiv.is_allowed_tie. Qed.
Print Assumptions C09_code_tie.


(* ---- tie to the code (server/middleware.py AccessControl): the statements of coq/Equiv/EquivMw.v, re-checked here against the definitions regenerated
   from /repo's working tree (coq/Gen); see DESIGN.md 11.8 ---- *)
From Coq Require Import List NArith ZArith QArith Bool.
From NV Require Import Prelude.Str Prelude.Res Model.Bucket Model.Ip Model.Proxy Model.ServerProto Model.Session Equiv.ServerGlue Equiv.MwGlue.
From NV Require Import Gen.MwGen.
From NV Require Equiv.EquivMw.
Theorem C09_code_ac_init_tie : forall ipnet al dl, gen_ac_init ipnet al dl = EquivMw.ac_init_spec ipnet al dl.
Proof. exact EquivMw.ac_init_tie. Qed.
Print Assumptions C09_code_ac_init_tie.

Theorem C09_code_ac_is_allowed_tie : forall ipaddr dn al dflt ip,
  gen_ac_is_allowed ipaddr dn al dflt ip = is_allowed {| allow := al; deny := dn; default_allow := dflt |} (ipaddr ip).
Proof. exact EquivMw.ac_is_allowed_tie. Qed.
Print Assumptions C09_code_ac_is_allowed_tie.

Theorem C09_code_ac_process_tie : forall ipaddr dn al dflt url ip fp,
  gen_ac_process ipaddr dn al dflt url ip fp =
  EquivMw.ac_answer (is_allowed {| allow := al; deny := dn; default_allow := dflt |} (ipaddr ip)).
Proof. exact EquivMw.ac_process_tie. Qed.
Print Assumptions C09_code_ac_process_tie.

Theorem C09_code_ac_server_tie : forall ipnet ipaddr s url ip fp,
  wants_component s = true ->
  match gen_ac_init ipnet (sc_allow s) (sc_deny s) with
  | Ok (a, d) => Some (fst (gen_ac_process ipaddr d a (sc_default s) url ip fp))
  | _ => None
  end = server_admits ipnet s (ipaddr ip).
Proof. exact EquivMw.ac_server_tie. Qed.
Print Assumptions C09_code_ac_server_tie.



(* ---- tie to the code (server/config.py get_access_control_config, __main__._serve, server/server.py start_server: the configured policy reaches the chain): theorems of coq/Equiv/EquivWiring.v (statements there), re-checked against the definitions
   regenerated from /repo's working tree; see DESIGN.md 11.8 / 11.11 ---- *)
From NV Require Equiv.EquivWiring.
Theorem C09_code_access_control_config_tie : ltac:(let t := type of @EquivWiring.access_control_config_tie in exact t).
Proof. exact (@EquivWiring.access_control_config_tie). Qed.
Print Assumptions C09_code_access_control_config_tie.

Theorem C09_code_serve_args_tie : ltac:(let t := type of @EquivWiring.serve_args_tie in exact t).
Proof. exact (@EquivWiring.serve_args_tie). Qed.
Print Assumptions C09_code_serve_args_tie.

Theorem C09_code_cli_wiring : ltac:(let t := type of @EquivWiring.cli_wiring in exact t).
Proof. exact (@EquivWiring.cli_wiring). Qed.
Print Assumptions C09_code_cli_wiring.

Theorem C09_code_middlewares_tie : ltac:(let t := type of @EquivWiring.middlewares_tie in exact t).
Proof. exact (@EquivWiring.middlewares_tie). Qed.
Print Assumptions C09_code_middlewares_tie.


(* ---- `nauyaca serve --reload` (DESIGN.md 11.17): the parent starts no server; it hands its command line minus the reload flags
   to a child that is the server.  Theorems over Model/Reload.v for ALL argument lists (proofs: Proofs/C09_reload.v) ---- *)
From NV Require Model.Reload Proofs.C09_reload.
(* no argument other than a reload flag or the value of --reload-dir / --reload-ext is dropped, changed or reordered *)
Theorem C09_reload_strip_keeps : forall pre a post, Reload.dangling pre = false -> Reload.reloadish a = false ->
  Reload.strip_reload (pre ++ a :: post) = Reload.strip_reload pre ++ a :: Reload.strip_reload post.
Proof. exact C09_reload.strip_keeps. Qed.
Print Assumptions C09_reload_strip_keeps.

(* --config=V reaches the child for every V (V may contain "reload") *)
Theorem C09_reload_strip_keeps_config_eq : forall pre V post, Reload.dangling pre = false ->
  Reload.strip_reload (pre ++ (lit "--config=" ++ V) :: post) = Reload.strip_reload pre ++ (lit "--config=" ++ V) :: Reload.strip_reload post.
Proof. exact C09_reload.strip_keeps_config_eq. Qed.
Print Assumptions C09_reload_strip_keeps_config_eq.

(* --config V / -c V: both tokens, adjacent and in order, for every V that does not begin with "--reload" *)
Theorem C09_reload_strip_keeps_config : forall pre V post, Reload.dangling pre = false -> prefixb (lit "--reload") V = false ->
  Reload.strip_reload (pre ++ lit "--config" :: V :: post) = Reload.strip_reload pre ++ lit "--config" :: V :: Reload.strip_reload post.
Proof. exact C09_reload.strip_keeps_config. Qed.
Print Assumptions C09_reload_strip_keeps_config.

Theorem C09_reload_strip_keeps_c : forall pre V post, Reload.dangling pre = false -> prefixb (lit "--reload") V = false ->
  Reload.strip_reload (pre ++ lit "-c" :: V :: post) = Reload.strip_reload pre ++ lit "-c" :: V :: Reload.strip_reload post.
Proof. exact C09_reload.strip_keeps_c. Qed.
Print Assumptions C09_reload_strip_keeps_c.

(* what is dropped after a value-taking reload flag is exactly one token, and nothing else is disturbed *)
Theorem C09_reload_strip_app_dangling : forall pre x l, Reload.dangling pre = true ->
  Reload.strip_reload (pre ++ x :: l) = Reload.strip_reload pre ++ Reload.strip_reload l /\ Reload.dangling (pre ++ x :: l) = Reload.dangling l.
Proof. exact C09_reload.strip_app_dangling. Qed.
Print Assumptions C09_reload_strip_app_dangling.

(* the child is never told to reload (it is the server, not another supervisor); no reload flag form survives *)
Theorem C09_reload_strip_no_reload : forall l, ~ In Reload.f_reload (Reload.strip_reload l).
Proof. exact C09_reload.strip_no_reload. Qed.
Print Assumptions C09_reload_strip_no_reload.

Theorem C09_reload_strip_none_reloadish : forall l x, In x (Reload.strip_reload l) -> Reload.reloadish x = false.
Proof. exact C09_reload.strip_none_reloadish. Qed.
Print Assumptions C09_reload_strip_none_reloadish.

(* nothing is added, changed or reordered *)
Theorem C09_reload_strip_subseq : forall l, C09_reload.subseq (Reload.strip_reload l) l.
Proof. exact C09_reload.strip_subseq. Qed.
Print Assumptions C09_reload_strip_subseq.

(* without reload flags the filter is the identity *)
Theorem C09_reload_strip_id : forall l, (forall x, In x l -> Reload.reloadish x = false) ->
  Reload.strip_reload l = l /\ Reload.dangling l = false.
Proof. exact C09_reload.strip_id. Qed.
Print Assumptions C09_reload_strip_id.

(* the child's command line; together: the child's argv is the parent's minus exactly the reload flags *)
Theorem C09_reload_child_command_shape : forall exe args, Reload.child_command exe args = exe :: lit "-m" :: lit "nauyaca" :: args.
Proof. exact C09_reload.child_command_shape. Qed.
Print Assumptions C09_reload_child_command_shape.

Theorem C09_reload_child_keeps : forall exe pre a post, Reload.dangling pre = false -> Reload.reloadish a = false ->
  Reload.child_argv exe (pre ++ a :: post) =
  (exe :: lit "-m" :: lit "nauyaca" :: lit "serve" :: Reload.strip_reload pre) ++ a :: Reload.strip_reload post.
Proof. exact C09_reload.child_keeps. Qed.
Print Assumptions C09_reload_child_keeps.

Theorem C09_reload_child_keeps_config_eq : forall exe pre V post, Reload.dangling pre = false ->
  In (lit "--config=" ++ V) (Reload.child_argv exe (pre ++ (lit "--config=" ++ V) :: post)).
Proof. exact C09_reload.child_keeps_config_eq. Qed.
Print Assumptions C09_reload_child_keeps_config_eq.

(* ---- tie to the code (__main__.py serve: the filter over sys.argv[2:]; server/reload/supervisor.py: run_with_reload, Supervisor.__init__,
   _build_command, _start_server): theorems of coq/Equiv/EquivReload.v (statements there), re-checked against the definitions
   regenerated from /repo's working tree by translate/py2coq_reload.py; see DESIGN.md 11.8 / 11.17 ---- *)
From NV Require Equiv.EquivReload.
Theorem C09_code_reload_server_args_tie : ltac:(let t := type of @EquivReload.reload_server_args_tie in exact t).
Proof. exact (@EquivReload.reload_server_args_tie). Qed.
Print Assumptions C09_code_reload_server_args_tie.

Theorem C09_code_reload_argv_lower_tie : ltac:(let t := type of @EquivReload.reload_argv_lower_tie in exact t).
Proof. exact (@EquivReload.reload_argv_lower_tie). Qed.
Print Assumptions C09_code_reload_argv_lower_tie.

Theorem C09_code_reload_server_args_of_argv_tie : ltac:(let t := type of @EquivReload.reload_server_args_of_argv_tie in exact t).
Proof. exact (@EquivReload.reload_server_args_of_argv_tie). Qed.
Print Assumptions C09_code_reload_server_args_of_argv_tie.

Theorem C09_code_reload_declared_flags_tie : ltac:(let t := type of @EquivReload.reload_declared_flags_tie in exact t).
Proof. exact (@EquivReload.reload_declared_flags_tie). Qed.
Print Assumptions C09_code_reload_declared_flags_tie.

Theorem C09_code_reload_build_command_tie : ltac:(let t := type of @EquivReload.reload_build_command_tie in exact t).
Proof. exact (@EquivReload.reload_build_command_tie). Qed.
Print Assumptions C09_code_reload_build_command_tie.

Theorem C09_code_reload_child_argv_tie : ltac:(let t := type of @EquivReload.reload_child_argv_tie in exact t).
Proof. exact (@EquivReload.reload_child_argv_tie). Qed.
Print Assumptions C09_code_reload_child_argv_tie.

Theorem C09_code_reload_serve_passes_filtered_args : ltac:(let t := type of @EquivReload.reload_serve_passes_filtered_args in exact t).
Proof. exact (@EquivReload.reload_serve_passes_filtered_args). Qed.
Print Assumptions C09_code_reload_serve_passes_filtered_args.

Theorem C09_code_reload_run_with_reload_resolves : ltac:(let t := type of @EquivReload.reload_run_with_reload_resolves in exact t).
Proof. exact (@EquivReload.reload_run_with_reload_resolves). Qed.
Print Assumptions C09_code_reload_run_with_reload_resolves.

Theorem C09_code_reload_run_with_reload_passes_unchanged : ltac:(let t := type of @EquivReload.reload_run_with_reload_passes_unchanged in exact t).
Proof. exact (@EquivReload.reload_run_with_reload_passes_unchanged). Qed.
Print Assumptions C09_code_reload_run_with_reload_passes_unchanged.

Theorem C09_code_reload_init_stores_unchanged : ltac:(let t := type of @EquivReload.reload_init_stores_unchanged in exact t).
Proof. exact (@EquivReload.reload_init_stores_unchanged). Qed.
Print Assumptions C09_code_reload_init_stores_unchanged.

Theorem C09_code_reload_server_args_assigned_once : ltac:(let t := type of @EquivReload.reload_server_args_assigned_once in exact t).
Proof. exact (@EquivReload.reload_server_args_assigned_once). Qed.
Print Assumptions C09_code_reload_server_args_assigned_once.

Theorem C09_code_reload_run_calls_start_server : ltac:(let t := type of @EquivReload.reload_run_calls_start_server in exact t).
Proof. exact (@EquivReload.reload_run_calls_start_server). Qed.
Print Assumptions C09_code_reload_run_calls_start_server.

Theorem C09_code_reload_popen_gets_build_command : ltac:(let t := type of @EquivReload.reload_popen_gets_build_command in exact t).
Proof. exact (@EquivReload.reload_popen_gets_build_command). Qed.
Print Assumptions C09_code_reload_popen_gets_build_command.

Theorem C09_code_reload_popen_no_shell : ltac:(let t := type of @EquivReload.reload_popen_no_shell in exact t).
Proof. exact (@EquivReload.reload_popen_no_shell). Qed.
Print Assumptions C09_code_reload_popen_no_shell.

Theorem C09_code_reload_popen_inherits_env_cwd : ltac:(let t := type of @EquivReload.reload_popen_inherits_env_cwd in exact t).
Proof. exact (@EquivReload.reload_popen_inherits_env_cwd). Qed.
Print Assumptions C09_code_reload_popen_inherits_env_cwd.


Close Scope N_scope.
