(* C08 - property theorems: the three-valued line oracle against the URL / Titan models.
   Proofs: Proofs/C08_proofs.v. *)
From Coq Require Import List NArith ZArith Bool.
From NV Require Import Prelude.Str Prelude.Res Model.Url Model.Titan.
From NV Require Spec.C08 Proofs.C08_proofs.
Import ListNotations.

(* soundness: a line the protocol forbids (wrong/missing scheme, no authority, empty host,
   user-info, fragment) is never turned into a request, whatever the IPv6 oracle says *)
Theorem C08_sound : forall ip6 u c,
  Spec.C08.grey u = false -> Spec.C08.must_reject_gemini u = true -> parse_url ip6 u <> Ok c.
Proof. exact C08_proofs.sound. Qed.
Print Assumptions C08_sound.

(* completeness: every strictly grammatical gemini line (reg-name or bracketed IPv6 host,
   optional port <= 65535, pchar path, query, at most 1024 bytes with CRLF) is accepted with
   host (lower-cased), port, path and query intact *)
Theorem C08_complete : forall ip6 u k,
  Spec.C08.must_accept ip6 u = Some k ->
  exists c, gemini_from_line ip6 u = Ok c /\ p_host c = Spec.C08.k_host k /\ p_port c = Spec.C08.k_port k /\
            p_path c = Spec.C08.k_path k /\ p_query c = Spec.C08.k_query k.
Proof. exact C08_proofs.complete. Qed.
Print Assumptions C08_complete.

(* Titan: missing, empty, negative or non-numeric size is refused *)
Theorem C08_titan_sound : forall ip6 u t,
  Spec.C08.must_reject_titan u = true -> titan_from_line ip6 u <> Ok t.
Proof. exact C08_proofs.titan_sound. Qed.
Print Assumptions C08_titan_sound.

(* a Titan request that is accepted has a gemini-acceptable base URL and a non-negative size *)
Theorem C08_titan_base : forall ip6 u t,
  titan_from_line ip6 u = Ok t ->
  exists base rest c, break_at ch_semi u = Some (base, rest) /\
    parse_url ip6 (lit "gemini://" ++ drop 8 base) = Ok c /\ t_host t = p_host c /\ t_port t = p_port c /\ t_path t = p_path c.
Proof. exact C08_proofs.titan_base. Qed.
Print Assumptions C08_titan_base.

(* the 1024-byte limit: a line of n bytes (without CRLF) is admitted exactly when n + 2 <= 1024 *)
Theorem C08_limit : forall l rest,
  has_crlf l = false -> (forall a, l <> a ++ [13%N]) ->
  Spec.ServerTrace.request_line (l ++ [13%N; 10%N] ++ rest) =
    if (1024 <? N.of_nat (length l) + 2)%N then Spec.ServerTrace.LTooBig
    else match Prelude.Utf8.decode l with
         | None => Spec.ServerTrace.LBadUtf8
         | Some u => Spec.ServerTrace.LLine u rest
         end.
Proof. exact C08_proofs.limit. Qed.
Print Assumptions C08_limit.

(* server level: whatever the schedule, the request handler, the middleware chain and the upload handler are only ever
   started for a request line that the URL / Titan model accepts (hence at most 1024 bytes with CRLF, valid UTF-8,
   absolute gemini:// or well-formed titan://), and an upload is started with exactly the declared number of bytes *)
From NV Require Model.ServerProto Spec.ServerTrace Proofs.C08_server.
Theorem C08_invoked_only_valid : forall ip6 handler mw up ucf ip fp evs,
  let acts := Spec.ServerTrace.flat (ServerProto.run ip6 handler mw up ucf ip fp ServerProto.init evs) in
  (forall line, In (ServerProto.AHandler line) acts -> exists p, gemini_from_line ip6 line = Ok p) /\
  (forall id url i f, In (ServerProto.AMw id url i f) acts ->
      i = ip /\ f = fp /\
      ((exists line p, gemini_from_line ip6 line = Ok p /\ url = p_norm p) \/
       (exists line t, titan_from_line ip6 line = Ok t /\ url = titan_normalized t /\ up = true))) /\
  (forall id line content, In (ServerProto.AUpload id line content) acts ->
      up = true /\ exists t, titan_from_line ip6 line = Ok t /\ N.of_nat (length content) = t_size t) /\
  (* ... also when the upload handler's call fails before it has produced an awaitable *)
  (forall line content, In (ServerProto.AUploadCall line content) acts ->
      up = true /\ exists t, titan_from_line ip6 line = Ok t /\ N.of_nat (length content) = t_size t).
Proof. exact C08_server.invoked_only_valid. Qed.
Print Assumptions C08_invoked_only_valid.

(* ---- tie to the code (utils/url.py, protocol/request.py): the statements of coq/Equiv/EquivUrl.v, re-checked here against the definitions regenerated
   from /repo's working tree (coq/Gen); see DESIGN.md 11.8 ---- *)
From Coq Require Import List NArith ZArith Bool.
From NV Require Import Prelude.Str Prelude.Res Prelude.Utf8 Model.Url Model.Titan Equiv.UrlGlue Gen.UrlGen.
From NV Require Equiv.EquivUrl.
Theorem C08_code_parse_url_tie : forall ip6 u,
  gen_parse_url (urlparse ip6) u = res_map purl_of_parsed (parse_url ip6 u).
Proof. exact EquivUrl.parse_url_tie. Qed.
Print Assumptions C08_code_parse_url_tie.

Theorem C08_code_gemini_from_line_full_tie : forall ip6 line,
  gen_gemini_from_line (gen_validate_url (gen_parse_url (urlparse ip6))) (gen_parse_url (urlparse ip6)) line
  = res_map (greq_of_parsed line) (gemini_from_line_full ip6 line).
Proof. exact EquivUrl.gemini_from_line_full_tie. Qed.
Print Assumptions C08_code_gemini_from_line_full_tie.

Theorem C08_code_gemini_from_line_model : forall ip6 line,
  abbreviate (gemini_from_line_full ip6 line) = gemini_from_line ip6 line.
Proof. exact EquivUrl.gemini_from_line_model. Qed.
Print Assumptions C08_code_gemini_from_line_model.

Theorem C08_code_gemini_from_line_tie : forall ip6 line,
  abbreviate (gen_gemini_from_line (gen_validate_url (gen_parse_url (urlparse ip6))) (gen_parse_url (urlparse ip6)) line)
  = res_map (greq_of_parsed line) (gemini_from_line ip6 line).
Proof. exact EquivUrl.gemini_from_line_tie. Qed.
Print Assumptions C08_code_gemini_from_line_tie.

Theorem C08_code_parse_titan_params_tie : forall s, gen_parse_titan_params s = Ok (parse_params s).
Proof. exact EquivUrl.parse_titan_params_tie. Qed.
Print Assumptions C08_code_parse_titan_params_tie.

Theorem C08_code_titan_from_line_tie : forall ip6 line,
  gen_titan_from_line gen_parse_titan_params (gen_parse_url (urlparse ip6)) line
  = res_map gtreq_of_treq (titan_from_line ip6 line).
Proof. exact EquivUrl.titan_from_line_tie. Qed.
Print Assumptions C08_code_titan_from_line_tie.

(* ---- tie to the code (server/protocol.py: the request-line limit, UTF-8 and URL checks in data_received / _handle_gemini_request / _handle_titan_url): theorems of coq/Equiv/EquivServer.v (statements there), re-checked against the definitions
   regenerated from /repo's working tree; see DESIGN.md 11.8 ---- *)
From NV Require Equiv.EquivServer.
Theorem C08_code_data_received_tie : ltac:(let t := type of @EquivServer.data_received_tie in exact t).
Proof. exact (@EquivServer.data_received_tie). Qed.
Print Assumptions C08_code_data_received_tie.

Theorem C08_code_handle_gemini_request_tie : ltac:(let t := type of @EquivServer.handle_gemini_request_tie in exact t).
Proof. exact (@EquivServer.handle_gemini_request_tie). Qed.
Print Assumptions C08_code_handle_gemini_request_tie.

Theorem C08_code_handle_titan_url_tie : ltac:(let t := type of @EquivServer.handle_titan_url_tie in exact t).
Proof. exact (@EquivServer.handle_titan_url_tie). Qed.
Print Assumptions C08_code_handle_titan_url_tie.

