(* C10 - property theorems.  Only statements; proofs live in Proofs/C10_proofs.v. *)
From Coq Require Import List NArith QArith Bool.
From NV Require Import Prelude.Str Model.Bucket.
From NV Require Spec.C10 Proofs.C10_proofs.
Import ListNotations.
Open Scope Q_scope.

(* the window bound, for every history (requests and clean-up passes, any addresses),
   every address and every window *)
Theorem C10_window : forall c h ip t1 t2,
  0 <= rate c -> 0 <= cap c -> Spec.C10.sorted h -> t1 <= t2 ->
  inject_Z (Z.of_nat (Spec.C10.admitted_in (run c [] h) ip t1 t2)) <= cap c + rate c * (t2 - t1).
Proof. exact C10_proofs.window. Qed.
Print Assumptions C10_window.

(* clean-up passes never change any decision *)
Theorem C10_cleanup_transparent : forall c h,
  0 <= rate c -> Spec.C10.sorted h ->
  run c [] h = run c [] (filter Spec.C10.is_req h).
Proof. exact C10_proofs.cleanup_transparent. Qed.
Print Assumptions C10_cleanup_transparent.

(* traffic from other addresses never alters the outcome for an address *)
Theorem C10_isolation : forall c h ip,
  Spec.C10.decisions_of ip (run c [] h) = run c [] (filter (Spec.C10.concerns ip) h).
Proof. exact C10_proofs.isolation. Qed.
Print Assumptions C10_isolation.

(* a request is refused only when the address's allowance is exhausted: the decisions for an
   address are those of one ideal, never-evicted bucket created full at its first request *)
Theorem C10_refuse_only_exhausted : forall c h ip t0 ts,
  0 <= rate c -> Spec.C10.sorted h ->
  map (fun e => fst (fst e)) (Spec.C10.decisions_of ip (run c [] h)) = t0 :: ts ->
  map snd (Spec.C10.decisions_of ip (run c [] h)) =
  Spec.C10.ideal c {| tokens := cap c; last := t0 |} (t0 :: ts).
Proof. exact C10_proofs.refuse_only_exhausted. Qed.
Print Assumptions C10_refuse_only_exhausted.

(* the same as a monitor: on every (time-ordered) history the model's decisions pass Spec.C10.ideal_ok, the clause the
   harness evaluates on the implementation's decisions *)
From NV Require Proofs.C10_ideal.
Theorem C10_ideal_ok : forall c h,
  0 <= rate c -> Spec.C10.sorted h -> Spec.C10.ideal_ok c (run c [] h) = true.
Proof. exact C10_ideal.ideal_ok_run. Qed.
Print Assumptions C10_ideal_ok.

(* tokens stay within [0, capacity] *)
Theorem C10_tokens_range : forall c now b ok b',
  0 <= rate c -> 0 <= cap c -> 0 <= tokens b -> tokens b <= cap c -> last b <= now ->
  consume c now b = (ok, b') -> 0 <= tokens b' /\ tokens b' <= cap c /\ last b' = now.
Proof. exact C10_proofs.tokens_range. Qed.
Print Assumptions C10_tokens_range.

(* the boolean monitor is implied by the window bound (so it can never fire on a log the model produces) *)
Theorem C10_ok : forall c h,
  0 <= rate c -> 0 <= cap c -> Spec.C10.sorted h -> Spec.C10.ok c (run c [] h) = true.
Proof. exact C10_proofs.ok_model. Qed.
Print Assumptions C10_ok.

(* tie to the code: the definition regenerated from TokenBucket.consume (coq/Gen/PyGen.v) computes Model.Bucket.consume *)
From NV Require Gen.PyGen Equiv.Equiv.
Theorem C10_code_tie : forall capq rateq tok lst now,
  PyGen.gen_consume capq rateq tok lst now (inject_Z 1) =
  let (ok, b) := consume {| cap := capq; rate := rateq |} now {| tokens := tok; last := lst |} in (ok, tokens b, last b).
Proof. exact Equiv.consume_tie. Qed.
Print Assumptions C10_code_tie.


(* ---- tie to the code (server/middleware.py RateLimiter, TokenBucket): the statements of coq/Equiv/EquivMw.v, re-checked here against the definitions regenerated
   from /repo's working tree (coq/Gen); see DESIGN.md 11.8 ---- *)
From Coq Require Import List NArith ZArith QArith Bool.
From NV Require Import Prelude.Str Prelude.Res Model.Bucket Model.Ip Model.Proxy Model.ServerProto Model.Session Equiv.ServerGlue Equiv.MwGlue.
From NV Require Import Gen.MwGen.
From NV Require Equiv.EquivMw.
Theorem C10_code_tb_consume_tie : forall c now b,
  gen_TokenBucket_consume now (EquivMw.pyb c b) (inject_Z 1) = let (ok, b') := consume c now b in (ok, EquivMw.pyb c b').
Proof. exact EquivMw.tb_consume_tie. Qed.
Print Assumptions C10_code_tb_consume_tie.

Theorem C10_code_rl_process_tie : forall c retry st now url ip fp,
  gen_rl_process now (cap c) (rate c) retry (EquivMw.table c st) url ip fp =
  Ok (let (ok, st') := process c st now ip in (EquivMw.rl_answer retry ok, EquivMw.table c st')).
Proof. exact EquivMw.rl_process_tie. Qed.
Print Assumptions C10_code_rl_process_tie.

Theorem C10_code_rl_cleanup_tie : forall c st now, NoDup (map fst st) ->
  gen_rl_cleanup_pass now (EquivMw.table c st) = Ok (EquivMw.table c (cleanup c st now)).
Proof. exact EquivMw.rl_cleanup_tie. Qed.
Print Assumptions C10_code_rl_cleanup_tie.

Theorem C10_code_process_keeps_keys_distinct : forall c st now ip, NoDup (map fst st) -> NoDup (map fst (snd (process c st now ip))).
Proof. exact EquivMw.process_keeps_keys_distinct. Qed.
Print Assumptions C10_code_process_keeps_keys_distinct.

Theorem C10_code_cleanup_keeps_keys_distinct : forall c st now, NoDup (map fst st) -> NoDup (map fst (cleanup c st now)).
Proof. exact EquivMw.cleanup_keeps_keys_distinct. Qed.
Print Assumptions C10_code_cleanup_keeps_keys_distinct.

Theorem C10_code_rl_run_tie : forall c retry h, EquivMw.gen_run c retry gen_RateLimiter_buckets_init h = Ok (Bucket.run c [] h).
Proof. exact EquivMw.rl_run_tie. Qed.
Print Assumptions C10_code_rl_run_tie.


Close Scope Q_scope.
