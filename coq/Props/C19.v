(* C19 - property theorems.  Only statements; proofs live in Proofs/C19_roundtrip.v. *)
From Coq Require Import List NArith Bool.
From NV Require Import Prelude.Str Prelude.Res Model.Url Spec.UrlOracle.
From NV Require Spec.C19 Proofs.C19_roundtrip.
Import ListNotations.

(* every accepted URL: its normalised form is accepted, denotes the same host, port, path and
   query, and normalising again changes nothing (the monitor predicate holds of the model) *)
Theorem C19_roundtrip : forall ip6 u c, oracle_ok ip6 -> parse_url ip6 u = Ok c ->
  Spec.C19.ok (Ok c) (parse_url ip6 (p_norm c)) = true.
Proof. exact C19_roundtrip.roundtrip_ok. Qed.
Print Assumptions C19_roundtrip.

(* stronger: re-parsing the normalised form yields the identical component record *)
Theorem C19_fixpoint : forall ip6 u c, oracle_ok ip6 -> parse_url ip6 u = Ok c ->
  parse_url ip6 (p_norm c) = Ok c.
Proof. exact C19_roundtrip.parse_url_norm_fixpoint. Qed.
Print Assumptions C19_fixpoint.

Theorem C19_components : forall ip6 u c, oracle_ok ip6 -> parse_url ip6 u = Ok c ->
  exists c', parse_url ip6 (p_norm c) = Ok c' /\ p_host c' = p_host c /\ p_port c' = p_port c /\
             p_path c' = p_path c /\ p_query c' = p_query c /\ p_norm c' = p_norm c.
Proof. exact C19_roundtrip.roundtrip_components. Qed.
Print Assumptions C19_components.

Theorem C19_idempotent : forall ip6 u c c', oracle_ok ip6 -> parse_url ip6 u = Ok c ->
  parse_url ip6 (p_norm c) = Ok c' -> p_norm c' = p_norm c.
Proof. exact C19_roundtrip.normalize_idempotent. Qed.
Print Assumptions C19_idempotent.

(* shape of every accepted URL's components *)
Theorem C19_output_wf : forall ip6 u c, parse_url ip6 u = Ok c ->
  p_host c <> [] /\ (p_port c <= 65535)%N /\ prefixb [ch_slash] (p_path c) = true /\
  mem ch_qm (p_path c) = false /\ mem ch_hash (p_path c) = false /\ mem ch_hash (p_query c) = false /\
  (forall x, In x (p_host c ++ p_path c ++ p_query c) -> is_unsafe x = false).
Proof. exact C19_roundtrip.parse_url_output_wf. Qed.
Print Assumptions C19_output_wf.

(* the hypotheses are satisfiable: an oracle accepting exactly "::1", and a bracketed URL *)
Example ex_C19_nonvacuous :
  let ip6 := fun h => if eqb h (lit "::1") then None else Some (lit "no") in
  oracle_ok ip6 /\ exists c, parse_url ip6 (lit "GEMINI://[::1]:1965/a?b") = Ok c /\ p_norm c = lit "gemini://[::1]/a?b".
Proof.
  split.
  - split; intros h H; cbv zeta in *; destruct (eqb h (lit "::1")) eqn:E; try discriminate;
      apply eqb_spec in E; subst; vm_compute; reflexivity.
  - eexists; split; vm_compute; reflexivity.
Qed.

(* ---- tie to the code (utils/url.py parse_url): the statements of coq/Equiv/EquivUrl.v, re-checked here against the definitions regenerated
   from /repo's working tree (coq/Gen); see DESIGN.md 11.8 ---- *)
From Coq Require Import List NArith ZArith Bool.
From NV Require Import Prelude.Str Prelude.Res Prelude.Utf8 Model.Url Model.Titan Equiv.UrlGlue Gen.UrlGen.
From NV Require Equiv.EquivUrl.
Theorem C19_code_parse_url_tie : forall ip6 u,
  gen_parse_url (urlparse ip6) u = res_map purl_of_parsed (parse_url ip6 u).
Proof. exact EquivUrl.parse_url_tie. Qed.
Print Assumptions C19_code_parse_url_tie.

