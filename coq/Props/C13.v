(* C13 - client calls terminate with a faithful response or a clear error.
   Proofs: Proofs/C13_proofs.v. *)
From Coq Require Import List NArith ZArith Bool.
From NV Require Import Prelude.Str Prelude.Res Prelude.Utf8 Model.Titan Model.ClientProto.
From NV Require Spec.C13 Proofs.C13_proofs.
Import ListNotations.
Open Scope N_scope.

(* refinement: however the server's bytes are cut into reads, the outcome is the abstract
   specification applied to the whole stream *)
Theorem C13_refines : forall decode_body cap dw chunks exc,
  cfut (Spec.C13.deliver decode_body cap dw cinit chunks exc) =
  Done (Spec.C13.spec_result decode_body cap dw (concat chunks) exc).
Proof. exact C13_proofs.refines. Qed.
Print Assumptions C13_refines.

(* hence the result never depends on the segmentation *)
Theorem C13_segmentation : forall decode_body cap dw c1 c2 exc, concat c1 = concat c2 ->
  cfut (Spec.C13.deliver decode_body cap dw cinit c1 exc) = cfut (Spec.C13.deliver decode_body cap dw cinit c2 exc).
Proof. exact C13_proofs.segmentation. Qed.
Print Assumptions C13_segmentation.

(* the call always terminates once the connection is gone: the future is resolved, whatever
   events preceded (data, sends, in any order) *)
Theorem C13_resolved : forall request soc decode_body cap dw evs exc,
  cfut (fst (crun request soc decode_body cap dw cinit (evs ++ [CLost exc]))) <> Pending.
Proof. exact C13_proofs.resolved. Qed.
Print Assumptions C13_resolved.

(* a response handed to the caller is faithful: status in 10..69, body exactly for 2x, and the
   body is the bytes after the first CRLF (decoded with the declared charset for text) *)
Theorem C13_faithful : forall decode_body cap dw stream exc r,
  Spec.C13.spec_result decode_body cap dw stream exc = ROk r ->
  exists l body, break_crlf stream = Some (l, body) /\
    10 <= cr_status r /\ cr_status r < 70 /\
    (cr_body r = CNone <-> is_2x (cr_status r) = false) /\
    (forall b, cr_body r = CBytes b -> b = body) /\
    (forall t, cr_body r = CText t -> dw (charset_of (cr_meta r)) body = Some t).
Proof. exact C13_proofs.faithful. Qed.
Print Assumptions C13_faithful.

(* a 2x body longer than the cap is refused, however it arrives *)
Theorem C13_cap : forall decode_body cap dw l body v m exc,
  break_crlf (l ++ [13; 10] ++ body) = Some (l, body) ->
  Spec.C13.spec_result decode_body cap dw (l ++ [13; 10] ++ body) exc = ROk {| cr_status := v; cr_meta := m; cr_body := CBytes body |} ->
  N.of_nat (length body) <= cap.
Proof. exact C13_proofs.cap_bound. Qed.
Print Assumptions C13_cap.

(* ---- tie to the code (client/protocol.py GeminiClientProtocol): the statements of coq/Equiv/EquivClient.v, re-checked here against the definitions regenerated
   from /repo's working tree (coq/Gen); see DESIGN.md 11.8 ---- *)
From Coq Require Import List NArith ZArith Bool.
From NV Require Import Prelude.Str Prelude.Res Prelude.Utf8 Model.Titan Model.ClientProto Equiv.ClientGlue Gen.ClientGen.
From NV Require Equiv.EquivClient.
Theorem C13_code_max_header_line_tie : gen_MAX_HEADER_LINE_SIZE = max_header_line.
Proof. exact EquivClient.max_header_line_tie. Qed.
Print Assumptions C13_code_max_header_line_tie.

Theorem C13_code_header_too_long_tie : forall s, gen_header_too_long s = header_too_long (cbuf s).
Proof. exact EquivClient.header_too_long_tie. Qed.
Print Assumptions C13_code_header_too_long_tie.

Theorem C13_code_parse_header_tie : forall s line,
  gen_parse_header (fun s k => (set_err s k, [])) s line = (parse_header s line, []).
Proof. exact EquivClient.parse_header_tie. Qed.
Print Assumptions C13_code_parse_header_tie.

Theorem C13_code_cstep_data_tie : forall request soc db dw s d,
  connected s = true ->
  gen_data_received gen_header_too_long (gen_parse_header gen_set_error) gen_set_error s d
  = cstep request soc db gen_MAX_RESPONSE_BODY_SIZE dw s (CData d).
Proof. exact EquivClient.cstep_data_tie. Qed.
Print Assumptions C13_code_cstep_data_tie.

Theorem C13_code_cstep_lost_tie : forall request soc db cap dw url s exc,
  (cfut s = Pending -> hdr s = true -> status s <> None) ->
  gen_connection_lost dw url db s (option_map (app (lit "conn:")) exc) = cstep request soc db cap dw s (CLost exc).
Proof. exact EquivClient.cstep_lost_tie. Qed.
Print Assumptions C13_code_cstep_lost_tie.

Theorem C13_code_cstep_connected_tie : forall soc db cap dw url b s,
  encode (url ++ [13; 10]%N) = Some b ->
  gen_connection_made (gen_send_request url) soc s = cstep [b] soc db cap dw s CConnected.
Proof. exact EquivClient.cstep_connected_tie. Qed.
Print Assumptions C13_code_cstep_connected_tie.

Theorem C13_code_send_request_tie : forall soc db cap dw url b s,
  encode (url ++ [13; 10]%N) = Some b ->
  gen_send_request url s = cstep [b] soc db cap dw s CSend.
Proof. exact EquivClient.send_request_tie. Qed.
Print Assumptions C13_code_send_request_tie.

Theorem C13_code_status_known_reachable : forall request soc db cap dw evs,
  let s := fst (crun request soc db cap dw cinit evs) in
  cfut s = Pending -> hdr s = true -> status s <> None.
Proof. exact EquivClient.status_known_reachable. Qed.
Print Assumptions C13_code_status_known_reachable.

Theorem C13_code_connected_stable : forall request soc db cap dw s e,
  connected s = true -> connected (fst (cstep request soc db cap dw s e)) = true.
Proof. exact EquivClient.connected_stable. Qed.
Print Assumptions C13_code_connected_stable.



(* the Titan client class (TitanClientProtocol), same model with the upload's request bytes and decode_body = true *)
Theorem C13_code_titan_cstep_data_tie : forall request soc db dw s d,
  connected s = true ->
  gen_titan_data_received gen_titan_header_too_long (gen_titan_parse_header gen_titan_set_error) gen_titan_set_error s d
  = cstep request soc db gen_MAX_RESPONSE_BODY_SIZE dw s (CData d).
Proof. exact EquivClient.titan_cstep_data_tie. Qed.
Print Assumptions C13_code_titan_cstep_data_tie.

Theorem C13_code_titan_cstep_lost_tie : forall request soc cap dw url s exc,
  (cfut s = Pending -> hdr s = true -> status s <> None) ->
  gen_titan_connection_lost dw url s (option_map (app (lit "conn:")) exc) = cstep request soc true cap dw s (CLost exc).
Proof. exact EquivClient.titan_cstep_lost_tie. Qed.
Print Assumptions C13_code_titan_cstep_lost_tie.

Theorem C13_code_titan_cstep_connected_tie : forall soc db cap dw url content b s,
  encode (url ++ [13; 10]%N) = Some b ->
  gen_titan_connection_made (gen_titan_send_request url content) soc s = cstep [b; content] soc db cap dw s CConnected.
Proof. exact EquivClient.titan_cstep_connected_tie. Qed.
Print Assumptions C13_code_titan_cstep_connected_tie.

Theorem C13_code_titan_send_request_tie : forall soc db cap dw url content b s,
  encode (url ++ [13; 10]%N) = Some b ->
  gen_titan_send_request url content s = cstep [b; content] soc db cap dw s CSend.
Proof. exact EquivClient.titan_send_request_tie. Qed.
Print Assumptions C13_code_titan_send_request_tie.



(* ---- tie to the code (client/session.py GeminiClient._get_single, upload): theorems of coq/Equiv/EquivSession.v (statements there), re-checked against the definitions
   regenerated from /repo's working tree; see DESIGN.md 11.8 ---- *)
From NV Require Equiv.EquivSession.
Theorem C13_code_get_single_tie : ltac:(let t := type of @EquivSession.get_single_tie in exact t).
Proof. exact (@EquivSession.get_single_tie). Qed.
Print Assumptions C13_code_get_single_tie.

Theorem C13_code_upload_tie : ltac:(let t := type of @EquivSession.upload_tie in exact t).
Proof. exact (@EquivSession.upload_tie). Qed.
Print Assumptions C13_code_upload_tie.

Theorem C13_code_get_single_wait : ltac:(let t := type of @EquivSession.get_single_wait in exact t).
Proof. exact (@EquivSession.get_single_wait). Qed.
Print Assumptions C13_code_get_single_wait.

Theorem C13_code_upload_wait : ltac:(let t := type of @EquivSession.upload_wait in exact t).
Proof. exact (@EquivSession.upload_wait). Qed.
Print Assumptions C13_code_upload_wait.

Theorem C13_code_get_single_connect_failure : ltac:(let t := type of @EquivSession.get_single_connect_failure in exact t).
Proof. exact (@EquivSession.get_single_connect_failure). Qed.
Print Assumptions C13_code_get_single_connect_failure.

Theorem C13_code_upload_connect_failure : ltac:(let t := type of @EquivSession.upload_connect_failure in exact t).
Proof. exact (@EquivSession.upload_connect_failure). Qed.
Print Assumptions C13_code_upload_connect_failure.

Theorem C13_code_get_single_close_once : ltac:(let t := type of @EquivSession.get_single_close_once in exact t).
Proof. exact (@EquivSession.get_single_close_once). Qed.
Print Assumptions C13_code_get_single_close_once.



Theorem C13_code_max_response_body_value : ltac:(let t := type of @EquivClient.max_response_body_value in exact t).
Proof. exact (@EquivClient.max_response_body_value). Qed.
Print Assumptions C13_code_max_response_body_value.

Close Scope N_scope.
