(* C13 - client calls terminate with a faithful response or a clear error.
   Proofs: Proofs/C13_proofs.v. *)
From Coq Require Import List NArith ZArith Bool.
From NV Require Import Prelude.Str Prelude.Res Prelude.Utf8 Model.Titan Model.ClientProto.
From NV Require Spec.C13 Proofs.C13_proofs.
Import ListNotations.
Open Scope N_scope.

(* refinement: however the server's bytes are cut into reads, the outcome is the abstract
   specification applied to the whole stream *)
Theorem C13_refines : forall decode_body cap dw chunks exc,
  cfut (Spec.C13.deliver decode_body cap dw cinit chunks exc) =
  Done (Spec.C13.spec_result decode_body cap dw (concat chunks) exc).
Proof. exact C13_proofs.refines. Qed.
Print Assumptions C13_refines.

(* hence the result never depends on the segmentation *)
Theorem C13_segmentation : forall decode_body cap dw c1 c2 exc, concat c1 = concat c2 ->
  cfut (Spec.C13.deliver decode_body cap dw cinit c1 exc) = cfut (Spec.C13.deliver decode_body cap dw cinit c2 exc).
Proof. exact C13_proofs.segmentation. Qed.
Print Assumptions C13_segmentation.

(* the call always terminates once the connection is gone: the future is resolved, whatever
   events preceded (data, sends, in any order) *)
Theorem C13_resolved : forall request soc decode_body cap dw evs exc,
  cfut (fst (crun request soc decode_body cap dw cinit (evs ++ [CLost exc]))) <> Pending.
Proof. exact C13_proofs.resolved. Qed.
Print Assumptions C13_resolved.

(* a response handed to the caller is faithful: status in 10..69, body exactly for 2x, and the
   body is the bytes after the first CRLF (decoded with the declared charset for text) *)
Theorem C13_faithful : forall decode_body cap dw stream exc r,
  Spec.C13.spec_result decode_body cap dw stream exc = ROk r ->
  exists l body, break_crlf stream = Some (l, body) /\
    10 <= cr_status r /\ cr_status r < 70 /\
    (cr_body r = CNone <-> is_2x (cr_status r) = false) /\
    (forall b, cr_body r = CBytes b -> b = body) /\
    (forall t, cr_body r = CText t -> dw (charset_of (cr_meta r)) body = Some t).
Proof. exact C13_proofs.faithful. Qed.
Print Assumptions C13_faithful.

(* a 2x body longer than the cap is refused, however it arrives *)
Theorem C13_cap : forall decode_body cap dw l body v m exc,
  break_crlf (l ++ [13; 10] ++ body) = Some (l, body) ->
  Spec.C13.spec_result decode_body cap dw (l ++ [13; 10] ++ body) exc = ROk {| cr_status := v; cr_meta := m; cr_body := CBytes body |} ->
  N.of_nat (length body) <= cap.
Proof. exact C13_proofs.cap_bound. Qed.
Print Assumptions C13_cap.
Close Scope N_scope.
