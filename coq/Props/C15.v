(* C15 (request phase) - silent peers are always disconnected within the timeout. *)
From Coq Require Import List NArith ZArith Bool.
From NV Require Import Prelude.Str Prelude.Res Model.Url Model.Titan Model.ServerProto Spec.ServerTrace.
From NV Require Spec.C15 Proofs.Server_proofs.
Import ListNotations.

(* no stuck state: an open, unanswered connection always has the timer armed or a task pending.
   Full statement (kept type-checked); false of the model only for request lines outside the URL
   model (AOutOfModel: the model sends nothing there - the implementation does answer) *)
Definition C15_no_stuck_full_statement : Prop := forall ip6 handler mw up ucf ip fp evs,
  has_lost evs = false ->
  let s := final ip6 handler mw up ucf ip fp init evs in
  closing s = true \/ timer s = TArmed \/ pending s <> [].

Theorem C15_no_stuck_partial : forall ip6 handler mw up ucf ip fp evs,
  has_lost evs = false ->
  existsb (fun a => match a with AOutOfModel => true | _ => false end)
          (flat (run ip6 handler mw up ucf ip fp init evs)) = false ->
  let s := final ip6 handler mw up ucf ip fp init evs in
  closing s = true \/ timer s = TArmed \/ pending s <> [].
Proof. exact Server_proofs.no_stuck_partial. Qed.
Print Assumptions C15_no_stuck_partial.

(* when the armed timer fires on an unanswered connection the peer gets 40 and the close *)
Theorem C15_timeout_response : forall ip6 handler mw up ucf ip fp evs,
  let s := final ip6 handler mw up ucf ip fp init evs in
  timer s = TArmed -> sent s = false ->
  snd (step ip6 handler mw up ucf ip fp s ETimer) = [AWrite timeout_line; AClose].
Proof. exact Server_proofs.timeout_response. Qed.
Print Assumptions C15_timeout_response.

(* the timer is never armed while a complete request is being answered *)
Theorem C15_not_armed_while_answering : forall ip6 handler mw up ucf ip fp evs,
  let s := final ip6 handler mw up ucf ip fp init evs in
  pending s <> [] -> timer s <> TArmed.
Proof. exact Server_proofs.not_armed_while_answering. Qed.
Print Assumptions C15_not_armed_while_answering.

(* the monitor predicate holds of every model trace inside the URL model *)
Theorem C15_ok_partial : forall ip6 handler mw up ucf ip fp evs,
  existsb (fun a => match a with AOutOfModel => true | _ => false end)
          (flat (run ip6 handler mw up ucf ip fp init evs)) = false ->
  Spec.C15.ok evs (run ip6 handler mw up ucf ip fp init evs) = true.
Proof. exact Server_proofs.c15_ok_partial. Qed.
Print Assumptions C15_ok_partial.

(* handshake phase of the manual (PyOpenSSL) TLS layer: while the handshake is incomplete and the
   TCP connection open, the handshake timer is armed; when it fires the connection is closed *)
From NV Require Model.TlsPump Proofs.Tls_proofs.
Theorem C15_handshake_timer : forall evs,
  let s := fst (TlsPump.trun TlsPump.tinit evs) in
  TlsPump.ph s = TlsPump.Handshaking ->
  TlsPump.hs_timer s = true /\
  TlsPump.tstep s TlsPump.TTimer =
    ({| TlsPump.ph := TlsPump.Dead; TlsPump.hs_timer := false; TlsPump.inner := TlsPump.inner s |}, [TlsPump.TClose]).
Proof. exact Tls_proofs.handshake_timer. Qed.
Print Assumptions C15_handshake_timer.

(* ---- the same theorems about the code: `gen_run` / `gen_final` / `gen_step` / `cl_data_received` are the connection's
   transition function assembled from the translation of /repo/src/nauyaca/server/protocol.py (coq/Gen/ServerGen.v,
   regenerated from the working tree on every run; event dispatch in coq/Equiv/ServerLoop.v).  `reenc_ok` is the one
   assumed fact about CPython's lenient UTF-8 decoder (satisfiable: EquivServerLoop.reenc_ok_satisfiable). ---- *)
From NV Require Import Prelude.Utf8 Equiv.ServerGlue Gen.ServerGen Equiv.ServerLoop.
From NV Require Equiv.EquivServerLoop Proofs.Server_on_code.
Theorem C15_not_armed_while_answering_on_code : forall reenc : str -> str,
  EquivServerLoop.reenc_ok reenc ->
  forall ip6 handler mw up ucf ip fp evs,
  let s := gen_final reenc ip6 handler mw up ucf ip fp init evs in
  pending s <> [] -> timer s <> TArmed.
Proof. exact Server_on_code.not_armed_while_answering_on_code. Qed.
Print Assumptions C15_not_armed_while_answering_on_code.

Theorem C15_timeout_response_on_code : forall reenc : str -> str,
  EquivServerLoop.reenc_ok reenc ->
  forall ip6 handler mw up ucf ip fp evs,
  let s := gen_final reenc ip6 handler mw up ucf ip fp init evs in
  timer s = TArmed -> sent s = false ->
  snd (gen_step reenc ip6 handler mw up ucf ip fp s ETimer) = [AWrite timeout_line; AClose].
Proof. exact Server_on_code.timeout_response_on_code. Qed.
Print Assumptions C15_timeout_response_on_code.

Theorem C15_no_stuck_on_code_partial : forall reenc : str -> str,
  EquivServerLoop.reenc_ok reenc ->
  forall ip6 handler mw up ucf ip fp evs,
  has_lost evs = false ->
  existsb (fun a => match a with AOutOfModel => true | _ => false end)
          (flat (gen_run reenc ip6 handler mw up ucf ip fp init evs)) = false ->
  let s := gen_final reenc ip6 handler mw up ucf ip fp init evs in
  closing s = true \/ timer s = TArmed \/ pending s <> [].
Proof. exact Server_on_code.no_stuck_partial_on_code. Qed.
Print Assumptions C15_no_stuck_on_code_partial.

Theorem C15_ok_on_code_partial : forall reenc : str -> str,
  EquivServerLoop.reenc_ok reenc ->
  forall ip6 handler mw up ucf ip fp evs,
  existsb (fun a => match a with AOutOfModel => true | _ => false end)
          (flat (gen_run reenc ip6 handler mw up ucf ip fp init evs)) = false ->
  Spec.C15.ok evs (gen_run reenc ip6 handler mw up ucf ip fp init evs) = true.
Proof. exact Server_on_code.c15_ok_partial_on_code. Qed.
Print Assumptions C15_ok_on_code_partial.

(* the listening sockets (table regenerated from the source by translate/tlsconf.py) leave asyncio's TLS handshake and
   shutdown timeouts at their defaults: how long a slow reader may take to drain a response after close() (C06), and how
   long a silent peer may sit in the handshake on the standard-library backend (C15), are asyncio's constants *)
From NV Require Gen.TlsConfigGen Proofs.TlsListeners.
Theorem C15_listeners_default_timing : TlsListeners.default_tls_timing TlsConfigGen.listener_options = true.
Proof. exact TlsListeners.listeners_default_timing. Qed.
Print Assumptions C15_listeners_default_timing.

(* ---- tie to the code (server/tls_protocol.py handshake timer): the statements of coq/Equiv/EquivTls.v, re-checked here against the definitions regenerated
   from /repo's working tree (coq/Gen); see DESIGN.md 11.8 ---- *)
From Coq Require Import List NArith Bool.
From NV Require Import Prelude.Str Model.TlsPump Equiv.TlsGlue Gen.TlsGen.
From NV Require Equiv.EquivTls.
Theorem C15_code_handshake_timeout_value : gen_handshake_timeout_ms = 30000%N.
Proof. exact EquivTls.handshake_timeout_value. Qed.
Print Assumptions C15_code_handshake_timeout_value.

Theorem C15_code_tstep_tie : forall fuel s e,
  wf s -> live s -> model_ev e = true -> ev_size e < fuel ->
  abs_res (gen_step fuel s e) = Some (tstep (abs s) (abs_ev e)).
Proof. exact EquivTls.tstep_tie. Qed.
Print Assumptions C15_code_tstep_tie.

Theorem C15_code_trun_tie : forall fuel evs,
  forallb model_ev evs = true -> Forall (fun e => ev_size e < fuel) evs ->
  exists s' a,
    gen_run fuel cinit evs = (s', a, None) /\ wf s' /\
    abs_acts a = snd (trun tinit (map abs_ev evs)) /\ teq (abs s') (fst (trun tinit (map abs_ev evs))).
Proof. exact EquivTls.trun_tie. Qed.
Print Assumptions C15_code_trun_tie.

(* the request timer is armed when the connection is made, with the delay of the source's REQUEST_TIMEOUT *)
From NV Require Equiv.EquivServer.
Theorem C15_code_connection_made_tie : ltac:(let t := type of @EquivServer.connection_made_tie in exact t).
Proof. exact (@EquivServer.connection_made_tie). Qed.
Print Assumptions C15_code_connection_made_tie.
Theorem C15_code_request_timeout_value : ltac:(let t := type of @EquivServer.request_timeout_value in exact t).
Proof. exact (@EquivServer.request_timeout_value). Qed.
Print Assumptions C15_code_request_timeout_value.
