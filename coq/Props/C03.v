(* C03 - TOFU: a pinned host is never accepted with a different certificate.  Proofs/Tofu_proofs.v *)
From Coq Require Import List NArith ZArith Bool.
From NV Require Import Prelude.Str Prelude.Res Model.Tofu.
From NV Require Spec.C03 Proofs.Tofu_proofs.
Import ListNotations.

(* acceptance: only if the presented fingerprint equals the pin, or there was no pin and the
   presented certificate is now pinned *)
Theorem C03_accept_iff : forall s h p c now s',
  tofu_check s h p c now = (s', SAccepted) ->
  exists fp, c = PCert fp /\
    ((Spec.C03.pin s h p = Some fp /\ s' = s) \/
     (Spec.C03.pin s h p = None /\ Spec.C03.pin s' h p = Some fp)).
Proof. exact Tofu_proofs.accept_iff. Qed.
Print Assumptions C03_accept_iff.

(* a different certificate: certificate-changed error naming both fingerprints, store untouched *)
Theorem C03_changed : forall s h p f g now,
  Spec.C03.pin s h p = Some f -> g <> f ->
  tofu_check s h p (PCert g) now = (s, SChanged f g).
Proof. exact Tofu_proofs.changed. Qed.
Print Assumptions C03_changed.

(* pins of other host:port pairs are never influenced *)
Theorem C03_isolation : forall s h p c now h' p',
  (h', p') <> (h, p) ->
  Spec.C03.pin (fst (tofu_check s h p c now)) h' p' = Spec.C03.pin s h' p'.
Proof. exact Tofu_proofs.isolation. Qed.
Print Assumptions C03_isolation.

(* an unreadable certificate is refused, never treated as unpinned or trusted *)
Theorem C03_unreadable_refused : forall s h p now, tofu_check s h p PUnreadable now = (s, SRefused).
Proof. exact Tofu_proofs.unreadable_refused. Qed.
Print Assumptions C03_unreadable_refused.

(* over any history of connection attempts: a pin, once set, is never replaced by tofu_check *)
Theorem C03_history : forall (ops : list (str * N * presented * str)) s h p f,
  Spec.C03.pin s h p = Some f ->
  Spec.C03.pin (fold_left (fun st o => fst (tofu_check st (fst (fst (fst o))) (snd (fst (fst o))) (snd (fst o)) (snd o))) ops s) h p = Some f.
Proof. exact Tofu_proofs.history. Qed.
Print Assumptions C03_history.

(* the monitor holds of the model *)
Theorem C03_ok : forall s h p c now,
  (forall r1 r2 i j, nth_error s i = Some r1 -> nth_error s j = Some r2 -> r_host r1 = r_host r2 -> r_port r1 = r_port r2 -> i = j) ->
  Spec.C03.ok s h p c (snd (tofu_check s h p c now)) (fst (tofu_check s h p c now)) = true.
Proof. exact Tofu_proofs.ok_model. Qed.
Print Assumptions C03_ok.

(* ---- tie to the code (server/tls_protocol.py TLSTransportWrapper.write, _flush_outgoing): the statements of coq/Equiv/EquivTls.v, re-checked here against the definitions regenerated
   from /repo's working tree (coq/Gen); see DESIGN.md 11.8 ---- *)
From Coq Require Import List NArith Bool.
From NV Require Import Prelude.Str Model.TlsPump Equiv.TlsGlue Gen.TlsGen.
From NV Require Equiv.EquivTls.
Theorem C03_code_flush_outgoing_tie : forall fuel s,
  p_conn s = true -> p_transport s = true -> length (o_out s) < fuel ->
  gen_flush_outgoing fuel s = (set_out s [], map PWrite (flush (o_out s)), None).
Proof. exact EquivTls.flush_outgoing_tie. Qed.
Print Assumptions C03_code_flush_outgoing_tie.

Theorem C03_code_wrapper_write_tie : forall fuel s d,
  p_conn s = true -> p_transport s = true -> o_out s = [] ->
  length (concat (map frame (sendall d))) < fuel ->
  gen_wrapper_write fuel s d = (s, map PWrite (wrapper_write d), None).
Proof. exact EquivTls.wrapper_write_tie. Qed.
Print Assumptions C03_code_wrapper_write_tie.

Theorem C03_code_wrapper_write_tie_pending : forall fuel s d,
  p_conn s = true -> p_transport s = true ->
  length (o_out s ++ concat (map frame (sendall d))) < fuel ->
  gen_wrapper_write fuel s d =
  (set_out s [], map PWrite (flush (o_out s ++ concat (map frame (sendall d)))), None).
Proof. exact EquivTls.wrapper_write_tie_pending. Qed.
Print Assumptions C03_code_wrapper_write_tie_pending.

(* ---- tie to the code (security/tofu.py and the TOFU block of client/session.py): theorems of coq/Equiv/EquivTofu.v (statements there), re-checked against the definitions
   regenerated from /repo's working tree; see DESIGN.md 11.8 ---- *)
From NV Require Equiv.EquivTofu.
Theorem C03_code_trust_tie : ltac:(let t := type of @EquivTofu.trust_tie in exact t).
Proof. exact (@EquivTofu.trust_tie). Qed.
Print Assumptions C03_code_trust_tie.

Theorem C03_code_verify_tie : ltac:(let t := type of @EquivTofu.verify_tie in exact t).
Proof. exact (@EquivTofu.verify_tie). Qed.
Print Assumptions C03_code_verify_tie.

Theorem C03_code_revoke_tie : ltac:(let t := type of @EquivTofu.revoke_tie in exact t).
Proof. exact (@EquivTofu.revoke_tie). Qed.
Print Assumptions C03_code_revoke_tie.

Theorem C03_code_clear_tie : ltac:(let t := type of @EquivTofu.clear_tie in exact t).
Proof. exact (@EquivTofu.clear_tie). Qed.
Print Assumptions C03_code_clear_tie.

Theorem C03_code_import_toml_code_tie : ltac:(let t := type of @EquivTofu.import_toml_code_tie in exact t).
Proof. exact (@EquivTofu.import_toml_code_tie). Qed.
Print Assumptions C03_code_import_toml_code_tie.

Theorem C03_code_get_single_tofu_tie : ltac:(let t := type of @EquivTofu.get_single_tofu_tie in exact t).
Proof. exact (@EquivTofu.get_single_tofu_tie). Qed.
Print Assumptions C03_code_get_single_tofu_tie.

Theorem C03_code_upload_tofu_tie : ltac:(let t := type of @EquivTofu.upload_tofu_tie in exact t).
Proof. exact (@EquivTofu.upload_tofu_tie). Qed.
Print Assumptions C03_code_upload_tofu_tie.

(* ---- tie to the code (client/session.py: the pin check and the first-use pin happen before the request is sent, in one step): theorems of coq/Equiv/EquivSession.v (statements there), re-checked against the definitions
   regenerated from /repo's working tree; see DESIGN.md 11.8 ---- *)
From NV Require Equiv.EquivSession.
Theorem C03_code_get_single_tie : ltac:(let t := type of @EquivSession.get_single_tie in exact t).
Proof. exact (@EquivSession.get_single_tie). Qed.
Print Assumptions C03_code_get_single_tie.

Theorem C03_code_upload_tie : ltac:(let t := type of @EquivSession.upload_tie in exact t).
Proof. exact (@EquivSession.upload_tie). Qed.
Print Assumptions C03_code_upload_tie.

Theorem C03_code_get_single_c11 : ltac:(let t := type of @EquivSession.get_single_c11 in exact t).
Proof. exact (@EquivSession.get_single_c11). Qed.
Print Assumptions C03_code_get_single_c11.

(* ---- tie to the code: the certificate fingerprint and the places that obtain the presented certificate (coq/Equiv/EquivCerts.v): re-checked here against the definitions regenerated from /repo's working tree; see DESIGN.md 11.8 ---- *)
From NV Require Equiv.EquivCerts.
Theorem C03_code_fingerprint_tie : ltac:(let t := type of @EquivCerts.fingerprint_tie in exact t).
Proof. exact (@EquivCerts.fingerprint_tie). Qed.
Print Assumptions C03_code_fingerprint_tie.

Theorem C03_code_fingerprint_default_tie : ltac:(let t := type of @EquivCerts.fingerprint_default_tie in exact t).
Proof. exact (@EquivCerts.fingerprint_default_tie). Qed.
Print Assumptions C03_code_fingerprint_default_tie.

Theorem C03_code_default_algorithm_tie : ltac:(let t := type of @EquivCerts.default_algorithm_tie in exact t).
Proof. exact (@EquivCerts.default_algorithm_tie). Qed.
Print Assumptions C03_code_default_algorithm_tie.

Theorem C03_code_server_peer_tie : ltac:(let t := type of @EquivCerts.server_peer_tie in exact t).
Proof. exact (@EquivCerts.server_peer_tie). Qed.
Print Assumptions C03_code_server_peer_tie.

Theorem C03_code_client_peer_tie : ltac:(let t := type of @EquivCerts.client_peer_tie in exact t).
Proof. exact (@EquivCerts.client_peer_tie). Qed.
Print Assumptions C03_code_client_peer_tie.

Theorem C03_code_titan_client_peer_tie : ltac:(let t := type of @EquivCerts.titan_client_peer_tie in exact t).
Proof. exact (@EquivCerts.titan_client_peer_tie). Qed.
Print Assumptions C03_code_titan_client_peer_tie.

Theorem C03_code_x509_to_cryptography_tie : ltac:(let t := type of @EquivCerts.x509_to_cryptography_tie in exact t).
Proof. exact (@EquivCerts.x509_to_cryptography_tie). Qed.
Print Assumptions C03_code_x509_to_cryptography_tie.

Theorem C03_code_wrapper_getpeercert_tie : ltac:(let t := type of @EquivCerts.wrapper_getpeercert_tie in exact t).
Proof. exact (@EquivCerts.wrapper_getpeercert_tie). Qed.
Print Assumptions C03_code_wrapper_getpeercert_tie.

Theorem C03_code_sites_outside_certificates_use_default : ltac:(let t := type of @EquivCerts.sites_outside_certificates_use_default in exact t).
Proof. exact (@EquivCerts.sites_outside_certificates_use_default). Qed.
Print Assumptions C03_code_sites_outside_certificates_use_default.

Theorem C03_code_security_sites_present : ltac:(let t := type of @EquivCerts.security_sites_present in exact t).
Proof. exact (@EquivCerts.security_sites_present). Qed.
Print Assumptions C03_code_security_sites_present.

(* ---- the fingerprint format: equality of fingerprints is equality of SHA-256 digests (coq/Proofs/Certs_format.v) ---- *)
From NV Require Proofs.Certs_format.
Theorem C03_model_fingerprint_default_strict : ltac:(let t := type of @Certs_format.fingerprint_default_strict in exact t).
Proof. exact (@Certs_format.fingerprint_default_strict). Qed.
Print Assumptions C03_model_fingerprint_default_strict.

Theorem C03_model_fingerprint_eq_iff_digest_eq : ltac:(let t := type of @Certs_format.fingerprint_eq_iff_digest_eq in exact t).
Proof. exact (@Certs_format.fingerprint_eq_iff_digest_eq). Qed.
Print Assumptions C03_model_fingerprint_eq_iff_digest_eq.

Theorem C03_model_fingerprint_eqb_iff_digest_eq : ltac:(let t := type of @Certs_format.fingerprint_eqb_iff_digest_eq in exact t).
Proof. exact (@Certs_format.fingerprint_eqb_iff_digest_eq). Qed.
Print Assumptions C03_model_fingerprint_eqb_iff_digest_eq.

Theorem C03_model_fingerprint_sha256_ne_sha1 : ltac:(let t := type of @Certs_format.fingerprint_sha256_ne_sha1 in exact t).
Proof. exact (@Certs_format.fingerprint_sha256_ne_sha1). Qed.
Print Assumptions C03_model_fingerprint_sha256_ne_sha1.

Theorem C03_model_peer_fingerprint_is_hash_of_presented_der : ltac:(let t := type of @Certs_format.peer_fingerprint_is_hash_of_presented_der in exact t).
Proof. exact (@Certs_format.peer_fingerprint_is_hash_of_presented_der). Qed.
Print Assumptions C03_model_peer_fingerprint_is_hash_of_presented_der.

Theorem C03_model_pyopenssl_fingerprint_is_hash_of_dumped_der : ltac:(let t := type of @Certs_format.pyopenssl_fingerprint_is_hash_of_dumped_der in exact t).
Proof. exact (@Certs_format.pyopenssl_fingerprint_is_hash_of_dumped_der). Qed.
Print Assumptions C03_model_pyopenssl_fingerprint_is_hash_of_dumped_der.

(* ---- tie to the code (src/nauyaca/__main__.py: the commands that reach the pin check and the trust store - `get` hands
   --trust/--no-trust and --verify-ssl to GeminiClient unchanged, TOFU on by default; the `tofu` sub-commands call the TOFUDatabase
   methods with exactly the host / port / flags given): theorems of coq/Equiv/EquivCliClient.v (statements there), re-checked against
   the definitions regenerated from /repo's working tree by translate/py2coq_cliclient.py; see DESIGN.md 11.8 ---- *)
From NV Require Equiv.EquivCliClient.
Theorem C03_code_cli_get_trust : ltac:(let t := type of @EquivCliClient.cli_get_trust in exact t).
Proof. exact (@EquivCliClient.cli_get_trust). Qed.
Print Assumptions C03_code_cli_get_trust.
Theorem C03_code_cli_get_defaults : ltac:(let t := type of @EquivCliClient.cli_get_defaults in exact t).
Proof. exact (@EquivCliClient.cli_get_defaults). Qed.
Print Assumptions C03_code_cli_get_defaults.
Theorem C03_code_cli_get_options : ltac:(let t := type of @EquivCliClient.cli_get_options in exact t).
Proof. exact (@EquivCliClient.cli_get_options). Qed.
Print Assumptions C03_code_cli_get_options.
(* the certificate-changed error has an except clause of its own and ends the command with status 1 *)
Theorem C03_code_cli_get_exit_tie : ltac:(let t := type of @EquivCliClient.cli_get_exit_tie in exact t).
Proof. exact (@EquivCliClient.cli_get_exit_tie). Qed.
Print Assumptions C03_code_cli_get_exit_tie.
Theorem C03_code_cli_get_handler_classes : ltac:(let t := type of @EquivCliClient.cli_get_handler_classes in exact t).
Proof. exact (@EquivCliClient.cli_get_handler_classes). Qed.
Print Assumptions C03_code_cli_get_handler_classes.
Theorem C03_code_cli_tofu_trust_tie : ltac:(let t := type of @EquivCliClient.cli_tofu_trust_tie in exact t).
Proof. exact (@EquivCliClient.cli_tofu_trust_tie). Qed.
Print Assumptions C03_code_cli_tofu_trust_tie.
Theorem C03_code_cli_tofu_revoke_tie : ltac:(let t := type of @EquivCliClient.cli_tofu_revoke_tie in exact t).
Proof. exact (@EquivCliClient.cli_tofu_revoke_tie). Qed.
Print Assumptions C03_code_cli_tofu_revoke_tie.
Theorem C03_code_cli_tofu_clear_tie : ltac:(let t := type of @EquivCliClient.cli_tofu_clear_tie in exact t).
Proof. exact (@EquivCliClient.cli_tofu_clear_tie). Qed.
Print Assumptions C03_code_cli_tofu_clear_tie.
Theorem C03_code_cli_tofu_import_tie : ltac:(let t := type of @EquivCliClient.cli_tofu_import_tie in exact t).
Proof. exact (@EquivCliClient.cli_tofu_import_tie). Qed.
Print Assumptions C03_code_cli_tofu_import_tie.
Theorem C03_code_cli_tofu_import_on_conflict_tie : ltac:(let t := type of @EquivCliClient.cli_tofu_import_on_conflict_tie in exact t).
Proof. exact (@EquivCliClient.cli_tofu_import_on_conflict_tie). Qed.
Print Assumptions C03_code_cli_tofu_import_on_conflict_tie.
Theorem C03_code_cli_tofu_export_tie : ltac:(let t := type of @EquivCliClient.cli_tofu_export_tie in exact t).
Proof. exact (@EquivCliClient.cli_tofu_export_tie). Qed.
Print Assumptions C03_code_cli_tofu_export_tie.
Theorem C03_code_cli_tofu_info_tie : ltac:(let t := type of @EquivCliClient.cli_tofu_info_tie in exact t).
Proof. exact (@EquivCliClient.cli_tofu_info_tie). Qed.
Print Assumptions C03_code_cli_tofu_info_tie.
Theorem C03_code_cli_tofu_list_tie : ltac:(let t := type of @EquivCliClient.cli_tofu_list_tie in exact t).
Proof. exact (@EquivCliClient.cli_tofu_list_tie). Qed.
Print Assumptions C03_code_cli_tofu_list_tie.
Theorem C03_code_cli_tofu_defaults : ltac:(let t := type of @EquivCliClient.cli_tofu_defaults in exact t).
Proof. exact (@EquivCliClient.cli_tofu_defaults). Qed.
Print Assumptions C03_code_cli_tofu_defaults.
Theorem C03_code_cli_tofu_options : ltac:(let t := type of @EquivCliClient.cli_tofu_options in exact t).
Proof. exact (@EquivCliClient.cli_tofu_options). Qed.
Print Assumptions C03_code_cli_tofu_options.
