(* C12 - the trust store changes atomically and survives export/import.  Proofs/Tofu_proofs.v *)
From Coq Require Import List NArith ZArith Bool.
From NV Require Import Prelude.Str Prelude.Res Model.Tofu.
From NV Require Spec.C03 Spec.C12 Proofs.Tofu_proofs.
Import ListNotations.

(* all-or-nothing at every crash point: for a statement list whose only COMMIT is its last
   statement, the store found after a crash is the old one or the completely updated one *)
Theorem C12_atomic : forall s body k,
  ~ In SCommit body ->
  after_crash s (body ++ [SCommit]) k = s \/
  after_crash s (body ++ [SCommit]) k = after_crash s (body ++ [SCommit]) (length (body ++ [SCommit])).
Proof. exact Tofu_proofs.atomic. Qed.
Print Assumptions C12_atomic.

(* every operation has that shape: exactly one COMMIT, at the end (import: only when it does not raise) *)
Theorem C12_single_commit_trust : forall s h p fp now,
  exists body, trust_stmts s h p fp now = body ++ [SCommit] /\ ~ In SCommit body.
Proof. exact Tofu_proofs.single_commit_trust. Qed.
Print Assumptions C12_single_commit_trust.

Theorem C12_single_commit_import : forall cb s merge es l,
  import_stmts cb s merge es = (l, true) -> exists body, l = body ++ [SCommit] /\ ~ In SCommit body.
Proof. exact Tofu_proofs.single_commit_import. Qed.
Print Assumptions C12_single_commit_import.

(* an import that fails for any reason (malformed entry, bad port or fingerprint, raising
   conflict callback), in merge or replace mode, never commits anything: at every point the
   visible store is the original one *)
Theorem C12_failed_import_is_noop : forall cb s merge es l k,
  import_stmts cb s merge es = (l, false) -> after_crash s l k = s.
Proof. exact Tofu_proofs.failed_import_is_noop. Qed.
Print Assumptions C12_failed_import_is_noop.

(* trust / revoke never alter pins of hosts the operation did not name *)
Theorem C12_frame_trust : forall s h p fp now h' p', (h', p') <> (h, p) ->
  Spec.C03.pin (finish s (trust_stmts s h p fp now) true) h' p' = Spec.C03.pin s h' p'.
Proof. exact Tofu_proofs.frame_trust. Qed.
Print Assumptions C12_frame_trust.

Theorem C12_frame_revoke : forall s h p h' p', (h', p') <> (h, p) ->
  Spec.C03.pin (finish s [SDelete h p; SCommit] true) h' p' = Spec.C03.pin s h' p'.
Proof. exact Tofu_proofs.frame_revoke. Qed.
Print Assumptions C12_frame_revoke.

(* the export key determines host and port *)
Theorem C12_key_injective : forall r1 r2, export_key r1 = export_key r2 -> r_host r1 = r_host r2 /\ r_port r1 = r_port r2.
Proof. exact Tofu_proofs.key_injective. Qed.
Print Assumptions C12_key_injective.

(* export then import into an empty store reproduces every host, port, fingerprint and first-seen value *)
Theorem C12_roundtrip : forall cb s, Spec.C12.wf_store s ->
  let (l, okb) := import_stmts cb [] true (map snd (export_entries s)) in
  okb = true /\ finish [] l true = s.
Proof. exact Tofu_proofs.roundtrip. Qed.
Print Assumptions C12_roundtrip.

(* ---- tie to the code (security/tofu.py, client/session.py): the statements of coq/Equiv/EquivTofu.v, re-checked here against the definitions regenerated
   from /repo's working tree (coq/Gen); see DESIGN.md 11.8 ---- *)
From Coq Require Import List NArith ZArith Bool.
From NV Require Import Prelude.Str Prelude.Res Model.Tofu Equiv.TofuGlue Gen.TofuGen.
From NV Require Equiv.EquivTofu.
Theorem C12_code_trust_tie : forall s h p fp now, gen_trust s h p fp now = (trust_stmts s h p fp now, Ok tt).
Proof. exact EquivTofu.trust_tie. Qed.
Print Assumptions C12_code_trust_tie.

Theorem C12_code_verify_tie : forall s h p fp now,
  gen_verify s h p fp now = (snd (verify s h p fp), Ok (verdict_py (fst (verify s h p fp)))).
Proof. exact EquivTofu.verify_tie. Qed.
Print Assumptions C12_code_verify_tie.

Theorem C12_code_revoke_tie : forall s h p,
  gen_revoke s h p = ([SDelete h p; SCommit], Ok (match lookup s h p with Some _ => true | None => false end)).
Proof. exact EquivTofu.revoke_tie. Qed.
Print Assumptions C12_code_revoke_tie.

Theorem C12_code_revoke_by_hostname_tie : forall s h,
  gen_revoke_by_hostname s h = ([SDeleteHost h; SCommit], Ok (length (filter (fun r => eqb h (r_host r)) s))).
Proof. exact EquivTofu.revoke_by_hostname_tie. Qed.
Print Assumptions C12_code_revoke_by_hostname_tie.

Theorem C12_code_clear_tie : forall s, gen_clear s = ([SDeleteAll; SCommit], Ok (length s)).
Proof. exact EquivTofu.clear_tie. Qed.
Print Assumptions C12_code_clear_tie.

Theorem C12_code_validate_fingerprint_tie : forall fp, gen_validate_fingerprint fp = fp_valid fp.
Proof. exact EquivTofu.validate_fingerprint_tie. Qed.
Print Assumptions C12_code_validate_fingerprint_tie.

Theorem C12_code_import_toml_code_tie : forall cb s merge es now,
  obs (gen_import_toml gen_validate_fingerprint s merge cb es now) = import_stmts cb s merge (to_entries es).
Proof. exact EquivTofu.import_toml_code_tie. Qed.
Print Assumptions C12_code_import_toml_code_tie.

Theorem C12_code_get_single_tofu_tie : forall s h p c now,
  gen_get_single_tofu (fun s h p c => gen_verify s h p c now) gen_get_host_info (fun s h p c => gen_trust s h p c now) s h p c
  = (fst (tofu_check s h p (presented_of c) now), outcome_of h p (snd (tofu_check s h p (presented_of c) now))).
Proof. exact EquivTofu.get_single_tofu_tie. Qed.
Print Assumptions C12_code_get_single_tofu_tie.

Theorem C12_code_upload_tofu_tie : forall s h p c now,
  gen_upload_tofu (fun s h p c => gen_verify s h p c now) gen_get_host_info (fun s h p c => gen_trust s h p c now) s h p c
  = (fst (tofu_check s h p (presented_of c) now), outcome_of h p (snd (tofu_check s h p (presented_of c) now))).
Proof. exact EquivTofu.upload_tofu_tie. Qed.
Print Assumptions C12_code_upload_tofu_tie.

