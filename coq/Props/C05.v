(* C05 - certificate rules are applied to the resource that is actually served.  Proofs/Fs_proofs.v *)
From Coq Require Import List NArith ZArith Bool.
From NV Require Import Prelude.Str Prelude.Res Model.Fs Model.Static Model.CertAuth.
From NV Require Spec.C05 Proofs.Fs_proofs.
Import ListNotations.

(* the middleware admits a request only if the first covering rule of EVERY candidate location admits the client *)
Theorem C05_all_candidates : forall rules url fp p,
  decide rules url fp = Ok Allow -> canon_path url = Ok p ->
  forall loc, In loc (candidates p) -> Spec.C05.admits (Spec.C05.covering rules loc) fp = true.
Proof. exact Fs_proofs.all_candidates. Qed.
Print Assumptions C05_all_candidates.

(* refusals carry 60 without a certificate and 61 with one *)
Theorem C05_status : forall rules url fp v,
  decide rules url fp = Ok v -> v <> Allow ->
  (v = Deny60 /\ fp = None) \/ (v = Deny61 /\ exists f, fp = Some f).
Proof. exact Fs_proofs.status. Qed.
Print Assumptions C05_status.

(* the static handler (on a tree without symbolic links, default index names) delivers a resource
   whose canonical location is one of the candidate locations of the request path ... *)
Theorem C05_location_is_candidate : forall c f url o loc p,
  (forall q n, In (q, n) f -> match n with Link _ => False | _ => True end) ->
  s_indices c = index_names ->
  handle c f url = o -> Spec.C05.location (s_root c) o = Some loc -> canon_path url = Ok p ->
  In loc (candidates p).
Proof. exact Fs_proofs.location_is_candidate. Qed.
Print Assumptions C05_location_is_candidate.

(* ... hence: a resource is delivered only if the first rule covering its location admits the client *)
Theorem C05_enforced : forall c f rules url fp o loc,
  (forall q n, In (q, n) f -> match n with Link _ => False | _ => True end) ->
  s_indices c = index_names ->
  decide rules url fp = Ok Allow -> handle c f url = o -> Spec.C05.location (s_root c) o = Some loc ->
  Spec.C05.admits (Spec.C05.covering rules loc) fp = true.
Proof. exact Fs_proofs.enforced. Qed.
Print Assumptions C05_enforced.

(* TOML: what is written is what is enforced; an empty allow-list admits nobody *)
Theorem C05_empty_list_admits_nobody : forall t fp,
  tr_allowed t = Some [] -> apply_rule (Some (rule_of_toml t)) fp <> Allow.
Proof. exact Fs_proofs.empty_list_admits_nobody. Qed.
Print Assumptions C05_empty_list_admits_nobody.
