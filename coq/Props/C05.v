(* C05 - certificate rules are applied to the resource that is actually served.  Proofs/Fs_proofs.v *)
From Coq Require Import List NArith ZArith Bool.
From NV Require Import Prelude.Str Prelude.Res Model.Fs Model.Static Model.CertAuth.
From NV Require Spec.C05 Proofs.Fs_proofs.
Import ListNotations.

(* the middleware admits a request only if the first covering rule of EVERY candidate location admits the client *)
Theorem C05_all_candidates : forall rules url fp p,
  decide rules url fp = Ok Allow -> canon_path url = Ok p ->
  forall loc, In loc (candidates p) -> Spec.C05.admits (Spec.C05.covering rules loc) fp = true.
Proof. exact Fs_proofs.all_candidates. Qed.
Print Assumptions C05_all_candidates.

(* refusals carry 60 without a certificate and 61 with one *)
Theorem C05_status : forall rules url fp v,
  decide rules url fp = Ok v -> v <> Allow ->
  (v = Deny60 /\ fp = None) \/ (v = Deny61 /\ exists f, fp = Some f).
Proof. exact Fs_proofs.status. Qed.
Print Assumptions C05_status.

(* the static handler (on a tree without symbolic links, default index names) delivers a resource
   whose canonical location is one of the candidate locations of the request path ... *)
Theorem C05_location_is_candidate : forall c f url o loc p,
  (forall q n, In (q, n) f -> match n with Link _ => False | _ => True end) ->
  s_indices c = index_names ->
  handle c f url = o -> Spec.C05.location (s_root c) o = Some loc -> canon_path url = Ok p ->
  In loc (candidates p).
Proof. exact Fs_proofs.location_is_candidate. Qed.
Print Assumptions C05_location_is_candidate.

(* ... hence: a resource is delivered only if the first rule covering its location admits the client *)
Theorem C05_enforced : forall c f rules url fp o loc,
  (forall q n, In (q, n) f -> match n with Link _ => False | _ => True end) ->
  s_indices c = index_names ->
  decide rules url fp = Ok Allow -> handle c f url = o -> Spec.C05.location (s_root c) o = Some loc ->
  Spec.C05.admits (Spec.C05.covering rules loc) fp = true.
Proof. exact Fs_proofs.enforced. Qed.
Print Assumptions C05_enforced.

(* TOML: what is written is what is enforced; an empty allow-list admits nobody *)
Theorem C05_empty_list_admits_nobody : forall t fp,
  tr_allowed t = Some [] -> apply_rule (Some (rule_of_toml t)) fp <> Allow.
Proof. exact Fs_proofs.empty_list_admits_nobody. Qed.
Print Assumptions C05_empty_list_admits_nobody.

(* tie to the code: the definitions regenerated from CertificateAuth (_find_matching_rule, _candidate_locations, process_request)
   and utils.url.canonical_path_segments compute the model's functions *)
From NV Require Gen.PyGen Equiv.Equiv.
Theorem C05_code_tie : forall (extract : str -> str) rules url ip fp path (unq : str -> str),
  PyGen.gen_certauth_process extract candidates (find_rule rules) url ip fp = Equiv.verdict_pair (first_denial rules (candidates (extract url)) fp) /\
  PyGen.gen_find_matching_rule rules path = find_rule rules path /\
  PyGen.gen_candidate_locations index_names path = candidates path /\
  PyGen.gen_canonical_path_segments unq path true = Ok (canon_segs (comps (unq path)) []).
Proof.
  intros extract rules url ip fp path unq.
  exact (conj (Equiv.certauth_process_tie extract rules url ip fp)
         (conj (Equiv.find_matching_rule_tie rules path)
         (conj (Equiv.candidate_locations_tie path) (Equiv.canonical_segments_clamp_tie unq path)))).
Qed.
Print Assumptions C05_code_tie.

(* ---- tie to the code (server/handler.py StaticFileHandler): the statements of coq/Equiv/EquivStatic.v, re-checked here against the definitions regenerated
   from /repo's working tree (coq/Gen); see DESIGN.md 11.8 ---- *)
From Coq Require Import List NArith ZArith Bool.
From NV Require Import Prelude.Str Prelude.Res Prelude.Utf8 Model.Fs Model.Static Model.CertAuth.
From NV Require Import Equiv.StaticGlue Gen.StaticGen.
From NV Require Gen.PyGen.
From NV Require Equiv.EquivStatic.
Theorem C05_code_handle_tie : forall flt tok c f url,
  norm_resp (gen_handle (model_lib flt tok) c f url) = resp_of_sout url (handle c f url).
Proof. exact EquivStatic.handle_tie. Qed.
Print Assumptions C05_code_handle_tie.

(* ---- tie to the code (server/config.py get_certificate_auth_config: the rules enforced are the rules written in the configuration): theorems of coq/Equiv/EquivWiring.v (statements there), re-checked against the definitions
   regenerated from /repo's working tree; see DESIGN.md 11.8 ---- *)
From NV Require Equiv.EquivWiring.
Theorem C05_code_certificate_auth_config_tie : ltac:(let t := type of @EquivWiring.certificate_auth_config_tie in exact t).
Proof. exact (@EquivWiring.certificate_auth_config_tie). Qed.
Print Assumptions C05_code_certificate_auth_config_tie.

Theorem C05_code_certificate_auth_config_model : ltac:(let t := type of @EquivWiring.certificate_auth_config_model in exact t).
Proof. exact (@EquivWiring.certificate_auth_config_model). Qed.
Print Assumptions C05_code_certificate_auth_config_model.

Theorem C05_code_cli_wiring : ltac:(let t := type of @EquivWiring.cli_wiring in exact t).
Proof. exact (@EquivWiring.cli_wiring). Qed.
Print Assumptions C05_code_cli_wiring.

(* ---- tie to the code: the certificate fingerprint and the places that obtain the presented certificate (coq/Equiv/EquivCerts.v): re-checked here against the definitions regenerated from /repo's working tree; see DESIGN.md 11.8 ---- *)
From NV Require Equiv.EquivCerts.
Theorem C05_code_fingerprint_tie : ltac:(let t := type of @EquivCerts.fingerprint_tie in exact t).
Proof. exact (@EquivCerts.fingerprint_tie). Qed.
Print Assumptions C05_code_fingerprint_tie.

Theorem C05_code_fingerprint_default_tie : ltac:(let t := type of @EquivCerts.fingerprint_default_tie in exact t).
Proof. exact (@EquivCerts.fingerprint_default_tie). Qed.
Print Assumptions C05_code_fingerprint_default_tie.

Theorem C05_code_default_algorithm_tie : ltac:(let t := type of @EquivCerts.default_algorithm_tie in exact t).
Proof. exact (@EquivCerts.default_algorithm_tie). Qed.
Print Assumptions C05_code_default_algorithm_tie.

Theorem C05_code_server_peer_tie : ltac:(let t := type of @EquivCerts.server_peer_tie in exact t).
Proof. exact (@EquivCerts.server_peer_tie). Qed.
Print Assumptions C05_code_server_peer_tie.

Theorem C05_code_client_peer_tie : ltac:(let t := type of @EquivCerts.client_peer_tie in exact t).
Proof. exact (@EquivCerts.client_peer_tie). Qed.
Print Assumptions C05_code_client_peer_tie.

Theorem C05_code_titan_client_peer_tie : ltac:(let t := type of @EquivCerts.titan_client_peer_tie in exact t).
Proof. exact (@EquivCerts.titan_client_peer_tie). Qed.
Print Assumptions C05_code_titan_client_peer_tie.

Theorem C05_code_x509_to_cryptography_tie : ltac:(let t := type of @EquivCerts.x509_to_cryptography_tie in exact t).
Proof. exact (@EquivCerts.x509_to_cryptography_tie). Qed.
Print Assumptions C05_code_x509_to_cryptography_tie.

Theorem C05_code_wrapper_getpeercert_tie : ltac:(let t := type of @EquivCerts.wrapper_getpeercert_tie in exact t).
Proof. exact (@EquivCerts.wrapper_getpeercert_tie). Qed.
Print Assumptions C05_code_wrapper_getpeercert_tie.

Theorem C05_code_sites_outside_certificates_use_default : ltac:(let t := type of @EquivCerts.sites_outside_certificates_use_default in exact t).
Proof. exact (@EquivCerts.sites_outside_certificates_use_default). Qed.
Print Assumptions C05_code_sites_outside_certificates_use_default.

Theorem C05_code_security_sites_present : ltac:(let t := type of @EquivCerts.security_sites_present in exact t).
Proof. exact (@EquivCerts.security_sites_present). Qed.
Print Assumptions C05_code_security_sites_present.

(* ---- the fingerprint format: equality of fingerprints is equality of SHA-256 digests (coq/Proofs/Certs_format.v) ---- *)
From NV Require Proofs.Certs_format.
Theorem C05_model_fingerprint_default_strict : ltac:(let t := type of @Certs_format.fingerprint_default_strict in exact t).
Proof. exact (@Certs_format.fingerprint_default_strict). Qed.
Print Assumptions C05_model_fingerprint_default_strict.

Theorem C05_model_fingerprint_eq_iff_digest_eq : ltac:(let t := type of @Certs_format.fingerprint_eq_iff_digest_eq in exact t).
Proof. exact (@Certs_format.fingerprint_eq_iff_digest_eq). Qed.
Print Assumptions C05_model_fingerprint_eq_iff_digest_eq.

Theorem C05_model_fingerprint_eqb_iff_digest_eq : ltac:(let t := type of @Certs_format.fingerprint_eqb_iff_digest_eq in exact t).
Proof. exact (@Certs_format.fingerprint_eqb_iff_digest_eq). Qed.
Print Assumptions C05_model_fingerprint_eqb_iff_digest_eq.

Theorem C05_model_fingerprint_sha256_ne_sha1 : ltac:(let t := type of @Certs_format.fingerprint_sha256_ne_sha1 in exact t).
Proof. exact (@Certs_format.fingerprint_sha256_ne_sha1). Qed.
Print Assumptions C05_model_fingerprint_sha256_ne_sha1.

Theorem C05_model_peer_fingerprint_is_hash_of_presented_der : ltac:(let t := type of @Certs_format.peer_fingerprint_is_hash_of_presented_der in exact t).
Proof. exact (@Certs_format.peer_fingerprint_is_hash_of_presented_der). Qed.
Print Assumptions C05_model_peer_fingerprint_is_hash_of_presented_der.

Theorem C05_model_pyopenssl_fingerprint_is_hash_of_dumped_der : ltac:(let t := type of @Certs_format.pyopenssl_fingerprint_is_hash_of_dumped_der in exact t).
Proof. exact (@Certs_format.pyopenssl_fingerprint_is_hash_of_dumped_der). Qed.
Print Assumptions C05_model_pyopenssl_fingerprint_is_hash_of_dumped_der.

(* ---- tie to the code: which certificate of the PyOpenSSL connection is the peer's (coq/Equiv/EquivCerts.v): re-checked here against the definitions regenerated from /repo's working tree; see DESIGN.md 11.8 ---- *)
From NV Require Equiv.EquivCerts.
Theorem C05_code_conn_peer_certificate_tie : ltac:(let t := type of @EquivCerts.conn_peer_certificate_tie in exact t).
Proof. exact (@EquivCerts.conn_peer_certificate_tie). Qed.
Print Assumptions C05_code_conn_peer_certificate_tie.
