(* Result type shared by the models: a value, a Python exception (kind label +
   message text), or "outside the model" (inputs the model declines to judge;
   the correspondence counts them and does not compare). *)
From Coq Require Import List NArith.
From NV Require Import Prelude.Str.
Import ListNotations.

Inductive res (A : Type) : Type :=
| Ok (a : A)
| Err (kind : str) (msg : str)
| OutOfModel.
Arguments Ok {A} a.
Arguments Err {A} kind msg.
Arguments OutOfModel {A}.

Definition bind {A B} (r : res A) (f : A -> res B) : res B :=
  match r with Ok a => f a | Err k m => Err k m | OutOfModel => OutOfModel end.
Notation "'do' x <- r ;; k" := (bind r (fun x => k)) (at level 200, x name, r at level 100, k at level 200).
