(* UTF-8 as Python implements it: strict decoding (overlong forms, surrogates and values
   above U+10FFFF rejected), encoding of scalar values, encoding with errors="replace". *)
From Coq Require Import List NArith Bool.
From NV Require Import Prelude.Str.
Import ListNotations.
Open Scope N_scope.

Definition is_surrogate (c : N) : bool := (55296 <=? c) && (c <=? 57343).
Definition is_scalar (c : N) : bool := negb (is_surrogate c) && (c <=? 1114111).

Definition enc_cp (c : N) : list N :=
  if c <? 128 then [c]
  else if c <? 2048 then [192 + c / 64; 128 + c mod 64]
  else if c <? 65536 then [224 + c / 4096; 128 + (c / 64) mod 64; 128 + c mod 64]
  else [240 + c / 262144; 128 + (c / 4096) mod 64; 128 + (c / 64) mod 64; 128 + c mod 64].

(* str.encode("utf-8") ; None = UnicodeEncodeError (lone surrogate) *)
Fixpoint encode (s : str) : option (list N) :=
  match s with
  | [] => Some []
  | c :: s' => if is_scalar c then match encode s' with Some b => Some (enc_cp c ++ b) | None => None end
               else None
  end.

(* str.encode("utf-8", errors="replace") : unencodable code points become '?' *)
Definition encode_replace (s : str) : list N :=
  flat_map (fun c => if is_scalar c then enc_cp c else [63]) s.

Definition cont (b : N) : bool := (128 <=? b) && (b <=? 191).

(* bytes.decode("utf-8") strict ; None = UnicodeDecodeError *)
Fixpoint decode (b : list N) : option str :=
  match b with
  | [] => Some []
  | x :: r1 =>
    if x <? 128 then match decode r1 with Some s => Some (x :: s) | None => None end
    else if (194 <=? x) && (x <=? 223) then
      match r1 with
      | y :: r2 => if cont y then
                     match decode r2 with Some s => Some (((x - 192) * 64 + (y - 128)) :: s) | None => None end
                   else None
      | _ => None
      end
    else if (224 <=? x) && (x <=? 239) then
      match r1 with
      | y :: z :: r3 =>
        let lo := if x =? 224 then 160 else 128 in
        let hi := if x =? 237 then 159 else 191 in
        if (lo <=? y) && (y <=? hi) && cont z then
          match decode r3 with
          | Some s => Some (((x - 224) * 4096 + (y - 128) * 64 + (z - 128)) :: s)
          | None => None
          end
        else None
      | _ => None
      end
    else if (240 <=? x) && (x <=? 244) then
      match r1 with
      | y :: z :: w :: r4 =>
        let lo := if x =? 240 then 144 else 128 in
        let hi := if x =? 244 then 143 else 191 in
        if (lo <=? y) && (y <=? hi) && cont z && cont w then
          match decode r4 with
          | Some s => Some (((x - 240) * 262144 + (y - 128) * 4096 + (z - 128) * 64 + (w - 128)) :: s)
          | None => None
          end
        else None
      | _ => None
      end
    else None
  end.

(* longest prefix of s whose errors="replace" encoding fits in `limit` bytes, encoded
   (= meta_bytes[:limit].decode("utf-8", "ignore").encode("utf-8") for meta_bytes = encode_replace s) *)
Fixpoint encode_replace_upto (limit : N) (s : str) : list N :=
  match s with
  | [] => []
  | c :: s' =>
      let e := if is_scalar c then enc_cp c else [63] in
      let n := N.of_nat (length e) in
      if n <=? limit then e ++ encode_replace_upto (limit - n) s' else []
  end.
Close Scope N_scope.

(* Python's text mode (open(..., newline=None), Path.read_text): after decoding, "\r\n" and a lone "\r" become "\n" *)
Fixpoint univ_nl (s : str) : str :=
  match s with
  | [] => []
  | 13%N :: rest => 10%N :: match rest with 10%N :: r2 => univ_nl r2 | _ => univ_nl rest end
  | c :: rest => c :: univ_nl rest
  end.
(* Path.read_text(encoding="utf-8") of a file with these bytes; None = UnicodeDecodeError.  A leading U+FEFF is kept
   ("utf-8", not "utf-8-sig"). *)
Definition read_text (content : str) : option str := option_map univ_nl (decode content).
