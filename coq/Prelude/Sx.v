(* S-expressions: the wire format between the Python harness and the extracted
   models.  Atoms are strings (list N); numbers travel as ASCII decimals. *)
From Coq Require Import List NArith ZArith Bool.
From NV Require Import Prelude.Str.
Import ListNotations.
Open Scope N_scope.

Inductive sx : Type := A (s : str) | L (l : list sx).

Definition sN (n : N) : sx := A (dec n).
Definition sZ (z : Z) : sx := A (str_of_Z z).
Definition sB (b : bool) : sx := A (if b then [49] else [48]).
Definition sT (s : String.string) : sx := A (lit s).
Arguments sT s%string_scope.

Definition as_str (x : sx) : str := match x with A s => s | L _ => [] end.
Definition as_list (x : sx) : list sx := match x with L l => l | A _ => [] end.
Definition as_N (x : sx) : N := match x with A s => match undec s with Some n => n | None => 0 end | _ => 0 end.
Definition as_Z (x : sx) : Z :=
  match x with
  | A (45 :: s) => match undec s with Some n => Z.opp (Z.of_N n) | None => 0%Z end
  | A s => match undec s with Some n => Z.of_N n | None => 0%Z end
  | _ => 0%Z
  end.
Definition as_bool (x : sx) : bool := match x with A [49] => true | _ => false end.
Definition nth_sx (n : nat) (x : sx) : sx := nth n (as_list x) (L []).
Definition as_opt (x : sx) : option sx := match x with L [y] => Some y | _ => None end.
Definition s_opt (o : option sx) : sx := match o with Some y => L [y] | None => L [] end.

(* association table str -> sx, used for oracles *)
Fixpoint lookup_tab (k : str) (t : list sx) : option sx :=
  match t with
  | [] => None
  | L [A k'; v] :: t' => if eqb k k' then Some v else lookup_tab k t'
  | _ :: t' => lookup_tab k t'
  end.
Close Scope N_scope.
