(* Strings as lists of code points / bytes (N).  Executable, proof-friendly
   re-statements of the Python str/bytes methods the nauyaca code uses.
   This file mixes definitions with their characterising lemmas because every
   model depends on both; models proper (coq/Model) stay proof-free. *)
From Coq Require Import List NArith ZArith Bool Lia.
Import ListNotations.
Open Scope N_scope.

Definition str := list N.

(* ---------- character classes ---------- *)
Definition ch_tab : N := 9.   Definition ch_lf : N := 10.  Definition ch_cr : N := 13.
Definition ch_space : N := 32. Definition ch_hash : N := 35. Definition ch_pct : N := 37.
Definition ch_slash : N := 47. Definition ch_colon : N := 58. Definition ch_semi : N := 59.
Definition ch_eq : N := 61.   Definition ch_qm : N := 63.  Definition ch_at : N := 64.
Definition ch_lbr : N := 91.  Definition ch_rbr : N := 93. Definition ch_dot : N := 46.

Definition is_digit (c : N) : bool := (48 <=? c) && (c <=? 57).
Definition is_upper (c : N) : bool := (65 <=? c) && (c <=? 90).
Definition is_lower (c : N) : bool := (97 <=? c) && (c <=? 122).
Definition is_alpha (c : N) : bool := is_upper c || is_lower c.
Definition is_hexdigit (c : N) : bool :=
  is_digit c || ((65 <=? c) && (c <=? 70)) || ((97 <=? c) && (c <=? 102)).
Definition is_ascii (c : N) : bool := c <? 128.
Definition lower_ch (c : N) : N := if is_upper c then c + 32 else c.
Definition lower (s : str) : str := map lower_ch s.
Definition all_ascii (s : str) : bool := forallb is_ascii s.

(* ---------- equality, membership ---------- *)
Fixpoint eqb (a b : str) : bool :=
  match a, b with
  | [], [] => true
  | x :: a', y :: b' => (x =? y) && eqb a' b'
  | _, _ => false
  end.

Lemma eqb_spec a b : eqb a b = true <-> a = b.
Proof.
  revert b; induction a as [|x a IH]; intros [|y b]; simpl; split; intro H;
    try congruence; try reflexivity.
  - apply andb_true_iff in H as [H1 H2]. apply N.eqb_eq in H1. apply IH in H2. congruence.
  - inversion H; subst. rewrite N.eqb_refl. simpl. apply IH. reflexivity.
Qed.
Lemma eqb_refl a : eqb a a = true.  Proof. apply eqb_spec; reflexivity. Qed.
Lemma eqb_neq a b : eqb a b = false <-> a <> b.
Proof. split; intro H. - intro E; apply eqb_spec in E; congruence.
  - destruct (eqb a b) eqn:E; [apply eqb_spec in E; contradiction|reflexivity]. Qed.

Definition mem (c : N) (s : str) : bool := existsb (N.eqb c) s.
Lemma mem_In c s : mem c s = true <-> In c s.
Proof. unfold mem. rewrite existsb_exists. split.
  - intros [x [Hx E]]. apply N.eqb_eq in E. subst; assumption.
  - intro H. exists c. split; [assumption|apply N.eqb_refl]. Qed.
Lemma mem_false c s : mem c s = false <-> ~ In c s.
Proof. rewrite <- mem_In. destruct (mem c s); split; congruence. Qed.
Lemma mem_app c a b : mem c (a ++ b) = mem c a || mem c b.
Proof. unfold mem. apply existsb_app. Qed.

(* ---------- prefix / suffix ---------- *)
Fixpoint prefixb (p s : str) : bool :=
  match p, s with
  | [], _ => true
  | x :: p', y :: s' => (x =? y) && prefixb p' s'
  | _ :: _, [] => false
  end.
Lemma prefixb_spec p s : prefixb p s = true <-> exists r, s = p ++ r.
Proof.
  revert s; induction p as [|x p IH]; intros s; simpl.
  - split; [intros _; exists s; reflexivity|reflexivity].
  - destruct s as [|y s]; [split; [discriminate|intros [r Hr]; discriminate]|].
    rewrite andb_true_iff, N.eqb_eq, IH. split.
    + intros [-> [r ->]]. exists r; reflexivity.
    + intros [r Hr]. inversion Hr; subst. split; [reflexivity|exists r; reflexivity].
Qed.
Lemma prefixb_app p r : prefixb p (p ++ r) = true.
Proof. apply prefixb_spec. exists r; reflexivity. Qed.
Definition suffixb (p s : str) : bool := prefixb (rev p) (rev s).

Fixpoint drop (n : nat) (s : str) : str :=
  match n, s with O, _ => s | S n', [] => [] | S n', _ :: s' => drop n' s' end.
Fixpoint take (n : nat) (s : str) : str :=
  match n, s with O, _ => [] | S n', [] => [] | S n', x :: s' => x :: take n' s' end.
Lemma take_drop n s : take n s ++ drop n s = s.
Proof. revert s; induction n; intros [|x s]; simpl; f_equal; auto. Qed.
Lemma drop_app_length (a b : str) : drop (length a) (a ++ b) = b.
Proof. induction a; simpl; auto. Qed.
Lemma take_app_length (a b : str) : take (length a) (a ++ b) = a.
Proof. induction a; simpl; f_equal; auto. Qed.
Lemma take_length n s : length (take n s) = Nat.min n (length s).
Proof. revert s; induction n; intros [|x s]; simpl; auto. Qed.
Lemma drop_length n s : length (drop n s) = (length s - n)%nat.
Proof. revert s; induction n; intros [|x s]; simpl; auto. Qed.
Lemma take_all n (s : str) : (length s <= n)%nat -> take n s = s.
Proof. revert s; induction n; intros [|x s] H; simpl in *; try reflexivity; try lia.
  f_equal. apply IHn. lia. Qed.

(* ---------- partition at the first occurrence of a character ---------- *)
(* Python: s.partition(c) / s.split(c, 1) / c in s *)
Fixpoint break_at (c : N) (s : str) : option (str * str) :=
  match s with
  | [] => None
  | x :: s' => if x =? c then Some ([], s')
               else match break_at c s' with
                    | Some (a, b) => Some (x :: a, b)
                    | None => None
                    end
  end.

Lemma break_at_app c a b : ~ In c a -> break_at c (a ++ c :: b) = Some (a, b).
Proof.
  induction a as [|x a IH]; simpl; intro H.
  - rewrite N.eqb_refl; reflexivity.
  - destruct (x =? c) eqn:E; [apply N.eqb_eq in E; subst; exfalso; apply H; left; reflexivity|].
    rewrite IH; [reflexivity|intro; apply H; right; assumption].
Qed.
Lemma break_at_Some c s a b : break_at c s = Some (a, b) -> s = a ++ c :: b /\ ~ In c a.
Proof.
  revert a b; induction s as [|x s IH]; simpl; intros a b H; [discriminate|].
  destruct (x =? c) eqn:E.
  - apply N.eqb_eq in E. inversion H; subst. split; [reflexivity|intros []].
  - destruct (break_at c s) as [[a' b']|]; [|discriminate]. inversion H; subst.
    destruct (IH a' b eq_refl) as [-> Hn]. split; [reflexivity|].
    intros [Hx|Hx]; [apply N.eqb_neq in E; congruence|contradiction].
Qed.
Lemma break_at_None c s : break_at c s = None <-> ~ In c s.
Proof.
  induction s as [|x s IH]; simpl; [split; [intros _ []|reflexivity]|].
  destruct (x =? c) eqn:E.
  - apply N.eqb_eq in E; subst. split; [discriminate|intro H; exfalso; apply H; left; reflexivity].
  - apply N.eqb_neq in E. destruct (break_at c s) as [[a b]|].
    + split; [discriminate|]. intro H. exfalso. destruct IH as [_ IH2].
      assert (Some (a, b) = None) by (apply IH2; intro; apply H; right; assumption). discriminate.
    + split; [|reflexivity]. intros _ [Hx|Hx]; [congruence|]. apply IH in Hx; auto.
Qed.
Lemma break_at_notin c s : ~ In c s -> break_at c s = None.
Proof. apply break_at_None. Qed.

(* Python partition: (before, sep_found, after) with (s, false, []) when absent *)
Definition partition (c : N) (s : str) : str * bool * str :=
  match break_at c s with Some (a, b) => (a, true, b) | None => (s, false, []) end.

(* last occurrence: Python rpartition -> ([], false, s) when absent *)
Fixpoint rbreak_at (c : N) (s : str) : option (str * str) :=
  match s with
  | [] => None
  | x :: s' => match rbreak_at c s' with
               | Some (a, b) => Some (x :: a, b)
               | None => if x =? c then Some ([], s') else None
               end
  end.
Lemma rbreak_at_None c s : rbreak_at c s = None <-> ~ In c s.
Proof.
  induction s as [|x s IH]; simpl; [split; [intros _ []|reflexivity]|].
  destruct (rbreak_at c s) as [[a b]|].
  - split; [discriminate|]. intro H; exfalso. destruct IH as [_ IH2].
    assert (Some (a, b) = None) by (apply IH2; intro; apply H; right; assumption). discriminate.
  - destruct (x =? c) eqn:E.
    + apply N.eqb_eq in E; subst. split; [discriminate|intro H; exfalso; apply H; left; reflexivity].
    + apply N.eqb_neq in E. split; [|reflexivity]. intros _ [Hx|Hx]; [congruence|].
      destruct IH as [IH1 _]. apply IH1; auto.
Qed.
Lemma rbreak_at_notin c s : ~ In c s -> rbreak_at c s = None.
Proof. apply rbreak_at_None. Qed.
Lemma rbreak_at_Some c s a b : rbreak_at c s = Some (a, b) -> s = a ++ c :: b /\ ~ In c b.
Proof.
  revert a b; induction s as [|x s IH]; simpl; intros a b H; [discriminate|].
  destruct (rbreak_at c s) as [[a' b']|] eqn:R.
  - inversion H; subst. destruct (IH a' b eq_refl) as [-> Hn]. split; [reflexivity|assumption].
  - destruct (x =? c) eqn:E; [|discriminate]. apply N.eqb_eq in E. inversion H; subst.
    split; [reflexivity|]. apply rbreak_at_None; assumption.
Qed.
Definition rpartition (c : N) (s : str) : str * bool * str :=
  match rbreak_at c s with Some (a, b) => (a, true, b) | None => ([], false, s) end.

(* ---------- substring search: first CRLF ---------- *)
Fixpoint break_crlf (s : str) : option (str * str) :=
  match s with
  | [] => None
  | x :: s' =>
      match s' with
      | y :: s'' => if (x =? 13) && (y =? 10) then Some ([], s'')
                    else match break_crlf s' with
                         | Some (a, b) => Some (x :: a, b) | None => None end
      | [] => None
      end
  end.

Definition has_crlf (s : str) : bool :=
  match break_crlf s with Some _ => true | None => false end.

(* ---------- split on a character: Python s.split(c) ---------- *)
Fixpoint split_on_aux (c : N) (cur : str) (s : str) : list str :=
  match s with
  | [] => [rev cur]
  | x :: s' => if x =? c then rev cur :: split_on_aux c [] s' else split_on_aux c (x :: cur) s'
  end.
Definition split_on (c : N) (s : str) : list str := split_on_aux c [] s.

(* ---------- strip ---------- *)
Fixpoint lstrip_by (p : N -> bool) (s : str) : str :=
  match s with [] => [] | x :: s' => if p x then lstrip_by p s' else s end.
Definition rstrip_by (p : N -> bool) (s : str) : str := rev (lstrip_by p (rev s)).
Definition strip_by (p : N -> bool) (s : str) : str := rstrip_by p (lstrip_by p s).
(* Python str.strip() with no argument on ASCII input: whitespace = 9..13, 28..31, 32
   (str.isspace for ASCII: \t\n\v\f\r, FS GS RS US, space) *)
Definition is_py_space (c : N) : bool := ((9 <=? c) && (c <=? 13)) || ((28 <=? c) && (c <=? 32)).
Definition strip_ws := strip_by is_py_space.

Definition remove_chars (p : N -> bool) (s : str) : str := filter (fun c => negb (p c)) s.

(* ---------- decimal ---------- *)
Fixpoint dec_digits_fuel (fuel : nat) (n : N) (acc : str) : str :=
  match fuel with
  | O => acc
  | S f => let d := 48 + (n mod 10) in
           let q := n / 10 in
           if q =? 0 then d :: acc else dec_digits_fuel f q (d :: acc)
  end.
(* N.size_nat n + 1 digits always suffice *)
Definition dec (n : N) : str := dec_digits_fuel (S (N.size_nat n)) n [].

Fixpoint undec_acc (s : str) (acc : N) : option N :=
  match s with
  | [] => Some acc
  | c :: s' => if is_digit c then undec_acc s' (acc * 10 + (c - 48)) else None
  end.
(* ASCII digit strings only, non-empty *)
Definition undec (s : str) : option N :=
  match s with [] => None | _ => undec_acc s 0 end.

Definition str_of_Z (z : Z) : str :=
  match z with
  | Z0 => [48]
  | Zpos p => dec (Npos p)
  | Zneg p => 45 :: dec (Npos p)
  end.

(* ---------- literals ---------- *)
(* ASCII literals are written with this helper from Coq strings *)
Require Coq.Strings.String Coq.Strings.Ascii.
Export Coq.Strings.String.StringSyntax.
Import Coq.Strings.String Coq.Strings.Ascii.
Fixpoint lit (s : string) : str :=
  match s with
  | EmptyString => []
  | String a s' => N_of_ascii a :: lit s'
  end.
Arguments lit s%string_scope.

Close Scope N_scope.
