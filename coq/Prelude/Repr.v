(* Python repr() of an ASCII str (used inside error messages that reach the wire). *)
From Coq Require Import List NArith Bool.
From NV Require Import Prelude.Str.
Import ListNotations.
Open Scope N_scope.

Definition hexdig (n : N) : N := if n <? 10 then 48 + n else 87 + n.

Definition repr_char (q : N) (c : N) : str :=
  if c =? 92 then [92; 92]
  else if c =? q then [92; q]
  else if c =? 9 then [92; 116]
  else if c =? 10 then [92; 110]
  else if c =? 13 then [92; 114]
  else if (c <? 32) || (c =? 127) then [92; 120; hexdig (c / 16); hexdig (c mod 16)]
  else [c].

Definition py_repr (s : str) : str :=
  let q := if mem 39 s && negb (mem 34 s) then 34 else 39 in
  q :: flat_map (repr_char q) s ++ [q].
Close Scope N_scope.
