(* C07 - outcome independent of read segmentation; handlers run at most once. *)
From Coq Require Import List NArith ZArith Bool.
From NV Require Import Prelude.Str Prelude.Res Model.ServerProto Spec.ServerTrace.
Import ListNotations.

Definition invocations (o : obs) : nat := length (filter is_invocation (flat o)).
Definition at_most_once (o : obs) : bool := Nat.leb (invocations o) 1.

Definition action_eqb (a b : action) : bool :=
  match a, b with
  | AWrite x, AWrite y => eqb x y
  | AClose, AClose => true
  | AMw i u ip fp, AMw j u' ip' fp' =>
      Nat.eqb i j && eqb u u' && eqb ip ip' &&
      match fp, fp' with Some x, Some y => eqb x y | None, None => true | _, _ => false end
  | AHandler l, AHandler l' => eqb l l'
  | AHandlerTask i, AHandlerTask j => Nat.eqb i j
  | AUpload i l c, AUpload j l' c' => Nat.eqb i j && eqb l l' && eqb c c'
  | AUploadCall l c, AUploadCall l' c' => eqb l l' && eqb c c'
  | AOutOfModel, AOutOfModel => true
  | _, _ => false
  end.
Fixpoint actions_eqb (a b : list action) : bool :=
  match a, b with
  | [], [] => true
  | x :: a', y :: b' => action_eqb x y && actions_eqb a' b'
  | _, _ => false
  end.

(* same bytes, different segmentation: the observable actions are the same *)
Definition same (o_segmented o_single : obs) : bool := actions_eqb (flat o_segmented) (flat o_single).

Definition ok (o : obs) : bool := at_most_once o.
