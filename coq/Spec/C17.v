(* C17 - the reverse proxy only talks to its upstream and maps URLs faithfully.
   `ok` judges one proxied request: configuration, the client's request components, and what
   was observed (address connected to, request line sent upstream). *)
From Coq Require Import List NArith Bool.
From NV Require Import Prelude.Str Prelude.Res Model.Url Model.Proxy.
Import ListNotations.
Open Scope N_scope.

(* the path the property prescribes: minus the location prefix when stripping is on and the
   prefix matches on a segment boundary *)
Definition on_boundary (prefix path : str) : bool :=
  prefixb prefix path &&
  (ends_with_slash prefix ||
   match drop (length prefix) path with [] => true | c :: _ => c =? ch_slash end).
Definition expected_suffix (prefix : str) (strip : bool) (path : str) : str :=
  if strip && on_boundary prefix path then
    match drop (length prefix) path with
    | [] => [ch_slash]
    | c :: r => if c =? ch_slash then c :: r else ch_slash :: c :: r
    end
  else path.

Section WithOracle.
Variable ip6 : str -> option str.

Record observed := { ob_host : str; ob_port : N; ob_line : str }.

Definition ok (c : proxy_cfg) (path query : str) (o : observed) : bool :=
  match parse_url ip6 (rstrip_slash (px_upstream c)), urlsplit ip6 (rstrip_slash (px_upstream c)) with
  | Ok pu, Ok su =>
      (* only the configured upstream is contacted *)
      eqb (ob_host o) (p_host pu) && (ob_port o =? p_port pu) &&
      (* the request line denotes: upstream base + mapped path, the client's query *)
      match parse_url ip6 (ob_line o) with
      | Ok pl =>
          eqb (p_host pl) (p_host pu) && (p_port pl =? p_port pu) &&
          (match u_query su with
           | [] => eqb (p_path pl) (u_path su ++ expected_suffix (px_prefix c) (px_strip c) path) &&
                   eqb (p_query pl) query
           | _ => true    (* an upstream with its own query string: mapping unspecified *)
           end)
      | _ => false
      end
  | _, _ => true   (* unusable upstream configuration: outside the property *)
  end.
End WithOracle.
Close Scope N_scope.
