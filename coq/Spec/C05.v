(* C05 - certificate rules are applied to the resource that is actually served.
   Canonical location of a delivered resource: "/seg/.../name" for a file, "/seg/.../" for a
   listed directory, relative to the document root. *)
From Coq Require Import List NArith ZArith Bool.
From NV Require Import Prelude.Str Prelude.Res Model.Fs Model.Static Model.CertAuth.
Import ListNotations.
Open Scope N_scope.

Fixpoint strip_prefix (root p : path) : option path :=
  match root, p with
  | [], _ => Some p
  | x :: r', y :: p' => if eqb x y then strip_prefix r' p' else None
  | _ :: _, [] => None
  end.
Definition location (root : path) (o : sout) : option str :=
  match o with
  | OServe p _ _ => match strip_prefix root p with Some rel => Some (ch_slash :: join_slash rel) | None => None end
  | OListing d => match strip_prefix root d with
                  | Some [] => Some [ch_slash]
                  | Some rel => Some (ch_slash :: join_slash rel ++ [ch_slash])
                  | None => None
                  end
  | _ => None
  end.

Definition covering (rules : list rule) (loc : str) : option rule := find (fun r => prefixb (ru_prefix r) loc) rules.
Definition admits (r : option rule) (fp : option str) : bool :=
  match apply_rule r fp with Allow => true | _ => false end.

(* rules whose prefix names a directory: "/" or ".../" *)
Definition dir_style (rules : list rule) : bool := forallb (fun r => ends_slash (ru_prefix r)) rules.

(* monitor: what the client got (status, and - if content was delivered - its canonical location) *)
Definition ok (rules : list rule) (fp : option str) (status : Z) (delivered_loc : option str) : bool :=
  match delivered_loc with
  | Some loc => admits (covering rules loc) fp
  | None =>
      (* a refusal by the rules must carry 60 without certificate and 61 with one *)
      if (status =? 60)%Z then match fp with None => true | Some _ => false end
      else if (status =? 61)%Z then match fp with Some _ => true | None => false end
      else true
  end.
Close Scope N_scope.
