(* Assumptions the URL theorems make on the ipaddress.ip_address oracle (trusted base;
   both are re-checked on every recorded oracle call by harness/urlimpl.py). *)
From Coq Require Import List NArith Bool.
From NV Require Import Prelude.Str Model.Url.
Import ListNotations.
Open Scope N_scope.

Definition ip6_char (c : N) : bool := is_hexdigit c || (c =? 58) || (c =? 46).

Definition oracle_ok (ip6 : str -> option str) : Prop :=
  (forall h, ip6 h = None -> ip6 (lower_host h) = None) /\
  (forall h, ip6 h = None -> forallb ip6_char (fst (fst (partition ch_pct h))) = true).
Close Scope N_scope.
