(* C08 - only protocol-valid requests reach handlers; valid requests are not refused.
   A three-valued oracle on request lines, written directly on the text (independent of the
   urlsplit model): must_reject / must_accept / undecided (grey zones the property leaves open). *)
From Coq Require Import List NArith ZArith Bool.
From NV Require Import Prelude.Str Prelude.Res Prelude.Utf8 Model.Url Model.Titan Model.ServerProto Spec.ServerTrace.
Import ListNotations.
Open Scope N_scope.

(* grey: characters that urlsplit deletes or strips (leading C0/space, TAB/CR/LF anywhere) *)
Definition grey (u : str) : bool :=
  match u with
  | [] => false
  | c :: _ => (c <=? 32) || existsb (fun x => (x =? 9) || (x =? 10) || (x =? 13)) u
  end.

Definition scheme_of (u : str) : option (str * str) :=
  match break_at ch_colon u with
  | Some (c0 :: a, rest) =>
      if is_alpha c0 && forallb is_scheme_char (c0 :: a) then Some (lower (c0 :: a), rest) else None
  | _ => None
  end.

(* authority and remainder of "//authority..." *)
Definition authority (rest : str) : option (str * str) :=
  if prefixb [47; 47] rest then Some (span_until is_netloc_delim (drop 2 rest)) else None.

Definition userinfo_nonempty (auth : str) : bool :=
  match rbreak_at ch_at auth with
  | Some (ui, _) =>
      match break_at ch_colon ui with
      | Some (u, p) => negb (match u with [] => true | _ => false end) || negb (match p with [] => true | _ => false end)
      | None => negb (match ui with [] => true | _ => false end)
      end
  | None => false
  end.
Definition hostpart (auth : str) : str :=
  match rbreak_at ch_at auth with Some (_, h) => h | None => auth end.
(* an empty host: nothing after the user-info, or a ':' right away - unless a bracket follows,
   because the standard-library parser looks for '[' before ':' (gemini://:[::1]/ has host ::1:
   a grey zone, left undecided) *)
Definition host_empty (auth : str) : bool :=
  match hostpart auth with [] => true | c :: r => (c =? ch_colon) && negb (mem ch_lbr r) end.
Definition fragment_nonempty (rem : str) : bool :=
  match break_at ch_hash rem with Some (_, _ :: _) => true | _ => false end.

(* a gemini-looking line that the protocol forbids *)
Definition must_reject_gemini (u : str) : bool :=
  match scheme_of u with
  | None => true
  | Some (sch, rest) =>
      if negb (eqb sch gemini_s) then true
      else match authority rest with
           | None => true
           | Some (auth, rem) => host_empty auth || userinfo_nonempty auth || fragment_nonempty rem
           end
  end.

(* Titan parameters: size missing, empty, negative or not a number *)
Definition size_value (u : str) : option str :=
  match break_at ch_semi u with
  | None => None
  | Some (_, ps) => get_param (lit "size") (parse_params ps)
  end.
Definition size_clearly_bad (v : str) : bool :=
  match v with
  | [] => true
  | 45 :: d => forallb is_digit d && existsb (fun c => negb (c =? 48)) d   (* negative *)
  | _ => all_ascii v && existsb (fun c => negb (is_digit c || (c =? 95) || (c =? 43) || (c =? 45) || is_py_space c)) v
  end.
Definition must_reject_titan (u : str) : bool :=
  match size_value u with None => true | Some v => size_clearly_bad v end.

(* ---- must-accept: strictly grammatical gemini lines ---- *)
Definition is_unreserved (c : N) : bool := is_alpha c || is_digit c || (c =? 45) || (c =? 46) || (c =? 95) || (c =? 126).
Definition is_subdelim (c : N) : bool :=
  (c =? 33) || (c =? 36) || ((38 <=? c) && (c <=? 44)) || (c =? 59) || (c =? 61).
Fixpoint pct_ok (p : N -> bool) (s : str) : bool :=
  match s with
  | [] => true
  | 37 :: h1 :: h2 :: r => is_hexdigit h1 && is_hexdigit h2 && pct_ok p r
  | c :: r => p c && pct_ok p r
  end.
Definition regname_ok (h : str) : bool :=
  negb (match h with [] => true | _ => false end) && pct_ok (fun c => is_unreserved c || is_subdelim c) h.
Definition pchar (c : N) : bool := is_unreserved c || is_subdelim c || (c =? 58) || (c =? 64).
Definition path_ok (p : str) : bool :=
  match p with [] => true | c :: _ => (c =? 47) && pct_ok (fun x => pchar x || (x =? 47)) p end.
Definition query_ok (q : str) : bool := pct_ok (fun x => pchar x || (x =? 47) || (x =? 63)) q.

Record components := { k_host : str; k_port : N; k_path : str; k_query : str }.

Section WithOracle.
Variable ip6 : str -> option str.

(* "gemini://" host [":" port] path ["?" query] ; lower-case scheme spelled exactly *)
Definition must_accept (u : str) : option components :=
  if negb (prefixb (lit "gemini://") u) then None else
  let r := drop 9 u in
  let '(auth, rem) := span_until is_netloc_delim r in
  let '(pathq, frag) := match break_at ch_hash rem with Some (a, b) => (a, Some b) | None => (rem, None) end in
  match frag with Some _ => None | None =>
  let '(path, query) := match break_at ch_qm pathq with Some (a, b) => (a, b) | None => (pathq, []) end in
  let hostport :=
    match auth with
    | 91 :: r1 =>
        match break_at ch_rbr r1 with
        | Some (h6, after) =>
            if negb (match h6 with [] => true | _ => false end) &&
               forallb (fun c => is_hexdigit c || (c =? 58) || (c =? 46)) h6 then
              match ip6 h6 with
              | None => match after with
                        | [] => Some (lower h6, [])
                        | 58 :: p => Some (lower h6, p)
                        | _ => None
                        end
              | Some _ => None
              end
            else None
        | None => None
        end
    | _ =>
        match break_at ch_colon auth with
        | Some (h, p) => if regname_ok h && negb (mem ch_pct h) then Some (lower h, p) else None
        | None => if regname_ok auth && negb (mem ch_pct auth) then Some (lower auth, []) else None
        end
    end in
  match hostport with
  | None => None
  | Some (h, p) =>
      let port := match p with
                  | [] => Some 1965
                  | _ => match undec p with Some n => if n <=? 65535 then Some n else None | None => None end
                  end in
      match port with
      | None => None
      | Some pn =>
          if all_ascii u && path_ok path && query_ok query && (N.of_nat (length u) + 2 <=? 1024)
          then Some {| k_host := h; k_port := pn; k_path := match path with [] => [47] | _ => path end; k_query := query |}
          else None
      end
  end end.

(* ---- the monitor ---- *)
Definition wire_status (o : obs) : option N :=
  let (w, _) := wire (flat o) in match w with d1 :: d2 :: 32 :: _ => Some ((d1 - 48) * 10 + (d2 - 48)) | _ => None end.
Definition reached (o : obs) : bool := existsb (fun a => is_invocation a || is_consult a) (flat o).
Definition refused_with (o : obs) (st : N) : bool :=
  negb (reached o) && match wire_status o with Some s => s =? st | None => true end.

Definition components_eqb (a b : components) : bool :=
  eqb (k_host a) (k_host b) && (k_port a =? k_port b) && eqb (k_path a) (k_path b) && eqb (k_query a) (k_query b).

(* seen = components of the request object the handler/middleware side received, if any *)
Definition ok (c : cfg) (evs : list event) (o : obs) (seen : option components) : bool :=
  match request_line (stream evs) with
  | LNone => negb (reached o)
  | LTooBig | LBadUtf8 => refused_with o 59
  | LLine u _ =>
      if grey u then true
      else if prefixb titan_prefix u then
        if negb (c_upload c) then refused_with o 50
        else if must_reject_titan u ||
                must_reject_gemini (lit "gemini://" ++ drop 8 (match break_at ch_semi u with Some (a, _) => a | None => u end))
        then refused_with o 59
        else true
      else if must_reject_gemini u then refused_with o 59
      else match must_accept u with
           | Some k =>
               (* not refused: the request reaches the chain or the handler, components intact *)
               (reached o || has_lost evs || negb (valid_reads evs o false)) &&
               match seen with Some k' => components_eqb k k' | None => true end
           | None => true
           end
  end.
End WithOracle.
Close Scope N_scope.
