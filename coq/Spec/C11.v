(* C11 - TOFU: nothing is sent to a peer before its certificate is verified. *)
From Coq Require Import List NArith Bool.
From NV Require Import Prelude.Str Model.Tofu Model.Session.
Import ListNotations.

(* every write is preceded by an accepting verification; a failed verification means no write at all *)
Fixpoint ok_from (t : list sevent) (accepted : bool) : bool :=
  match t with
  | [] => true
  | SWrite _ :: r => accepted && ok_from r accepted
  | SVerified SAccepted :: r => ok_from r true
  | SVerified _ :: r => negb (existsb (fun e => match e with SWrite _ => true | _ => false end) r) && ok_from r false
  end.
Definition ok (t : list sevent) : bool := ok_from t false.
