(* C18 - the reverse proxy relays responses verbatim and contains upstream faults. *)
From Coq Require Import List NArith ZArith Bool.
From NV Require Import Prelude.Str Prelude.Res Prelude.Utf8 Model.ClientProto Model.ServerProto Model.Session Spec.ServerTrace.
Import ListNotations.
Open Scope N_scope.

(* a well-formed upstream response: "dd meta CRLF body", status 10..69, meta valid UTF-8 without
   CR/LF and at most 1024 bytes, body only after 2x and within the cap *)
Definition wf_upstream (cap : N) (b : str) : bool :=
  match break_crlf b with
  | Some (h, body) =>
      header_ok h &&
      match decode (drop 3 h) with Some _ => true | None => false end &&
      (if is_2x h then N.of_nat (length body) <=? cap else match body with [] => true | _ => false end)
  | None => false
  end.

(* a header that is just a status in 10..69 ("59" CRLF): the current Gemini grammar makes SP and the message optional for
   failure statuses and older texts require the space - a grey zone: the proxy may answer 43 or relay status and (empty)
   meta, which it necessarily writes as "59 " CRLF (and, for 2x, the body) *)
Definition status_only (h : str) : bool :=
  match h with
  | [d1; d2] => is_digit d1 && is_digit d2 && (let v := (d1 - 48) * 10 + (d2 - 48) in (10 <=? v) && (v <=? 69))
  | _ => false
  end.
Definition canonical_status_only (cap : N) (h body : str) (downstream : str) : bool :=
  if is_2x h then (N.of_nat (length body) <=? cap) && eqb downstream (h ++ [32; 13; 10] ++ body)
  else eqb downstream (h ++ [32; 13; 10]).

(* the monitor: what the downstream client received *)
Definition ok (cap : N) (u : upstream) (downstream : str) (closed : bool) : bool :=
  closed && response_shape downstream &&
  match u with
  | UStream b None => if wf_upstream cap b then eqb downstream b
                      else match break_crlf b with
                           | Some (h, body) =>
                               if header_ok h && negb (is_2x h) then true   (* non-2x with trailing bytes: header relayed *)
                               else if status_only h then prefixb (lit "43 ") downstream || canonical_status_only cap h body downstream
                               else prefixb (lit "43 ") downstream
                           | None => prefixb (lit "43 ") downstream
                           end
  | UStream b (Some _) =>
      (* reset: 43 unless a complete non-2x header had already been received *)
      match break_crlf b with
      | Some (h, _) => if (header_ok h || status_only h) && negb (is_2x h) then true else prefixb (lit "43 ") downstream
      | None => prefixb (lit "43 ") downstream
      end
  | _ => prefixb (lit "43 ") downstream
  end.
Close Scope N_scope.
