(* C12 - the trust store changes atomically and survives export/import. *)
From Coq Require Import List NArith ZArith Bool.
From NV Require Import Prelude.Str Prelude.Res Model.Tofu Spec.C03.
Import ListNotations.
Open Scope N_scope.

(* full row equality as sets (the harness sorts rows; order is not observable) *)
Definition rows_subset (a b : store) : bool := forallb (fun r => existsb (row_eqb r) b) a.
Definition same_rows (a b : store) : bool := rows_subset a b && rows_subset b a && (length a =? length b)%nat.

(* all-or-nothing: what is found in the file after a crash / failure is the state before or the
   state the completed operation produces *)
Definition ok (before after_complete observed : store) (failed : bool) : bool :=
  if failed then same_rows observed before
  else same_rows observed before || same_rows observed after_complete.

Definition keys_unique (s : store) : Prop :=
  forall i j r1 r2, nth_error s i = Some r1 -> nth_error s j = Some r2 ->
                    r_host r1 = r_host r2 -> r_port r1 = r_port r2 -> i = j.
Definition wf_store (s : store) : Prop :=
  keys_unique s /\ Forall (fun r => 1 <= r_port r <= 65535 /\ fp_valid (r_fp r) = true) s.
Close Scope N_scope.
