(* C19 - URL normalisation preserves meaning and is idempotent.
   The predicate judges two observations: the parse of a URL and the parse of its
   normalised form.  It is the conclusion of the theorem (Props/C19.v) and the monitor
   run on the implementation's observations. *)
From Coq Require Import List NArith Bool.
From NV Require Import Prelude.Str Prelude.Res Model.Url.
Import ListNotations.

Definition same_components (c c' : parsed) : bool :=
  eqb (p_host c) (p_host c') && N.eqb (p_port c) (p_port c') &&
  eqb (p_path c) (p_path c') && eqb (p_query c) (p_query c').

(* r1 = parse_url u ; r2 = parse_url (normalized of r1) *)
Definition ok (r1 r2 : res parsed) : bool :=
  match r1 with
  | Ok c =>
      match r2 with
      | Ok c' => same_components c c' && eqb (p_norm c') (p_norm c)
      | _ => false
      end
  | _ => true
  end.
