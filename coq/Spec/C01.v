(* C01 - exactly one well-formed Gemini response per connection.
   `ok` judges one connection: the schedule (evs), what the handler side was scripted to do
   (cfg, completions inside evs) and the observed trace (obs). *)
From Coq Require Import List NArith ZArith Bool.
From NV Require Import Prelude.Str Prelude.Res Prelude.Utf8 Model.Url Model.Titan Model.ServerProto Spec.ServerTrace.
Import ListNotations.
Open Scope N_scope.

(* responses the handler side produced for this connection *)
Definition candidates (c : cfg) (evs : list event) : list resp :=
  (match c_hres c with HValue r => [r] | _ => [] end) ++
  flat_map (fun e => match e with EDone _ (OResp r) => [r] | _ => [] end) evs.

(* (a) shape + closed after the response *)
Definition clause_shape (o : obs) : bool :=
  let (w, closed) := wire (flat o) in
  response_shape w && (match w with [] => true | _ => closed end).

(* (b) a body is only ever the faithful serialisation of one value the handler side produced *)
Definition clause_faithful (c : cfg) (evs : list event) (o : obs) : bool :=
  let (w, _) := wire (flat o) in
  match break_crlf w with
  | Some (h, body) =>
      if is_2x h && match body with [] => false | _ => true end then
        existsb (fun r => let (hb, bb) := serialize r in eqb hb (h ++ crlf) && eqb bb body) (candidates c evs)
      else true
  | None => true
  end.

(* (b') at most one response is started: one close, and no write after it in the same trace *)
Definition clause_single (o : obs) : bool :=
  Nat.leb (length (filter (fun a => match a with AClose => true | _ => false end) (flat o))) 1.

(* (c) obligation.  Trigger: a complete request (line; for an accepted Titan line also its
   content), an oversized request, or the timer firing while armed. *)
Section WithOracle.
Variable ip6 : str -> option str.

Definition request_complete (c : cfg) (d : str) : bool :=
  match request_line d with
  | LNone => false
  | LTooBig | LBadUtf8 => true
  | LLine u rest =>
      if prefixb titan_prefix u && c_upload c then
        match titan_from_line ip6 u with
        | Ok t => t_size t <=? N.of_nat (length rest)
        | _ => true
        end
      else true
  end.

(* armed flag before event i = flag after event i-1 (armed after connection_made) *)
Fixpoint timer_fired_armed (evs : list event) (o : obs) (armed_before : bool) : bool :=
  match evs, o with
  | e :: evs', (_, a) :: o' =>
      (match e with ETimer => armed_before | _ => false end) || timer_fired_armed evs' o' a
  | _, _ => false
  end.

(* every task that was started has completed later in the schedule *)
Fixpoint done_later (id : nat) (evs : list event) : bool :=
  match evs with
  | [] => false
  | EDone i _ :: r => Nat.eqb i id || done_later id r
  | _ :: r => done_later id r
  end.
Fixpoint quiescent (evs : list event) (o : obs) : bool :=
  match evs, o with
  | _ :: evs', (acts, _) :: o' =>
      forallb (fun a => match spawn_id a with Some i => done_later i evs' | None => true end) acts
      && quiescent evs' o'
  | _, _ => true
  end.

Definition clause_obligation (c : cfg) (evs : list event) (o : obs) : bool :=
  if has_lost evs then true
  else if (request_complete c (stream evs) || timer_fired_armed evs o true) && quiescent evs o then
    let (w, closed) := wire (flat o) in
    (match w with [] => false | _ => true end) && closed
  else true.

(* the request timeout elapsed (an ETimer in the schedule = REQUEST_TIMEOUT after the connection was made) while the client
   had not yet delivered a complete request: "stalled past the request timeout".  Unlike timer_fired_armed this does not
   rely on what the implementation reports about its own timer. *)
Fixpoint stalled_past_timeout (c : cfg) (evs : list event) (seen : str) : bool :=
  match evs with
  | [] => false
  | ERead sl :: r => stalled_past_timeout c r (seen ++ concat sl)
  | ETimer :: r => negb (request_complete c seen) || stalled_past_timeout c r seen
  | _ :: r => stalled_past_timeout c r seen
  end.
Definition clause_timeout_obligation (c : cfg) (evs : list event) (o : obs) : bool :=
  if has_lost evs then true
  else if stalled_past_timeout c evs [] && quiescent evs o then
    let (w, closed) := wire (flat o) in
    (match w with [] => false | _ => true end) && closed
  else true.

(* (d) silence after connection_lost *)
Fixpoint clause_silent_after_lost (evs : list event) (o : obs) (lost : bool) : bool :=
  match evs, o with
  | e :: evs', (acts, _) :: o' =>
      let lost' := lost || match e with ELost => true | _ => false end in
      (if lost' then negb (existsb (fun a => match a with AWrite _ => true | _ => false end) acts) else true)
      && clause_silent_after_lost evs' o' lost'
  | _, _ => true
  end.

Definition ok (c : cfg) (evs : list event) (o : obs) : bool :=
  clause_shape o && clause_faithful c evs o && clause_single o &&
  clause_obligation c evs o && clause_timeout_obligation c evs o && clause_silent_after_lost evs o false.
End WithOracle.
Close Scope N_scope.
