(* Vocabulary shared by the server-side property predicates (C01 C04 C07 C08 C15): observed
   traces of one connection and functions of the schedule that do not depend on the protocol
   model (only on the byte stream the client sent and on the URL/Titan line parsers). *)
From Coq Require Import List NArith ZArith Bool.
From NV Require Import Prelude.Str Prelude.Res Prelude.Utf8 Model.Url Model.Titan Model.ServerProto.
Import ListNotations.
Open Scope N_scope.

Definition obs := list (list action * bool).
Definition flat (o : obs) : list action := flat_map fst o.

(* c_upfail: what calling the upload handler does (Model.ServerProto, Section variable up_call_fails) *)
Record cfg := { c_mw : bool; c_upload : bool; c_ip : str; c_fp : option str; c_hres : hres; c_upfail : option str }.

(* bytes delivered to the protocol before the connection was lost *)
Fixpoint stream (evs : list event) : str :=
  match evs with
  | [] => []
  | ERead sl :: r => concat sl ++ stream r
  | ELost :: _ => []
  | _ :: r => stream r
  end.
Definition has_lost (evs : list event) : bool :=
  existsb (fun e => match e with ELost => true | _ => false end) evs.

Definition is_invocation (a : action) : bool :=
  match a with AHandler _ | AUpload _ _ _ | AUploadCall _ _ => true | _ => false end.
Definition is_consult (a : action) : bool := match a with AMw _ _ _ _ => true | _ => false end.
Definition spawn_id (a : action) : option nat :=
  match a with AMw i _ _ _ | AHandlerTask i | AUpload i _ _ => Some i | _ => None end.

(* transport contract (DESIGN 3.2): no new outer read is delivered once the connection has been closed *)
Fixpoint valid_reads (evs : list event) (o : obs) (closed : bool) : bool :=
  match evs, o with
  | e :: evs', (acts, _) :: o' =>
      (match e with ERead _ => negb closed | _ => true end) &&
      valid_reads evs' o' (closed || existsb (fun a => match a with AClose => true | _ => false end) acts)
  | _, _ => true
  end.

(* the request line, if a complete one of admissible size was delivered *)
Inductive line_status := LNone | LTooBig | LBadUtf8 | LLine (l : str) (rest : str).
Definition request_line (d : str) : line_status :=
  match break_crlf d with
  | None => if 1024 <? N.of_nat (length d) then LTooBig else LNone
  | Some (l, rest) =>
      if 1024 <? N.of_nat (length l) + 2 then LTooBig
      else match decode l with None => LBadUtf8 | Some u => LLine u rest end
  end.

(* header line shape: "dd meta" *)
Definition header_ok (h : str) : bool :=
  match h with
  | d1 :: d2 :: sp :: meta =>
      is_digit d1 && is_digit d2 && (sp =? 32) &&
      (let v := (d1 - 48) * 10 + (d2 - 48) in (10 <=? v) && (v <=? 69)) &&
      negb (mem 13 meta) && negb (mem 10 meta) && (N.of_nat (length meta) <=? 1024)
  | _ => false
  end.
Definition status_of (h : str) : N :=
  match h with d1 :: d2 :: _ => (d1 - 48) * 10 + (d2 - 48) | _ => 0 end.
Definition is_2x (h : str) : bool := let v := status_of h in (20 <=? v) && (v <=? 29).

(* a single well-formed response, or nothing *)
Definition response_shape (w : str) : bool :=
  match w with
  | [] => true
  | _ => match break_crlf w with
         | None => false
         | Some (h, body) => header_ok h && (is_2x h || match body with [] => true | _ => false end)
         end
  end.
Close Scope N_scope.
