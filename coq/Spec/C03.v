(* C03 - TOFU: a pinned host is never accepted with a different certificate.
   `ok` judges one connection attempt: pin store before, what the peer presented, the outcome
   and the pin store after. *)
From Coq Require Import List NArith ZArith Bool.
From NV Require Import Prelude.Str Prelude.Res Model.Tofu.
Import ListNotations.
Open Scope N_scope.

Definition pin (s : store) (h : str) (p : N) : option str :=
  match lookup s h p with Some r => Some (r_fp r) | None => None end.

Definition row_eqb (a b : row) : bool :=
  eqb (r_host a) (r_host b) && (r_port a =? r_port b) && eqb (r_fp a) (r_fp b) && eqb (r_first a) (r_first b).
(* same pins (host, port, fingerprint), as sets; first_seen compared only where the key persists *)
Definition pins_subset (a b : store) : bool :=
  forallb (fun r => match pin b (r_host r) (r_port r) with Some f => eqb f (r_fp r) | None => false end) a.
Definition same_pins (a b : store) : bool := pins_subset a b && pins_subset b a.
Definition same_pins_except (a b : store) (h : str) (p : N) : bool :=
  same_pins (delete a h p) (delete b h p).

Definition ok (before : store) (h : str) (p : N) (c : presented) (result : session_result) (after : store) : bool :=
  (* pins of other host:port pairs never change *)
  same_pins_except before after h p &&
  match result with
  | SAccepted =>
      match c with
      | PUnreadable => false
      | PCert fp =>
          match pin before h p with
          | Some f => eqb f fp && match pin after h p with Some g => eqb g f | None => false end
          | None => match pin after h p with Some g => eqb g fp | None => false end   (* first use pins what was presented *)
          end
      end
  | SChanged old new =>
      match c, pin before h p with
      | PCert fp, Some f => negb (eqb f fp) && eqb old f && eqb new fp && same_pins before after
      | _, _ => false
      end
  | SRefused =>
      match c with PUnreadable => same_pins before after | PCert _ => false end
  end.
Close Scope N_scope.
