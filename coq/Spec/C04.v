(* C04 - no handler runs for a request the middleware chain refuses (or has not decided). *)
From Coq Require Import List NArith ZArith Bool.
From NV Require Import Prelude.Str Prelude.Res Prelude.Utf8 Model.Url Model.Titan Model.ServerProto Spec.ServerTrace.
Import ListNotations.
Open Scope N_scope.

Section WithOracle.
Variable ip6 : str -> option str.

Definition ostr_eqb (a b : option str) : bool :=
  match a, b with Some x, Some y => eqb x y | None, None => true | _, _ => false end.

(* URL the chain must be consulted with: the normalised form of the request actually sent *)
Definition expected_url (d : str) : option str :=
  match request_line d with
  | LLine u _ =>
      if prefixb titan_prefix u then
        match titan_from_line ip6 u with Ok t => Some (titan_normalized t) | _ => None end
      else match gemini_from_line ip6 u with Ok p => Some (p_norm p) | _ => None end
  | _ => None
  end.

(* walk the trace: `admitted` becomes true when a consulted chain answers (True, _) *)
Fixpoint gate (c : cfg) (url : option str) (evs : list event) (o : obs) (consulted : list nat) (admitted : bool) : bool :=
  match evs, o with
  | e :: evs', (acts, _) :: o' =>
      let admitted' := admitted ||
        match e with EDone i (OMw true _) => existsb (Nat.eqb i) consulted | _ => false end in
      (* invocations in this step require admission (when a chain is configured) *)
      (if c_mw c then negb (existsb is_invocation acts) || admitted' else true) &&
      (* consultations carry the real peer address, certificate fingerprint and request URL *)
      forallb (fun a => match a with
                        | AMw _ u ip fp => eqb ip (c_ip c) && ostr_eqb fp (c_fp c) &&
                                           match url with Some x => eqb u x | None => false end
                        | _ => true end) acts &&
      gate c url evs' o'
           (consulted ++ flat_map (fun a => match a with AMw i _ _ _ => [i] | _ => [] end) acts) admitted'
  | _, _ => true
  end.

(* a refusing or raising chain: no invocation at all, and the client gets the refusal *)
Fixpoint first_verdict (evs : list event) (consulted : list nat) (o : obs) : option outcome :=
  match evs, o with
  | e :: evs', (acts, _) :: o' =>
      match e with
      | EDone i v => if existsb (Nat.eqb i) consulted then Some v
                     else first_verdict evs' (consulted ++ flat_map (fun a => match a with AMw j _ _ _ => [j] | _ => [] end) acts) o'
      | _ => first_verdict evs' (consulted ++ flat_map (fun a => match a with AMw j _ _ _ => [j] | _ => [] end) acts) o'
      end
  | _, _ => None
  end.

Definition wellformed_line (t : str) : bool :=
  match break_crlf t with
  | Some (h, []) => header_ok h
  | _ => false
  end.

Definition refusal (c : cfg) (evs : list event) (o : obs) : bool :=
  match first_verdict evs [] o with
  | Some (OMw true _) | None => true
  | Some v =>
      negb (existsb is_invocation (flat o)) &&
      (if has_lost evs then true else
       let (w, closed) := wire (flat o) in
       match v with
       | OMw false (Some t) =>
           (* a well-formed response line of the component is what the client receives, verbatim;
              for anything else the property only asks for a refusal (shape is C01's business) *)
           if wellformed_line t && all_ascii t then eqb w t && closed
           else (match w with [] => false | _ => true end) && closed
       | _ => prefixb (lit "40 ") w && closed
       end)
  end.

Definition ok (c : cfg) (evs : list event) (o : obs) : bool :=
  gate c (expected_url (stream evs)) evs o [] false && (if c_mw c then refusal c evs o else true).
End WithOracle.
Close Scope N_scope.
