(* C13 - client calls terminate with a faithful response or a clear error.
   The abstract specification: the outcome as a function of the WHOLE byte stream the server
   sent and of the way the connection ended - no buffers, no chunks. *)
From Coq Require Import List NArith ZArith Bool.
From NV Require Import Prelude.Str Prelude.Res Prelude.Utf8 Model.Titan Model.ClientProto.
Import ListNotations.
Open Scope N_scope.

Section Spec.
Variable decode_body : bool.
Variable cap : N.
Variable decode_with : str -> str -> option str.

Definition line_len_incomplete (b : str) : N :=
  let n := N.of_nat (length b) in match rev b with 13 :: _ => n - 1 | _ => n end.

(* exc: how the connection ended (None = clean close) *)
Definition spec_result (stream : str) (exc : option str) : cresult :=
  let ended := match exc with Some k => RErr (lit "conn:" ++ k) | None => RErr (lit "closed_before_header") end in
  match break_crlf stream with
  | None => if max_header_line <? line_len_incomplete stream then RErr (lit "header_too_long") else ended
  | Some (l, body) =>
      if max_header_line <? N.of_nat (length l) then RErr (lit "header_too_long") else
      match decode l with
      | None => RErr (lit "conn:UnicodeDecodeError")     (* the transport aborts with that exception *)
      | Some line =>
          let '(st_txt, found, rest) := partition 32 line in
          match st_txt with
          | [d1; d2] =>
              if is_digit d1 && is_digit d2 then
                let v := (d1 - 48) * 10 + (d2 - 48) in
                let m := if found then rest else [] in
                if negb ((10 <=? v) && (v <? 70)) then RErr (lit "out_of_range")
                else if mem 13 m || mem 10 m then RErr (lit "bad_meta")
                else if is_2x v then
                  if cap <? N.of_nat (length body) then RErr (lit "too_large")
                  else match exc with
                       | Some k => RErr (lit "conn:" ++ k)
                       | None =>
                           if is_text_meta m && decode_body then
                             match decode_with (charset_of m) body with
                             | Some t => ROk {| cr_status := v; cr_meta := m; cr_body := CText t |}
                             | None => RErr (lit "decode")
                             end
                           else ROk {| cr_status := v; cr_meta := m; cr_body := CBytes body |}
                       end
                else
                  (* no body expected: the client has closed the connection itself, so the way
                     the peer ends it no longer matters *)
                  ROk {| cr_status := v; cr_meta := m; cr_body := CNone |}
              else RErr (lit "invalid_status")
          | _ => RErr (lit "invalid_status")
          end
      end
  end.
End Spec.

Definition cbody_eqb (a b : cbody) : bool :=
  match a, b with
  | CNone, CNone => true
  | CText x, CText y => eqb x y
  | CBytes x, CBytes y => eqb x y
  | _, _ => false
  end.
Definition cresult_eqb (a b : cresult) : bool :=
  match a, b with
  | ROk x, ROk y => (cr_status x =? cr_status y) && eqb (cr_meta x) (cr_meta y) && cbody_eqb (cr_body x) (cr_body y)
  | RErr x, RErr y => eqb x y
  | _, _ => false
  end.

(* delivery under the transport contract: data is delivered chunk by chunk until the client
   closes (then connection_lost(None)) or an exception escapes data_received (then the transport
   aborts with that exception); otherwise the connection ends the way the peer ends it *)
Section Deliver.
Variable decode_body : bool.
Variable cap : N.
Variable decode_with : str -> str -> option str.
Definition has_close (a : list caction) : bool := existsb (fun x => match x with CClose => true | _ => false end) a.
Definition has_escape (a : list caction) : bool := existsb (fun x => match x with CEscape _ => true | _ => false end) a.
Fixpoint deliver (s : cst) (chunks : list str) (exc : option str) : cst :=
  match chunks with
  | [] => connection_lost decode_body decode_with s exc
  | d :: r =>
      let (s1, acts) := data_received cap s d in
      if has_escape acts then connection_lost decode_body decode_with s1 (Some (lit "UnicodeDecodeError"))
      else if has_close acts then connection_lost decode_body decode_with s1 None
      else deliver s1 r exc
  end.
End Deliver.

(* the monitor: the observed outcome of a call equals the specification's, and is never "pending" *)
Definition ok (decode_body : bool) (cap : N) (decode_with : str -> str -> option str)
              (stream : str) (exc : option str) (observed : fut) : bool :=
  match observed with
  | Pending => false
  | Done r => cresult_eqb r (spec_result decode_body cap decode_with stream exc)
  end.
Close Scope N_scope.
