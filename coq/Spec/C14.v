(* C14 - Titan uploads change only the authorised target, exactly as sent.
   The monitor compares two filesystem snapshots (of the upload directory AND its surroundings). *)
From Coq Require Import List NArith ZArith Bool.
From NV Require Import Prelude.Str Model.Fs Model.Static.
Import ListNotations.
Open Scope N_scope.

Definition node_eqb (a b : node) : bool :=
  match a, b with
  | File x, File y => eqb x y
  | Dir, Dir => true
  | Link x, Link y => eqb x y
  | _, _ => false
  end.
Definition is_file (n : option node) : bool := match n with Some (File _) => true | _ => false end.

(* every path of either snapshot *)
Definition all_paths (a b : fs) : list path := map fst a ++ map fst b.

(* regular files that differ between the snapshots (created, deleted or modified) *)
Definition changed_files (before after : fs) : list path :=
  filter (fun p => let x := lstat before p in let y := lstat after p in
                   (is_file x || is_file y) &&
                   negb (match x, y with Some m, Some n => node_eqb m n | None, None => true | _, _ => false end))
         (all_paths before after).
(* anything else that changed must be a directory that was created *)
Definition other_changes_ok (before after : fs) : bool :=
  forallb (fun p => match lstat before p, lstat after p with
                    | Some m, Some n => node_eqb m n || is_file (Some m) || is_file (Some n)
                    | None, Some Dir => true
                    | None, Some (File _) => true      (* judged by changed_files *)
                    | Some (File _), None => true
                    | None, None => true
                    | _, _ => false
                    end) (all_paths before after).

Definition guards_ok (c : ucfg) (r : ureq) : bool :=
  token_ok c (q_token r) && (q_size r <=? u_max c) &&
  (match u_types c with Some (t :: ts) => existsb (eqb (q_mime r)) (t :: ts) | _ => true end) &&
  (if q_size r =? 0 then u_delete c else true).

(* target: the fully resolved location (by the operating system) the request path denotes *)
Definition ok (c : ucfg) (r : ureq) (status : Z) (target : option path) (before after : fs) : bool :=
  other_changes_ok before after &&
  match changed_files before after with
  | [] => (* nothing changed: fine unless success was claimed for a store *)
      if (status =? 20)%Z && negb (q_size r =? 0)
      then match target with Some t => match lstat before t with Some (File x) => eqb x (q_content r) | _ => false end | None => false end
      else true
  | ps =>
      (status =? 20)%Z && guards_ok c r &&
      match target with
      | Some t =>
          forallb (path_eqb t) ps && path_prefixb (u_root c) t &&
          (if q_size r =? 0 then negb (is_file (lstat after t))
           else match lstat after t with Some (File x) => eqb x (q_content r) | _ => false end)
      | None => false
      end
  end.
Close Scope N_scope.
