(* C16 - redirect following is bounded, loop-free and stays on gemini://.
   `ok` judges one call of GeminiClient.get against the table of scripted answers:
   observable = (outcome, log of URLs for which a connection was opened). *)
From Coq Require Import List NArith ZArith Bool.
From NV Require Import Prelude.Str Prelude.Res Model.Redirect.
Import ListNotations.

Fixpoint nodupb (l : list str) : bool :=
  match l with [] => true | x :: l' => negb (existsb (eqb x) l') && nodupb l' end.

Fixpoint list_eqb (a b : list str) : bool :=
  match a, b with [], [] => true | x :: a', y :: b' => eqb x y && list_eqb a' b' | _, _ => false end.

Definition followable (r : response) : bool :=
  is_redirect (r_status r) && prefixb gemini_prefix (r_meta r).

(* the ideal walk through a scripted table, at most k hops; returns the URLs visited and the
   response at which the walk stops (None if a URL has no scripted answer, k is exhausted, or the
   walk ends in a redirect without a target) *)
Fixpoint walk (tab : str -> option response) (k : nat) (u : str) : list str * option response :=
  match tab u with
  | None => ([u], None)
  | Some r =>
      if followable r then
        match k with
        | O => ([u], None)
        | S k' => let (l, f) := walk tab k' (r_meta r) in (u :: l, f)
        end
      else if is_redirect (r_status r) && match r_meta r with [] => true | _ => false end
      then ([u], None)   (* a 3x without target is malformed: the property leaves the outcome open *)
      else ([u], Some r)
  end.

Definition response_eqb (a b : response) : bool :=
  Z.eqb (r_status a) (r_status b) && eqb (r_meta a) (r_meta b) && eqb (r_body a) (r_body b).

Definition ok (tab : str -> option response) (follow_redirects : bool) (max : nat) (u : str)
              (res : outcome * list str) : bool :=
  let (o, log) := res in
  if follow_redirects then
    (* bounded, gemini-only, loop-free *)
    Nat.leb (length log) (max + 1) &&
    forallb (prefixb gemini_prefix) (tl log) &&
    nodupb log &&
    (* never a followable redirect as final content; never out of fuel *)
    match o with Final r => negb (followable r) | Fail _ => true | OutOfFuel => false end &&
    (* a loop-free chain of at most max redirects is followed to its final response *)
    match walk tab max u with
    | (l, Some final) =>
        if nodupb l then
          match o with Final r => response_eqb r final && list_eqb log l | _ => false end
        else true
    | _ => true
    end
  else
    (* disabled: exactly one connection, the answer returned unchanged *)
    match log, tab u with
    | [x], Some r => eqb x u && match o with Final r' => response_eqb r' r | _ => false end
    | [x], None => eqb x u
    | _, _ => false
    end.
