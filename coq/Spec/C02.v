(* C02 - static serving never escapes the document root.
   The monitor receives facts established by the harness with the operating system as referee:
   the fully resolved (os.path.realpath) location of the file whose unique sentinel content
   appears in a success body, and whether any sentinel appears in a non-success response. *)
From Coq Require Import List NArith ZArith Bool.
From NV Require Import Prelude.Str Model.Fs Model.Static.
Import ListNotations.

(* served: Some p = resolved location of the file/directory whose content was delivered *)
Definition ok (root : path) (status : Z) (served : option path) (leaks_in_failure : bool) : bool :=
  if (status =? 20)%Z then
    match served with
    | Some p => path_prefixb root p
    | None => false            (* success whose content cannot be attributed to anything inside or outside: flagged *)
    end
  else negb leaks_in_failure.

(* reachability: a regular file inside the root requested by its own path is served *)
Definition reachable_ok (expected_text : str) (o : sout) : bool :=
  match o with OServe _ _ t => eqb t expected_text | _ => false end.
