(* C09 - IP access control decides exactly as configured.  Declarative decision by integer
   intervals (the independent oracle of the property text), to be compared with the
   netmask-based implementation model. *)
From Coq Require Import List NArith Bool.
From NV Require Import Prelude.Str Model.Ip.
Import ListNotations.
Open Scope N_scope.

Definition aligned (n : net) : Prop :=
  n_plen n <= bits (n_fam n) /\ n_base n < 2 ^ bits (n_fam n) /\ n_base n mod 2 ^ (bits (n_fam n) - n_plen n) = 0.
Definition addr_wf (a : addr) : Prop := a_val a < 2 ^ bits (a_fam a).

(* membership by interval *)
Definition in_net (n : net) (a : addr) : Prop :=
  n_fam n = a_fam a /\ n_base n <= a_val a < n_base n + 2 ^ (bits (n_fam n) - n_plen n).

Definition in_netb (n : net) (a : addr) : bool :=
  fam_eqb (n_fam n) (a_fam a) && (n_base n <=? a_val a) && (a_val a <? n_base n + 2 ^ (bits (n_fam n) - n_plen n)).

(* the decision the property text prescribes *)
Definition admitted (c : acl) (a : option addr) : Prop :=
  exists x, a = Some x /\ (forall n, In n (deny c) -> ~ in_net n x) /\
            ((exists n, In n (allow c) /\ in_net n x) \/ (allow c = [] /\ default_allow c = true)).

Definition admittedb (c : acl) (a : option addr) : bool :=
  match a with
  | None => false
  | Some x => negb (existsb (fun n => in_netb n x) (deny c)) &&
              (existsb (fun n => in_netb n x) (allow c) || (match allow c with [] => true | _ => false end && default_allow c))
  end.

(* monitor: decision observed on the implementation (Some true/false, None = start-up refused)
   against the interval oracle; nets = entries as parsed by the harness's own integer parser
   (None for an entry it cannot interpret) *)
Definition ok (enabled : bool) (allow_e deny_e : list (option net)) (dflt : bool) (a : option addr)
              (observed : option bool) : bool :=
  let bad := existsb (fun e => match e with None => true | _ => false end) (allow_e ++ deny_e) in
  let strip := fix strip (l : list (option net)) := match l with [] => [] | Some n :: l' => n :: strip l' | None :: l' => strip l' end in
  let c := {| allow := strip allow_e; deny := strip deny_e; default_allow := dflt |} in
  if negb enabled then match observed with Some true => true | _ => false end
  else match allow_e, deny_e, dflt with
       | [], [], true => match observed with Some true => true | _ => false end
       | _, _, _ =>
         if bad then match observed with None => true | _ => false end
         else match observed with Some b => Bool.eqb b (admittedb c a) | None => false end
       end.
Close Scope N_scope.
