(* C15 - silent peers are always disconnected within the timeout (request phase).
   No stuck state: an open connection that has not been answered always has the timer armed
   or a task pending; the timer, when it fires first, produces "40 Request timeout" and a
   close; the timer is never armed once a complete request is being processed. *)
From Coq Require Import List NArith ZArith Bool.
From NV Require Import Prelude.Str Prelude.Res Model.ServerProto Spec.ServerTrace Spec.C01.
Import ListNotations.

Definition closed_in (o : obs) : bool := snd (wire (flat o)).
Definition last_armed (o : obs) : bool := match rev o with (_, a) :: _ => a | [] => true end.

(* some started task has not completed *)
Definition pending_in (evs : list event) (o : obs) : bool := negb (quiescent evs o).

Definition no_stuck (evs : list event) (o : obs) : bool :=
  if has_lost evs then true else closed_in o || last_armed o || pending_in evs o.

(* timer firing while armed and before any response: exactly the timeout response *)
Definition actions_eqb_timeout (acts : list action) : bool :=
  match acts with
  | [AWrite b; AClose] => eqb b timeout_line
  | _ => false
  end.
Fixpoint timeout_response (evs : list event) (o : obs) (armed_before responded : bool) : bool :=
  match evs, o with
  | e :: evs', (acts, a) :: o' =>
      (match e with
       | ETimer => if armed_before && negb responded then actions_eqb_timeout acts else true
       | _ => true
       end) &&
      timeout_response evs' o' a
        (responded || existsb (fun x => match x with AClose => true | _ => false end) acts)
  | _, _ => true
  end.

(* once a task has been started (complete request being answered) the timer is not armed *)
Fixpoint not_armed_after_complete (o : obs) (started : bool) : bool :=
  match o with
  | (acts, a) :: o' =>
      let started' := started || existsb (fun x => match spawn_id x with Some _ => true | None => is_invocation x end) acts in
      (if started' then negb a else true) && not_armed_after_complete o' started'
  | [] => true
  end.

Definition ok (evs : list event) (o : obs) : bool :=
  no_stuck evs o && timeout_response evs o true false && not_armed_after_complete o false.
