(* C10 - rate limiting bounds admitted requests per address in every window.
   Observable: the decision log (time, address, admitted) of a history. *)
From Coq Require Import List NArith QArith Bool.
From NV Require Import Prelude.Str Model.Bucket.
Import ListNotations.
Open Scope Q_scope.

Definition log := list (Q * str * bool).

Fixpoint sorted (h : list event) : Prop :=
  match h with
  | [] => True
  | e :: h' => match h' with [] => True | e' :: _ => ev_time e <= ev_time e' end /\ sorted h'
  end.

(* number of requests of `ip` admitted at a time within [t1, t2] *)
Fixpoint admitted_in (l : log) (ip : str) (t1 t2 : Q) : nat :=
  match l with
  | [] => O
  | (t, k, ok) :: l' =>
      (if ok && eqb ip k && Qle_bool t1 t && Qle_bool t t2 then 1 else 0)%nat + admitted_in l' ip t1 t2
  end.

Definition decisions_of (ip : str) (l : log) : log := filter (fun e => eqb ip (snd (fst e))) l.

Definition is_req (e : event) : bool := match e with Req _ _ => true | Cleanup _ => false end.
Definition concerns (ip : str) (e : event) : bool :=
  match e with Req _ k => eqb ip k | Cleanup _ => true end.

(* the ideal allowance of one address: a single bucket, never evicted *)
Fixpoint ideal (c : cfg) (b : bucket) (h : list (Q)) : list bool :=
  match h with
  | [] => []
  | t :: h' => let (ok, b') := consume c t b in ok :: ideal c b' h'
  end.

(* monitor on an implementation log: every window between two log times respects the bound.
   (quadratic; used on short histories and on sampled windows of long ones) *)
Definition window_ok (c : cfg) (l : log) (ip : str) (t1 t2 : Q) : bool :=
  Qle_bool (inject_Z (Z.of_nat (admitted_in l ip t1 t2))) (cap c + rate c * (t2 - t1)).

Definition ok (c : cfg) (l : log) : bool :=
  forallb (fun e1 => forallb (fun e2 =>
     if Qle_bool (fst (fst e1)) (fst (fst e2))
     then window_ok c l (snd (fst e1)) (fst (fst e1)) (fst (fst e2)) else true) l) l.

(* "a request is refused only when the address's allowance is exhausted": per address, the decisions are exactly those of
   one ideal bucket that starts full at the address's first request and is never evicted *)
Fixpoint bools_eqb (a b : list bool) : bool :=
  match a, b with
  | [], [] => true
  | x :: a', y :: b' => Bool.eqb x y && bools_eqb a' b'
  | _, _ => false
  end.
Definition ideal_ok (c : cfg) (l : log) : bool :=
  forallb (fun ip =>
     let d := decisions_of ip l in
     match map (fun e => fst (fst e)) d with
     | [] => true
     | t0 :: ts => bools_eqb (map snd d) (ideal c {| tokens := cap c; last := t0 |} (t0 :: ts))
     end) (map (fun e => snd (fst e)) l).
Close Scope Q_scope.
