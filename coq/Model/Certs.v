(* Model of src/nauyaca/security/certificates.py: the fingerprint of a certificate, loading a certificate file,
   expiry, validate_certificate_file - and of the `get_peer_certificate` methods of the protocol classes (which
   expression yields the certificate that is fingerprinted).

   The cryptographic and I/O primitives are Section variables (oracles):
     der  : cert -> bytes              cert.public_bytes(serialization.Encoding.DER)
     sha256, sha1 : bytes -> bytes     hashlib.sha256(x).digest(), hashlib.sha1(x).digest()
   `hexdigest()` is NOT an oracle: hashlib's hexdigest() is modelled as `hex_lower (digest)`, an executable function,
   so that the FORMAT of a fingerprint (length, alphabet, prefix) is a theorem (Proofs/Certs_format.v).

   Everything here is executable; the lemmas are in Proofs/Certs_format.v, the ties to the code in
   Equiv/EquivCerts.v. *)
From Coq Require Import List NArith ZArith Bool.
From NV Require Import Prelude.Str Prelude.Res.
Import ListNotations.
Open Scope N_scope.

(* ---------- bytes.hex() / hexdigest(): two lower-case hex digits per byte, most significant first ---------- *)
Definition hexdig (d : N) : N := if d <? 10 then 48 + d else 87 + d.
Definition hex_byte (b : N) : str := [hexdig (b / 16); hexdig (b mod 16)].
Definition hex_lower (bs : list N) : str := flat_map hex_byte bs.

(* the alphabet of `[0-9a-f]` *)
Definition is_lower_hex (c : N) : bool := is_digit c || ((97 <=? c) && (c <=? 102)).

(* The canonical format: "sha256:" followed by exactly 64 characters of [0-9a-f], no case folding.
   Model/Tofu.v's `fp_strict` (what TOFUDatabase._validate_fingerprint accepts, up to a final line feed) is this
   predicate on the lower-cased text: fp_canonical fp = true -> Tofu.fp_strict fp = true (Certs_format.v). *)
Definition fp_canonical (fp : str) : bool :=
  prefixb (lit "sha256:") fp && (length (drop 7 fp) =? 64)%nat && forallb is_lower_hex (drop 7 fp).

Definition all_bytes (bs : list N) : bool := forallb (fun b => b <? 256) bs.

(* ---------- get_certificate_fingerprint ---------- *)
Definition default_algorithm : str := lit "sha256".

Section Fingerprint.
Variable cert : Type.
Variable der : cert -> list N.
Variables sha256 sha1 : list N -> list N.

Definition fingerprint (c : cert) (alg : str) : res str :=
  if eqb alg (lit "sha256") then Ok (alg ++ lit ":" ++ hex_lower (sha256 (der c)))
  else if eqb alg (lit "sha1") then Ok (alg ++ lit ":" ++ hex_lower (sha1 (der c)))
  else Err (lit "ValueError") (lit "Unsupported algorithm: " ++ alg).

(* get_certificate_fingerprint(cert): the form every caller outside certificates.py uses *)
Definition fingerprint_default (c : cert) : res str := fingerprint c default_algorithm.
End Fingerprint.
Arguments fingerprint {cert} der sha256 sha1 c alg.
Arguments fingerprint_default {cert} der sha256 sha1 c.

(* ---------- load_certificate, get_certificate_fingerprint_from_path, is_certificate_expired,
              validate_certificate_file ---------- *)
Section Files.
Variables cert path : Type.
Variable der : cert -> list N.
Variables sha256 sha1 : list N -> list N.
Variable path_str : path -> str.                 (* str(cert_path), as an f-string renders it *)
Variable exists_ : path -> bool.                 (* cert_path.exists() *)
Variable read_bytes : path -> res (list N).      (* cert_path.read_bytes(); Err k m: an Exception of class k with str(e) = m *)
Variable load_pem : list N -> res cert.          (* x509.load_pem_x509_certificate(data) *)
Variable not_after : cert -> Z.                  (* cert.not_valid_after_utc, as an instant *)

(* raises FileNotFoundError when the path does not exist; EVERY other failure (incl. a FileNotFoundError of
   read_bytes after a successful exists()) becomes ValueError("Invalid certificate file: <text>") *)
Definition load_certificate (p : path) : res cert :=
  if negb (exists_ p) then Err (lit "FileNotFoundError") (lit "Certificate file not found: " ++ path_str p)
  else match read_bytes p with
       | Ok data => match load_pem data with
                    | Ok c => Ok c
                    | Err _ m => Err (lit "ValueError") (lit "Invalid certificate file: " ++ m)
                    | OutOfModel => OutOfModel
                    end
       | Err _ m => Err (lit "ValueError") (lit "Invalid certificate file: " ++ m)
       | OutOfModel => OutOfModel
       end.

Definition fingerprint_from_path (p : path) (alg : str) : res str :=
  match load_certificate p with
  | Ok c => fingerprint der sha256 sha1 c alg
  | Err k m => Err k m
  | OutOfModel => OutOfModel
  end.

(* now > cert.not_valid_after_utc : one reading of the clock *)
Definition is_expired (now : Z) (c : cert) : bool := (not_after c <? now)%Z.

(* never raises: (is_valid, error_message) *)
Definition validate_file (now : Z) (p : path) : res (bool * str) :=
  match load_certificate p with
  | Ok c => if is_expired now c then Ok (false, lit "Certificate has expired") else Ok (true, [])
  | Err k m => if eqb k (lit "FileNotFoundError") then Ok (false, lit "Certificate file not found")
               else Ok (false, m)
  | OutOfModel => OutOfModel
  end.
End Files.
Arguments load_certificate {cert path} path_str exists_ read_bytes load_pem p.
Arguments fingerprint_from_path {cert path} der sha256 sha1 path_str exists_ read_bytes load_pem p alg.
Arguments is_expired {cert} not_after now c.
Arguments validate_file {cert path} path_str exists_ read_bytes load_pem not_after now p.

(* ---------- get_peer_certificate (GeminiServerProtocol, GeminiClientProtocol, TitanClientProtocol) ---------- *)
Section Peer.
Variables cert transport sslobj : Type.
Variable ssl_object : transport -> option sslobj.                (* transport.get_extra_info("ssl_object") *)
Variable getpeercert_der : sslobj -> res (option (list N)).      (* ssl_object.getpeercert(binary_form=True) *)
Variable load_der : list N -> res cert.                          (* x509.load_der_x509_certificate(der_cert) *)

(* None when there is no transport, no TLS object, no (or an empty) peer certificate, or ANY Exception while asking
   for it or parsing it *)
Definition peer_certificate (tr : option transport) : res (option cert) :=
  match tr with
  | None => Ok None
  | Some t =>
      match ssl_object t with
      | None => Ok None
      | Some s =>
          match getpeercert_der s with
          | Ok (Some (b :: d)) =>
              match load_der (b :: d) with
              | Ok c => Ok (Some c)
              | Err _ _ => Ok None
              | OutOfModel => OutOfModel
              end
          | Ok _ => Ok None
          | Err _ _ => Ok None
          | OutOfModel => OutOfModel
          end
      end
  end.
End Peer.
Arguments peer_certificate {cert transport sslobj} ssl_object getpeercert_der load_der tr.

(* ---------- the PyOpenSSL path (security/pyopenssl_tls.py x509_to_cryptography, server/tls_protocol.py
              _SSLObjectWrapper.getpeercert(binary_form=True)) ---------- *)
Section PyOpenSSL.
Variables cert ocert : Type.
Variable der : cert -> list N.
Variable dump_asn1 : ocert -> res (list N).        (* crypto.dump_certificate(crypto.FILETYPE_ASN1, cert) *)
Variable load_der : list N -> res cert.

Definition x509_to_cryptography (o : ocert) : res cert :=
  match dump_asn1 o with
  | Ok d => load_der d
  | Err k m => Err k m
  | OutOfModel => OutOfModel
  end.

(* _SSLObjectWrapper(c).getpeercert(binary_form=True) *)
Definition wrapper_getpeercert_der (c : option cert) : option (list N) :=
  match c with None => None | Some c => Some (der c) end.
End PyOpenSSL.
Arguments x509_to_cryptography {cert ocert} dump_asn1 load_der o.
Arguments wrapper_getpeercert_der {cert} der c.
Close Scope N_scope.
