(* Model of client/protocol.py: GeminiClientProtocol / TitanClientProtocol (textually parallel;
   the request bytes are a parameter) as a state machine over the asyncio callbacks
   (DESIGN Appendix D.2, after the fix: commits).  Charset decoding is an oracle. *)
From Coq Require Import List NArith ZArith Bool.
From NV Require Import Prelude.Str Prelude.Res Prelude.Utf8 Model.Titan.
Import ListNotations.
Open Scope N_scope.

Inductive cbody := CNone | CText (s : str) | CBytes (b : str).
Record cresp := { cr_status : N; cr_meta : str; cr_body : cbody }.

Inductive cresult :=
| ROk (r : cresp)
| RErr (kind : str).          (* the exception set on the response future, by class *)

Inductive fut := Pending | Done (r : cresult).

Inductive cevent :=
| CConnected                  (* connection_made *)
| CSend                       (* send_request() called by the session *)
| CData (d : str)
| CLost (exc : option str).   (* connection_lost(exc); exc = class label of the exception *)

Inductive caction :=
| CWrite (b : str)
| CClose
| CEscape (kind : str).       (* an exception escapes data_received (the transport then aborts) *)

Record cst := { cbuf : str; hdr : bool; status : option N; meta : str; cfut : fut; connected : bool }.
Definition cinit : cst := {| cbuf := []; hdr := false; status := None; meta := []; cfut := Pending; connected := false |}.

Definition max_header_line : N := 1027.

Section Client.
Variable request : list str.        (* what send_request writes: [line ++ CRLF] or [line ++ CRLF; content] *)
Variable send_on_connect : bool.
Variable decode_body : bool.
Variable cap : N.                   (* MAX_RESPONSE_BODY_SIZE *)
(* bytes.decode(label): Some text, or None for any decoding failure (unknown label included) *)
Variable decode_with : str -> str -> option str.

Definition set_err (s : cst) (k : str) : cst :=
  match cfut s with
  | Pending => {| cbuf := cbuf s; hdr := hdr s; status := status s; meta := meta s; cfut := Done (RErr k); connected := connected s |}
  | Done _ => s
  end.

(* _header_too_long *)
Definition header_too_long (b : str) : bool :=
  match break_crlf b with
  | Some (l, _) => max_header_line <? N.of_nat (length l)
  | None =>
      let n := N.of_nat (length b) in
      let n' := match rev b with 13 :: _ => n - 1 | _ => n end in
      max_header_line <? n'
  end.

(* _parse_header on the decoded line: new status, meta and possibly an error *)
Definition parse_header (s : cst) (line : str) : cst :=
  let '(st_txt, found, rest) := partition 32 line in
  match st_txt with
  | [d1; d2] =>
      if is_digit d1 && is_digit d2 then
        let v := (d1 - 48) * 10 + (d2 - 48) in
        let m := if found then rest else [] in
        let s1 := {| cbuf := cbuf s; hdr := hdr s; status := Some v; meta := m; cfut := cfut s; connected := connected s |} in
        if negb ((10 <=? v) && (v <? 70)) then set_err s1 (lit "out_of_range")
        else if mem 13 m || mem 10 m then set_err s1 (lit "bad_meta")
        else s1
      else set_err s (lit "invalid_status")
  | _ => set_err s (lit "invalid_status")
  end.

Definition is_2x (v : N) : bool := (20 <=? v) && (v <? 30).

Definition data_received (s0 : cst) (d : str) : cst * list caction :=
  let s := {| cbuf := cbuf s0 ++ d; hdr := hdr s0; status := status s0; meta := meta s0; cfut := cfut s0; connected := connected s0 |} in
  if negb (hdr s) && header_too_long (cbuf s) then (set_err s (lit "header_too_long"), [CClose])
  else
    let '(s1, acts, stop) :=
      if negb (hdr s) then
        match break_crlf (cbuf s) with
        | Some (l, body) =>
            match decode l with
            | None => (s, [CEscape (lit "header_utf8")], true)
            | Some line =>
                let s' := parse_header s line in
                let s'' := {| cbuf := body; hdr := true; status := status s'; meta := meta s'; cfut := cfut s'; connected := connected s' |} in
                match status s'' with
                | None => (s'', [CClose], true)
                | Some v => if is_2x v then (s'', [], false) else (s'', [CClose], false)
                end
            end
        | None => (s, [], false)
        end
      else (s, [], false) in
    if stop then (s1, acts)
    else if match status s1 with Some v => is_2x v | None => false end && (cap <? N.of_nat (length (cbuf s1)))
         then (set_err s1 (lit "too_large"), acts ++ [CClose])
    else (s1, acts).

(* charset label of a meta: first ";"-part whose stripped lower-case form starts with "charset=" *)
Definition charset_of (m : str) : str :=
  let parts := map ustrip (split_on ch_semi m) in
  match find (fun p => prefixb (lit "charset=") (lower p)) parts with
  | Some p => match break_at ch_eq p with
              | Some (_, v) => strip_by (fun c => (c =? 34) || (c =? 39)) (ustrip v)
              | None => lit "utf-8"
              end
  | None => lit "utf-8"
  end.
Definition is_text_meta (m : str) : bool :=
  let mime := lower (ustrip (match split_on ch_semi m with p :: _ => p | [] => [] end)) in
  prefixb (lit "text/") mime || match mime with [] => true | _ => false end.

Definition connection_lost (s : cst) (exc : option str) : cst :=
  match cfut s with
  | Done _ => s
  | Pending =>
      match exc with
      | Some k => set_err s (lit "conn:" ++ k)
      | None =>
          if negb (hdr s) then set_err s (lit "closed_before_header")
          else match status s with
               | None => s      (* unreachable: a header without status has already set an error *)
               | Some v =>
                   let finish b := {| cbuf := cbuf s; hdr := hdr s; status := status s; meta := meta s;
                                      cfut := Done (ROk {| cr_status := v; cr_meta := meta s; cr_body := b |});
                                      connected := connected s |} in
                   if is_2x v then
                     if is_text_meta (meta s) && decode_body then
                       match decode_with (charset_of (meta s)) (cbuf s) with
                       | Some t => finish (CText t)
                       | None => set_err s (lit "decode")
                       end
                     else finish (CBytes (cbuf s))
                   else finish CNone
               end
      end
  end.

Definition cstep (s : cst) (e : cevent) : cst * list caction :=
  match e with
  | CConnected =>
      let s1 := {| cbuf := cbuf s; hdr := hdr s; status := status s; meta := meta s; cfut := cfut s; connected := true |} in
      (s1, if send_on_connect then map CWrite request else [])
  | CSend => (s, if connected s then map CWrite request else [])
  | CData d => data_received s d
  | CLost exc => (connection_lost s exc, [])
  end.

Fixpoint crun (s : cst) (evs : list cevent) : cst * list (list caction) :=
  match evs with
  | [] => (s, [])
  | e :: r => let (s1, a) := cstep s e in
              let (s2, l) := crun s1 r in (s2, a :: l)
  end.
End Client.
Close Scope N_scope.
