(* Model of server/proxy.py (URL construction of ProxyHandler._handle_async) and of
   server/router.py (Router.route with EXACT / PREFIX routes, first match wins). *)
From Coq Require Import List NArith Bool.
From NV Require Import Prelude.Str Prelude.Res Model.Url.
Import ListNotations.
Open Scope N_scope.

Definition ends_with_slash (s : str) : bool := match rev s with c :: _ => c =? ch_slash | [] => false end.
Definition rstrip_slash (s : str) : str := rstrip_by (fun c => c =? ch_slash) s.
Definition starts_with_slash (s : str) : bool := match s with c :: _ => c =? ch_slash | [] => false end.

(* the path forwarded upstream *)
Definition mapped (prefix : str) (strip : bool) (path : str) : str :=
  if strip && prefixb prefix path then
    let remaining := drop (length prefix) path in
    if ends_with_slash prefix || (match remaining with [] => true | _ => false end) || starts_with_slash remaining
    then (if starts_with_slash remaining then remaining else ch_slash :: remaining)
    else path
  else path.

Record proxy_cfg := { px_upstream : str; px_prefix : str; px_strip : bool }.

(* ProxyHandler.__init__ stores upstream.rstrip("/") ; _handle_async builds the URL *)
Definition upstream_url (c : proxy_cfg) (path query : str) : str :=
  rstrip_slash (px_upstream c) ++ mapped (px_prefix c) (px_strip c) path ++
  match query with [] => [] | _ => ch_qm :: query end.

(* ---- Router ---- *)
Inductive route_type := RExact | RPrefix.
Record route (H : Type) := { rt_pattern : str; rt_type : route_type; rt_handler : H }.
Arguments rt_pattern {H}. Arguments rt_type {H}. Arguments rt_handler {H}.

Definition matches {H} (path : str) (r : route H) : bool :=
  match rt_type r with RExact => eqb path (rt_pattern r) | RPrefix => prefixb (rt_pattern r) path end.

(* None = no route matched: the default handler (or the built-in 51) answers *)
Fixpoint route_to {H} (routes : list (route H)) (path : str) : option H :=
  match routes with
  | [] => None
  | r :: rs => if matches path r then Some (rt_handler r) else route_to rs path
  end.
Close Scope N_scope.
