(* Model of server/tls_protocol.py: the manual PyOpenSSL pump (DESIGN Appendix D.3, after the
   fix: commits).  OpenSSL itself is an oracle: do_handshake's verdict per read, SSL_write
   accepting at most one 16384-byte record per call, records framed so that the peer recovers
   exactly the plaintext that was accepted. *)
From Coq Require Import List NArith Bool.
From NV Require Import Prelude.Str.
Import ListNotations.
Open Scope N_scope.

(* ---------- outgoing path: wrapper.write = sendall + flush ---------- *)
Definition record_max : nat := N.to_nat 16384.
Definition bio_piece : nat := N.to_nat 8192.

(* SSL_write: accepts min(|d|, 16384) bytes and appends one record *)
Definition ssl_send (d : str) : str * str := (take record_max d, drop record_max d).

(* sendall: loop until everything is accepted (fuel = |d| suffices: each call accepts >= 1 byte) *)
Fixpoint sendall_fuel (fuel : nat) (d : str) : list str :=
  match fuel with
  | O => []
  | S f => match d with
           | [] => []
           | _ => let (r, rest) := ssl_send d in r :: sendall_fuel f rest
           end
  end.
Definition sendall (d : str) : list str := sendall_fuel (length d) d.

(* abstract record protection: a 5-byte header carrying the length, then the payload *)
Definition frame (r : str) : str :=
  [23; 3; 3; N.of_nat (length r) / 256; N.of_nat (length r) mod 256] ++ r.
Fixpoint deframe_fuel (fuel : nat) (b : str) : str :=
  match fuel with
  | O => []
  | S f => match b with
           | _ :: _ :: _ :: hi :: lo :: rest =>
               let n := N.to_nat (hi * 256 + lo) in take n rest ++ deframe_fuel f (drop n rest)
           | _ => []
           end
  end.
Definition deframe (b : str) : str := deframe_fuel (length b) b.

(* _flush_outgoing: bio_read(8192) until empty, one transport.write per piece *)
Fixpoint flush_fuel (fuel : nat) (bio : str) : list str :=
  match fuel with
  | O => []
  | S f => match bio with
           | [] => []
           | _ => take bio_piece bio :: flush_fuel f (drop bio_piece bio)
           end
  end.
Definition flush (bio : str) : list str := flush_fuel (length bio) bio.

(* TLSTransportWrapper.write d: the TCP writes it causes *)
Definition wrapper_write (d : str) : list str := flush (concat (map frame (sendall d))).

(* ---------- incoming path / phases ---------- *)
Inductive phase := Handshaking | Established | Dead.
Inductive hs_verdict := WantRead | HsDone | HsError.

Inductive tevent :=
| TRead (v : hs_verdict) (plaintext : list str)  (* TCP data; oracle: handshake verdict (if handshaking) and the
                                                    plaintext slices (<= 8192 bytes each) OpenSSL yields afterwards *)
| TTimer                                         (* handshake timer fires *)
| TLost.                                         (* TCP connection_lost *)

Inductive taction :=
| TInnerMade                 (* inner protocol created, connection_made called *)
| TInnerData (d : str)       (* inner.data_received *)
| TInnerLost
| TClose.                    (* TCP transport.close() *)

Record tst := { ph : phase; hs_timer : bool; inner : bool }.
Definition tinit : tst := {| ph := Handshaking; hs_timer := true; inner := false |}.

Definition tstep (s : tst) (e : tevent) : tst * list taction :=
  match ph s, e with
  | Dead, _ => (s, [])
  | Handshaking, TRead WantRead _ => (s, [])
  | Handshaking, TRead HsError _ => ({| ph := Dead; hs_timer := hs_timer s; inner := inner s |}, [TClose])
  | Handshaking, TRead HsDone pl =>
      ({| ph := Established; hs_timer := false; inner := true |}, TInnerMade :: map TInnerData pl)
  | Established, TRead _ pl => (s, map TInnerData pl)
  | Handshaking, TTimer =>
      if hs_timer s then ({| ph := Dead; hs_timer := false; inner := inner s |}, [TClose]) else (s, [])
  | Established, TTimer => (s, [])
  | _, TLost => ({| ph := Dead; hs_timer := false; inner := inner s |}, if inner s then [TInnerLost] else [])
  end.

Fixpoint trun (s : tst) (evs : list tevent) : tst * list taction :=
  match evs with
  | [] => (s, [])
  | e :: r => let (s1, a) := tstep s e in let (s2, b) := trun s1 r in (s2, a ++ b)
  end.
Close Scope N_scope.
