(* Model of server/protocol.py: GeminiServerProtocol as a state machine over the asyncio
   callbacks (DESIGN Appendix D.1, after the fix: commits).  Handlers, the upload handler and
   the middleware chain are not modelled: a synchronous handler is the Section variable
   `handler`, everything asynchronous completes through EDone events carrying the outcome; what the CALL of the upload
   handler does (return an awaitable, or fail before one exists) is the Section variable `up_call_fails`. *)
From Coq Require Import List NArith ZArith Bool.
From NV Require Import Prelude.Str Prelude.Res Prelude.Utf8 Model.Url Model.Titan.
Import ListNotations.
Open Scope N_scope.

Inductive body := BNone | BText (s : str) | BBytes (b : str).
Record resp := { rs_status : Z; rs_meta : str; rs_body : body }.

Inductive hres := HValue (r : resp) | HRaise (msg : str) | HAsync.

Inductive task_kind :=
| TMw (line : str)        (* middleware chain consulted for a Gemini request *)
| THandler (line : str)   (* asynchronous request handler *)
| TTitanMw                (* middleware chain consulted for the Titan upload *)
| TUpload.                (* upload handler *)

Inductive outcome :=
| OResp (r : resp)                       (* handler / upload handler returned a response *)
| ORaise (msg : str)                     (* the task raised Exception(msg) *)
| OMw (allow : bool) (text : option str) (* middleware verdict (allow, error_response) *)
| OMalformed.                            (* a result that does not unpack into a verdict *)

Inductive event :=
| ERead (slices : list str)   (* one outer read, delivered as consecutive data_received calls *)
| ETimer                      (* the request timer fires *)
| EDone (id : nat) (o : outcome)
| ELost.                      (* connection_lost *)

Inductive action :=
| AWrite (b : str)
| AClose
| AMw (id : nat) (url ip : str) (fp : option str)  (* middleware.process_request started *)
| AHandler (line : str)                            (* request_handler(request) called *)
| AHandlerTask (id : nat)                          (* ... and it returned a coroutine *)
| AUpload (id : nat) (line content : str)          (* upload_handler.handle_upload started *)
| AUploadCall (line content : str)                 (* upload_handler.handle_upload called, and the call itself failed:
                                                      it raised (or handed back a non-awaitable) before any task existed *)
| AOutOfModel.                                     (* the request line is outside the URL model *)

Inductive tstate := TArmed | TCancelled | TFired.

Record st := {
  buf : str; line_rcvd : bool; await_titan : bool; titan : option treq; content : str;
  timer : tstate; tr : bool; closing : bool; sent : bool;
  next_id : nat; pending : list (nat * task_kind) }.

Definition init : st :=
  {| buf := []; line_rcvd := false; await_titan := false; titan := None; content := [];
     timer := TArmed; tr := true; closing := false; sent := false; next_id := O; pending := [] |}.

Definition crlf : str := [13; 10].
Definition too_big : str := lit "Request exceeds maximum size (1024 bytes)".

(* ---- _send_response: validation, full encoding, latch ---- *)
Definition status_ok (z : Z) : bool := ((10 <=? z) && (z <=? 69))%Z.
Definition clean_meta (m : str) : str := map (fun c => if (c =? 13) || (c =? 10) then 32 else c) m.
Definition header_bytes (status : Z) (meta : str) : str :=
  str_of_Z status ++ [32] ++ encode_replace_upto 1024 (clean_meta meta) ++ crlf.
Definition body_bytes (status : Z) (b : body) : str :=
  if ((20 <=? status) && (status <=? 29))%Z then
    match b with BNone => [] | BText s => encode_replace s | BBytes x => x end
  else [].
Definition invalid_header : str := lit "40 Server error: invalid response from handler" ++ crlf.

Definition serialize (r : resp) : str * str :=
  if status_ok (rs_status r) then (header_bytes (rs_status r) (rs_meta r), body_bytes (rs_status r) (rs_body r))
  else (invalid_header, []).

Definition send_response (s : st) (r : resp) : st * list action :=
  if negb (tr s) || sent s then (s, [])
  else let (h, b) := serialize r in
       ({| buf := buf s; line_rcvd := line_rcvd s; await_titan := await_titan s; titan := titan s;
           content := content s; timer := timer s; tr := tr s; closing := true; sent := true;
           next_id := next_id s; pending := pending s |},
        AWrite h :: (match b with [] => [] | _ => [AWrite b] end) ++ [AClose]).

Definition send_error (s : st) (status : Z) (msg : str) : st * list action :=
  send_response s {| rs_status := status; rs_meta := msg; rs_body := BNone |}.

(* _send_rejection: the middleware's response line goes through the common writer *)
Definition strip_suffix1 (c : N) (s : str) : str :=
  match rev s with x :: r => if x =? c then rev r else s | [] => s end.
Definition send_rejection (s : st) (text : option str) : st * list action :=
  match text with
  | Some (c :: t) =>
      let line := strip_suffix1 13 (strip_suffix1 10 (c :: t)) in
      let '(stxt, _, meta) := partition 32 line in
      match stxt with
      | _ :: _ =>
          if forallb is_digit stxt then
            match undec stxt with
            | Some n => send_response s {| rs_status := Z.of_N n; rs_meta := meta; rs_body := BNone |}
            | None => send_error s 40 (lit "Request rejected")
            end
          else send_error s 40 (lit "Request rejected")
      | [] => send_error s 40 (lit "Request rejected")
      end
  | _ => send_error s 40 (lit "Request rejected")
  end.

(* the answer to an upload that failed with Exception(msg): the same whether the task failed (_handle_titan_upload_result)
   or the call did before a task existed (_start_titan_upload) *)
Definition upload_failed (s : st) (msg : str) : st * list action :=
  send_error s 40 (lit "Upload error: " ++ msg).

Definition set_timer (s : st) (t : tstate) : st :=
  {| buf := buf s; line_rcvd := line_rcvd s; await_titan := await_titan s; titan := titan s;
     content := content s; timer := t; tr := tr s; closing := closing s; sent := sent s;
     next_id := next_id s; pending := pending s |}.
Definition cancel_timer (s : st) : st :=
  match timer s with TArmed => set_timer s TCancelled | _ => s end.

Definition spawn (s : st) (k : task_kind) : st * nat :=
  ({| buf := buf s; line_rcvd := line_rcvd s; await_titan := await_titan s; titan := titan s;
      content := content s; timer := timer s; tr := tr s; closing := closing s; sent := sent s;
      next_id := S (next_id s); pending := pending s ++ [(next_id s, k)] |}, next_id s).

Section Proto.
Variable ip6_check : str -> option str.
Variable handler : str -> hres.        (* the synchronous part of request_handler, by request line *)
Variable has_mw : bool.
Variable has_upload : bool.
(* what the CALL upload_handler.handle_upload(request) does: None = it returns an awaitable (a task is created, its
   completion arrives as EDone); Some msg = it raises an exception e with str(e) = msg before an awaitable exists (or hands
   back something asyncio.create_task refuses: msg is then asyncio's TypeError text).  Exceptions of class RuntimeError
   are outside the model (the code treats them as "no running event loop"). *)
Variable up_call_fails : option str.
Variable peer_ip : str.
Variable peer_fp : option str.

Definition route (s : st) (line : str) : st * list action :=
  match handler line with
  | HRaise m => let (s', a) := send_error s 40 (lit "Server error: " ++ m) in (s', AHandler line :: a)
  | HAsync => let (s', id) := spawn s (THandler line) in (s', [AHandler line; AHandlerTask id])
  | HValue r => let (s', a) := send_response s r in (s', AHandler line :: a)
  end.

Definition handle_gemini (s : st) (line : str) : st * list action :=
  match gemini_from_line ip6_check line with
  | Err _ m => send_error s 59 m
  | OutOfModel => (s, [AOutOfModel])
  | Ok p =>
      if has_mw then let (s', id) := spawn s (TMw line) in (s', [AMw id (p_norm p) peer_ip peer_fp])
      else route s line
  end.

Definition start_upload (s : st) : st * list action :=
  match titan s with
  | Some t => if has_upload then
                match up_call_fails with
                | None => let (s', id) := spawn s TUpload in (s', [AUpload id (t_line t) (content s)])
                | Some msg => let (s', a) := upload_failed s msg in (s', AUploadCall (t_line t) (content s) :: a)
                end
              else (s, [])
  | None => (s, [])
  end.

Definition set_await (s : st) (b : bool) : st :=
  {| buf := buf s; line_rcvd := line_rcvd s; await_titan := b; titan := titan s;
     content := content s; timer := timer s; tr := tr s; closing := closing s; sent := sent s;
     next_id := next_id s; pending := pending s |}.

Definition process_titan_upload (s0 : st) : st * list action :=
  let s := set_await s0 false in
  match titan s with
  | Some t =>
      if negb has_upload then send_error s 40 (lit "Upload handler error")
      else if has_mw then
        let (s', id) := spawn s TTitanMw in (s', [AMw id (titan_normalized t) peer_ip peer_fp])
      else start_upload s
  | None => send_error s 40 (lit "Upload handler error")
  end.

Definition set_content (s : st) (c : str) : st :=
  {| buf := buf s; line_rcvd := line_rcvd s; await_titan := await_titan s; titan := titan s;
     content := c; timer := timer s; tr := tr s; closing := closing s; sent := sent s;
     next_id := next_id s; pending := pending s |}.

Definition handle_titan_url (s : st) (line : str) : st * list action :=
  if negb has_upload then send_error s 50 (lit "Titan uploads not supported on this server") else
  match titan_from_line ip6_check line with
  | Err _ m => send_error s 59 (lit "Invalid Titan URL: " ++ m)
  | OutOfModel => (s, [AOutOfModel])
  | Ok t =>
      let s1 := {| buf := buf s; line_rcvd := line_rcvd s; await_titan := await_titan s; titan := Some t;
                   content := content s; timer := timer s; tr := tr s; closing := closing s; sent := sent s;
                   next_id := next_id s; pending := pending s |} in
      if t_size t =? 0 then process_titan_upload (cancel_timer s1)
      else
        let s2 := set_await s1 true in
        if t_size t <=? N.of_nat (length (buf s2))
        then process_titan_upload (set_content (cancel_timer s2) (take (N.to_nat (t_size t)) (buf s2)))
        else (s2, [])
  end.

Definition set_buf (s : st) (b : str) (lr : bool) : st :=
  {| buf := b; line_rcvd := lr; await_titan := await_titan s; titan := titan s;
     content := content s; timer := timer s; tr := tr s; closing := closing s; sent := sent s;
     next_id := next_id s; pending := pending s |}.

(* data_received for one slice *)
Definition data_received (s0 : st) (d : str) : st * list action :=
  let s := set_buf s0 (buf s0 ++ d) (line_rcvd s0) in
  if negb (line_rcvd s) then
    match break_crlf (buf s) with
    | None => if 1024 <? N.of_nat (length (buf s)) then send_error s 59 too_big else (s, [])
    | Some (line, rest) =>
        if 1024 <? N.of_nat (length line) + 2 then send_error s 59 too_big
        else
          let s1 := set_buf s rest true in
          match decode line with
          | None => send_error s1 59 (lit "Invalid UTF-8 encoding")
          | Some url =>
              if prefixb titan_prefix url then handle_titan_url s1 url
              else handle_gemini (cancel_timer s1) url
          end
    end
  else if await_titan s then
    match titan s with
    | Some t =>
        if t_size t <=? N.of_nat (length (buf s))
        then process_titan_upload (set_content (cancel_timer s) (take (N.to_nat (t_size t)) (buf s)))
        else (s, [])
    | None => (s, [])
    end
  else (s, []).

Fixpoint feed (s : st) (slices : list str) : st * list action :=
  match slices with
  | [] => (s, [])
  | d :: r => let (s1, a1) := data_received s d in
              let (s2, a2) := feed s1 r in (s2, a1 ++ a2)
  end.

Fixpoint take_task (id : nat) (p : list (nat * task_kind)) : option task_kind * list (nat * task_kind) :=
  match p with
  | [] => (None, [])
  | (i, k) :: p' => if Nat.eqb i id then (Some k, p')
                    else let (r, q) := take_task id p' in (r, (i, k) :: q)
  end.

Definition set_pending (s : st) (p : list (nat * task_kind)) : st :=
  {| buf := buf s; line_rcvd := line_rcvd s; await_titan := await_titan s; titan := titan s;
     content := content s; timer := timer s; tr := tr s; closing := closing s; sent := sent s;
     next_id := next_id s; pending := p |}.

Definition task_done (s0 : st) (id : nat) (o : outcome) : st * list action :=
  match take_task id (pending s0) with
  | (None, _) => (s0, [])
  | (Some k, rest) =>
      let s := set_pending s0 rest in
      match k, o with
      | TMw line, OMw true _ => route s line
      | TMw _, OMw false text => send_rejection s text
      | TMw _, _ => send_error s 40 (lit "Middleware error")
      | THandler _, OResp r => send_response s r
      | THandler _, ORaise m => send_error s 40 (lit "Server error: " ++ m)
      | THandler _, _ => send_error s 40 (lit "Server error: bad result")
      | TTitanMw, OMw true _ => start_upload s
      | TTitanMw, OMw false text => send_rejection s text
      | TTitanMw, _ => send_error s 40 (lit "Middleware error")
      | TUpload, OResp r => send_response s r
      | TUpload, ORaise m => upload_failed s m
      | TUpload, _ => send_error s 40 (lit "Upload error: bad result")
      end
  end.

Definition timeout_line : str := lit "40 Request timeout" ++ crlf.

Definition step (s : st) (e : event) : st * list action :=
  match e with
  | ERead slices => if tr s then feed s slices else (s, [])
  | ETimer =>
      match timer s with
      | TArmed =>
          let s1 := set_timer s TFired in
          if tr s1 && negb (closing s1) && negb (sent s1)
          then ({| buf := buf s1; line_rcvd := line_rcvd s1; await_titan := await_titan s1; titan := titan s1;
                   content := content s1; timer := TFired; tr := tr s1; closing := true; sent := true;
                   next_id := next_id s1; pending := pending s1 |}, [AWrite timeout_line; AClose])
          else (s1, [])
      | _ => (s, [])
      end
  | EDone id o => task_done s id o
  | ELost =>
      if tr s then
        let s1 := cancel_timer s in
        ({| buf := buf s1; line_rcvd := line_rcvd s1; await_titan := await_titan s1; titan := titan s1;
            content := content s1; timer := timer s1; tr := false; closing := closing s1; sent := sent s1;
            next_id := next_id s1; pending := pending s1 |}, [])
      else (s, [])
  end.

(* run a schedule: per event, the actions it caused and whether the timer is still armed after it *)
Fixpoint run (s : st) (evs : list event) : list (list action * bool) :=
  match evs with
  | [] => []
  | e :: r => let (s', a) := step s e in
              (a, match timer s' with TArmed => true | _ => false end) :: run s' r
  end.

Fixpoint final (s : st) (evs : list event) : st :=
  match evs with [] => s | e :: r => final (fst (step s e)) r end.
End Proto.

(* what reaches the peer: the writes issued before the first close *)
Fixpoint wire (acts : list action) : str * bool :=
  match acts with
  | [] => ([], false)
  | AWrite b :: r => let (w, c) := wire r in (b ++ w, c)
  | AClose :: _ => ([], true)
  | _ :: r => wire r
  end.
Close Scope N_scope.
