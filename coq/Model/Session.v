(* Model of client/session.py: one _get_single / upload call = connection, TOFU block,
   deferred send, response wait; and the proxy's use of it (server/proxy.py exception mapping
   composed with the server's response writer) for C18. *)
From Coq Require Import List NArith ZArith Bool.
From NV Require Import Prelude.Str Prelude.Res Prelude.Utf8 Model.Tofu Model.ClientProto Model.ServerProto Spec.C13.
Import ListNotations.
Open Scope N_scope.

(* what an observer of the client's side of the connection sees, in order *)
Inductive sevent := SWrite (b : str) | SVerified (r : session_result).

Definition writes_of (a : list caction) : list sevent :=
  flat_map (fun x => match x with CWrite b => [SWrite b] | _ => [] end) a.

Section Session.
Variable request : list str.
Variable decode_body : bool.
Variable cap : N.
Variable decode_with : str -> str -> option str.

Inductive call_result := CallResult (r : cresult) | CallChanged (old new : str) | CallRefused.

(* chunks / exc: what the peer does after the request was (or was not) sent *)
Definition session_call (tofu : bool) (s : store) (h : str) (p : N) (c : presented) (now : str)
                        (chunks : list str) (exc : option str) : store * call_result * list sevent :=
  if tofu then
    let (c1, a1) := cstep request false decode_body cap decode_with cinit CConnected in
    match tofu_check s h p c now with
    | (s', SAccepted) =>
        let (c2, a2) := cstep request false decode_body cap decode_with c1 CSend in
        let c3 := deliver decode_body cap decode_with c2 chunks exc in
        (s', match cfut c3 with Done r => CallResult r | Pending => CallResult (RErr (lit "pending")) end,
         writes_of a1 ++ [SVerified SAccepted] ++ writes_of a2)
    | (s', SChanged o n) => (s', CallChanged o n, writes_of a1 ++ [SVerified (SChanged o n)])
    | (s', SRefused) => (s', CallRefused, writes_of a1 ++ [SVerified SRefused])
    end
  else
    let (c1, a1) := cstep request true decode_body cap decode_with cinit CConnected in
    let c3 := deliver decode_body cap decode_with c1 chunks exc in
    (s, match cfut c3 with Done r => CallResult r | Pending => CallResult (RErr (lit "pending")) end, writes_of a1).
End Session.

(* ---- reverse proxy relay: upstream behaviour -> bytes sent downstream ---- *)
Inductive upstream := UStream (bytes : str) (exc : option str) | UConnectFail | UTimeout.

Definition proxy_response (cap : N) (u : upstream) : resp :=
  match u with
  | UConnectFail => {| rs_status := 43; rs_meta := lit "Upstream connection failed"; rs_body := BNone |}
  | UTimeout => {| rs_status := 43; rs_meta := lit "Upstream timeout"; rs_body := BNone |}
  | UStream b exc =>
      match spec_result false cap (fun _ _ => None) b exc with
      | ROk r => {| rs_status := Z.of_N (cr_status r); rs_meta := cr_meta r;
                    rs_body := match cr_body r with CBytes x => BBytes x | CText x => BText x | CNone => BNone end |}
      | RErr k => {| rs_status := 43; rs_meta := lit "Proxy error: " ++ k; rs_body := BNone |}
      end
  end.
Definition relay (cap : N) (u : upstream) : str := let (h, b) := serialize (proxy_response cap u) in h ++ b.
Close Scope N_scope.
