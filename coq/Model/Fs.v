(* A small POSIX filesystem model: absolute paths as component lists, regular files, directories
   and symbolic links; posixpath.realpath (non-strict) as CPython 3.12 implements it
   (DESIGN Appendix A.4); urllib.parse.unquote.  Kernel path resolution is NOT modelled
   separately: the handlers only look at paths realpath has produced. *)
From Coq Require Import List NArith Bool.
From NV Require Import Prelude.Str Prelude.Res Prelude.Utf8.
Import ListNotations.
Open Scope N_scope.

Definition path := list str.
Inductive node := File (content : str) | Dir | Link (target : str).
Definition fs := list (path * node).

Fixpoint path_eqb (a b : path) : bool :=
  match a, b with
  | [], [] => true
  | x :: a', y :: b' => eqb x y && path_eqb a' b'
  | _, _ => false
  end.
Fixpoint path_prefixb (p q : path) : bool :=
  match p, q with
  | [], _ => true
  | x :: p', y :: q' => eqb x y && path_prefixb p' q'
  | _ :: _, [] => false
  end.

Fixpoint lstat (f : fs) (p : path) : option node :=
  match f with
  | [] => None
  | (q, n) :: f' => if path_eqb p q then Some n else lstat f' p
  end.

Definition comps (s : str) : list str := split_on ch_slash s.
Definition dot : str := [46].
Definition dotdot : str := [46; 46].

(* RLoopAt q: a symlink loop was met; q is the unresolved join(newpath, rest) Python returns *)
Inductive rp := RPath (p : path) | RLoopAt (q : list str) | RFuel.

(* _joinrealpath: cur = resolved prefix, rest = components still to process,
   visiting = links currently being resolved (the `seen[...] = None` entries) *)
Fixpoint join_real (fuel : nat) (f : fs) (cur : path) (rest : list str) (visiting : list path) : rp :=
  match fuel with
  | O => RFuel
  | S fu =>
    match rest with
    | [] => RPath cur
    | n :: rest' =>
      if match n with [] => true | _ => false end || eqb n dot then join_real fu f cur rest' visiting
      else if eqb n dotdot then join_real fu f (removelast cur) rest' visiting
      else
        let np := cur ++ [n] in
        match lstat f np with
        | Some (Link tgt) =>
            if existsb (path_eqb np) visiting then RLoopAt (np ++ rest')
            else
              let '(start, tc) := match tgt with
                                  | 47 :: t => ([], comps t)
                                  | _ => (cur, comps tgt)
                                  end in
              match join_real fu f start tc (np :: visiting) with
              | RPath p' => join_real fu f p' rest' visiting
              | RLoopAt q => RLoopAt (q ++ rest')
              | RFuel => RFuel
              end
        | _ => join_real fu f np rest' visiting
        end
    end
  end.

Definition realpath_fuel : nat := 4000.
Definition realpath (f : fs) (base : path) (rel : list str) : rp := join_real realpath_fuel f base rel [].

(* abspath/normpath of an absolute component list: "" and "." dropped, ".." pops *)
Fixpoint lexnorm (cs : list str) (acc : path) : path :=
  match cs with
  | [] => acc
  | n :: r =>
      if match n with [] => true | _ => false end || eqb n dot then lexnorm r acc
      else if eqb n dotdot then lexnorm r (removelast acc)
      else lexnorm r (acc ++ [n])
  end.

(* handler.py _resolve_fully: Path.resolve() twice; None = not completely resolvable.
   At a loop Path.resolve() returns the normalised unresolved join unless stat() of it reports
   ELOOP (RuntimeError); the second resolve() must reproduce the path exactly. *)
Inductive rfull := FPath (p : path) | FNone | FFuel.
Definition resolve_fully (f : fs) (base : path) (rel : list str) : rfull :=
  match realpath f base rel with
  | RFuel => FFuel
  | RPath p =>
      match realpath f [] p with
      | RPath q => if path_eqb q p then FPath p else FNone
      | RLoopAt _ => FNone
      | RFuel => FFuel
      end
  | RLoopAt l =>
      let p := lexnorm l [] in
      match realpath f [] p with
      | RPath q => if path_eqb q p then FPath p else FNone
      | RLoopAt _ => FNone
      | RFuel => FFuel
      end
  end.

(* utils/url.py canonical_path_segments(clamp=False) on the split path: None = climbs above the root *)
Fixpoint canon_strict (cs : list str) (acc : list str) : option (list str) :=
  match cs with
  | [] => Some acc
  | n :: r =>
      if match n with [] => true | _ => false end || eqb n dot then canon_strict r acc
      else if eqb n dotdot then match acc with [] => None | _ => canon_strict r (removelast acc) end
      else canon_strict r (acc ++ [n])
  end.

(* children of a directory (direct entries) *)
Definition children (f : fs) (d : path) : list (str * node) :=
  flat_map (fun e => let '(q, n) := e in
                     if Nat.eqb (length q) (S (length d)) && path_prefixb d q
                     then match rev q with x :: _ => [(x, n)] | [] => [] end else []) f.

(* stat() through links, for a child entry of a resolved directory *)
Definition follow (f : fs) (p : path) : option node :=
  match lstat f p with
  | Some (Link _) =>
      match realpath f (removelast p) (match rev p with x :: _ => [x] | [] => [] end) with
      | RPath q => match lstat f q with Some (Link _) => None | o => o end
      | _ => None
      end
  | o => o
  end.

(* ---- urllib.parse.unquote (errors='replace'); undecodable byte runs => OutOfModel ---- *)
Definition hexval (c : N) : N :=
  if is_digit c then c - 48 else if (97 <=? c) && (c <=? 102) then c - 87 else c - 55.
Fixpoint pct_bytes (s : str) : str * str :=      (* decode the leading ASCII run: (bytes, remainder) *)
  match s with
  | [] => ([], [])
  | c :: r =>
      if c <? 128 then
        if c =? 37 then
          match r with
          | h1 :: h2 :: r2 =>
              if is_hexdigit h1 && is_hexdigit h2
              then let (b, rem) := pct_bytes r2 in (hexval h1 * 16 + hexval h2 :: b, rem)
              else let (b, rem) := pct_bytes r in (37 :: b, rem)
          | _ => let (b, rem) := pct_bytes r in (37 :: b, rem)
          end
        else let (b, rem) := pct_bytes r in (c :: b, rem)
      else ([], s)
  end.
Fixpoint unquote_fuel (fuel : nat) (s : str) : res str :=
  match fuel with
  | O => OutOfModel
  | S fu =>
    match s with
    | [] => Ok []
    | c :: r =>
        if c <? 128 then
          let (b, rem) := pct_bytes s in
          match decode b with
          | None => OutOfModel
          | Some t => match unquote_fuel fu rem with Ok u => Ok (t ++ u) | e => e end
          end
        else match unquote_fuel fu r with Ok u => Ok (c :: u) | e => e end
    end
  end.
Definition unquote (s : str) : res str :=
  if mem ch_pct s then unquote_fuel (S (length s)) s else Ok s.
Close Scope N_scope.
