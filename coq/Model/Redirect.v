(* Model of GeminiClient.get / _get_with_redirects (client/session.py).
   _get_single is the Section variable `fetch` (any server behaviour, may depend on the hop
   index); the Python recursion becomes structural recursion on explicit fuel. *)
From Coq Require Import List NArith ZArith Bool.
From NV Require Import Prelude.Str Prelude.Res.
Import ListNotations.

Record response := { r_status : Z; r_meta : str; r_body : str }.

Inductive outcome :=
| Final (r : response)
| Fail (kind : str)
| OutOfFuel.

Definition is_redirect (s : Z) : bool := ((30 <=? s) && (s <? 40))%Z.
Definition gemini_prefix : str := lit "gemini://".

Section Redirect.
Variable fetch : nat -> str -> res response.

(* returns the outcome and the log of URLs handed to _get_single, in order *)
Fixpoint follow (fuel : nat) (max : nat) (url : str) (chain : list str) : outcome * list str :=
  match fuel with
  | O => (OutOfFuel, [])
  | S f =>
    if existsb (eqb url) chain then (Fail (lit "loop"), [])
    else if Nat.ltb max (length chain) then (Fail (lit "too_many"), [])
    else match fetch (length chain) url with
         | Err k _ => (Fail k, [url])
         | OutOfModel => (Fail (lit "oom"), [url])
         | Ok r =>
           if is_redirect (r_status r) then
             match r_meta r with
             | [] => (Fail (lit "missing_url"), [url])
             | target =>
               if negb (prefixb gemini_prefix target) then (Final r, [url])
               else let (o, l) := follow f max target (chain ++ [url]) in (o, url :: l)
             end
           else (Final r, [url])
         end
  end.

(* GeminiClient.get: validate_url is the caller's business (Model/Url.v); here the walk *)
Definition get (follow_redirects : bool) (max : nat) (url : str) : outcome * list str :=
  if follow_redirects then follow (S (S max)) max url []
  else match fetch 0 url with
       | Ok r => (Final r, [url])
       | Err k _ => (Fail k, [url])
       | OutOfModel => (Fail (lit "oom"), [url])
       end.
End Redirect.
