(* Model of AccessControl (server/middleware.py): entry interpretation with the single-address
   fall-backs, membership by netmask, the deny/allow/default decision; and of
   ServerConfig.get_access_control_config + the start_server wiring (config.py, server.py).
   ipaddress.ip_network / ip_address text parsing are oracle arguments. *)
From Coq Require Import List NArith Bool.
From NV Require Import Prelude.Str.
Import ListNotations.
Open Scope N_scope.

Inductive fam := V4 | V6.
Definition fam_eqb (a b : fam) : bool := match a, b with V4, V4 | V6, V6 => true | _, _ => false end.
Definition bits (f : fam) : N := match f with V4 => 32 | V6 => 128 end.
Record addr := { a_fam : fam; a_val : N }.
Record net := { n_fam : fam; n_base : N; n_plen : N }.

(* netmask as ipaddress builds it: ones(plen) << (bits - plen) *)
Definition netmask (n : net) : N := N.shiftl (N.ones (n_plen n)) (bits (n_fam n) - n_plen n).
(* `ip in network`: same version and ip & netmask == network_address *)
Definition contains (n : net) (a : addr) : bool :=
  fam_eqb (n_fam n) (a_fam a) && (N.land (a_val a) (netmask n) =? n_base n).

Record acl := { allow : list net; deny : list net; default_allow : bool }.

(* AccessControl._is_allowed ; None = ip_address() raised ValueError *)
Definition is_allowed (c : acl) (a : option addr) : bool :=
  match a with
  | None => false
  | Some x =>
      if existsb (fun n => contains n x) (deny c) then false
      else match allow c with
           | [] => default_allow c
           | _ => existsb (fun n => contains n x) (allow c)
           end
  end.

Section Entries.
Variable ipnet : str -> option net.     (* ipaddress.ip_network(text), strict *)

(* the three attempts of AccessControl.__init__ ; None = ValueError escapes the constructor *)
Definition parse_entry (s : str) : option net :=
  match ipnet s with
  | Some n => Some n
  | None => match ipnet (s ++ lit "/32") with
            | Some n => Some n
            | None => ipnet (s ++ lit "/128")
            end
  end.

Fixpoint parse_entries (l : list str) : option (list net) :=
  match l with
  | [] => Some []
  | s :: l' => match parse_entry s, parse_entries l' with
               | Some n, Some ns => Some (n :: ns)
               | _, _ => None
               end
  end.

(* ServerConfig fields relevant to access control; lists: None = absent *)
Record sconf := { sc_enabled : bool; sc_allow : option (list str); sc_deny : option (list str); sc_default : bool }.

Definition olist (o : option (list str)) : list str := match o with Some l => l | None => [] end.

(* get_access_control_config: None = no AccessControl component in the chain *)
Definition wants_component (s : sconf) : bool :=
  sc_enabled s && negb (match olist (sc_allow s), olist (sc_deny s) with [], [] => sc_default s | _, _ => false end).

Inductive server_acl := NoComponent | Component (c : acl) | StartupError.

Definition build (s : sconf) : server_acl :=
  if wants_component s then
    match parse_entries (olist (sc_allow s)), parse_entries (olist (sc_deny s)) with
    | Some a, Some d => Component {| allow := a; deny := d; default_allow := sc_default s |}
    | _, _ => StartupError
    end
  else NoComponent.

(* decision of the running server for a peer; None = the server did not start *)
Definition server_admits (s : sconf) (a : option addr) : option bool :=
  match build s with
  | NoComponent => Some true
  | Component c => Some (is_allowed c a)
  | StartupError => None
  end.
End Entries.
Close Scope N_scope.
