(* Model of CertificateAuth (server/middleware.py, after the fix: canonical path) and of
   ServerConfig.get_certificate_auth_config (config.py). *)
From Coq Require Import List NArith ZArith Bool.
From NV Require Import Prelude.Str Prelude.Res Model.Fs.
Import ListNotations.
Open Scope N_scope.

Record rule := { ru_prefix : str; ru_require : bool; ru_allowed : option (list str) }.

(* canonical segments: empty and "." dropped, ".." resolved (never above the root) *)
Fixpoint canon_segs (cs : list str) (acc : list str) : list str :=
  match cs with
  | [] => acc
  | n :: r =>
      if match n with [] => true | _ => false end || eqb n dot then canon_segs r acc
      else if eqb n dotdot then canon_segs r (removelast acc)
      else canon_segs r (acc ++ [n])
  end.
Fixpoint join_slash (l : list str) : str :=
  match l with [] => [] | [x] => x | x :: r => x ++ ch_slash :: join_slash r end.
Definition ends_slash (s : str) : bool := match rev s with c :: _ => c =? ch_slash | [] => false end.

(* _extract_path applied to the URL path component (already extracted by urlparse) *)
Definition canon_path (url_path : str) : res str :=
  match unquote (match url_path with [] => [ch_slash] | p => p end) with
  | Ok p =>
      let segs := canon_segs (comps p) [] in
      Ok (ch_slash :: join_slash segs ++ match segs with [] => [] | _ => if ends_slash p then [ch_slash] else [] end)
  | Err k m => Err k m
  | OutOfModel => OutOfModel
  end.

Definition find_rule (rules : list rule) (loc : str) : option rule := find (fun r => prefixb (ru_prefix r) loc) rules.

(* _candidate_locations: the path as a file, as a directory, and the directory's index files *)
Definition index_names : list str := [lit "index.gmi"; lit "index.gemini"].
Definition rstrip_slashes (s : str) : str := rstrip_by (fun c => c =? ch_slash) s.
Definition candidates (p : str) : list str :=
  let base := rstrip_slashes p in
  (match base with [] => [] | _ => [base] end) ++ [base ++ [ch_slash]] ++ map (fun n => base ++ ch_slash :: n) index_names.

Inductive verdict := Allow | Deny60 | Deny61.
Definition apply_rule (r : option rule) (fp : option str) : verdict :=
  match r with
  | None => Allow
  | Some r =>
      match fp with
      | None => if ru_require r || match ru_allowed r with Some _ => true | None => false end then Deny60 else Allow
      | Some f => match ru_allowed r with
                  | Some l => if existsb (eqb f) l then Allow else Deny61
                  | None => Allow
                  end
      end
  end.
Fixpoint first_denial (rules : list rule) (locs : list str) (fp : option str) : verdict :=
  match locs with
  | [] => Allow
  | l :: r => match apply_rule (find_rule rules l) fp with Allow => first_denial rules r fp | v => v end
  end.
Definition decide (rules : list rule) (url_path : str) (fp : option str) : res verdict :=
  match canon_path url_path with
  | Ok p => Ok (first_denial rules (candidates p) fp)
  | Err k m => Err k m
  | OutOfModel => OutOfModel
  end.

(* TOML entry -> rule : allowed_fingerprints absent = no list, [] = a list admitting nobody *)
Record toml_rule := { tr_prefix : str; tr_require : option bool; tr_allowed : option (list str) }.
Definition rule_of_toml (t : toml_rule) : rule :=
  {| ru_prefix := tr_prefix t; ru_require := match tr_require t with Some b => b | None => false end; ru_allowed := tr_allowed t |}.
Close Scope N_scope.
