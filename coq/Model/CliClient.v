(* Model of the client-side commands of the command line (src/nauyaca/__main__.py): `get` as a wiring layer over
   GeminiClient (Model/Redirect.v is the model of GeminiClient.get), the `tofu` sub-commands as a table of TOFUDatabase calls.
   Proof-free; Equiv/EquivCliClient.v ties it to the definitions regenerated from the source, Proofs/C16_cli.v lifts the C16
   theorems of Props/C16.v through it. *)
From Coq Require Import List NArith ZArith Bool.
From Coq Require QArith.
From NV Require Import Prelude.Str Prelude.Res Model.Redirect Equiv.CliClientGlue.
Import ListNotations.

(* ---------- get ---------- *)
(* the options as typer hands them to the function (option name -> parameter: trusted) *)
Definition get_wiring (url : str) (max_redirects : nat) (no_redirects : bool) (timeout : QArith_base.Q) (verbose : bool)
                      (trust_on_first_use verify_ssl : bool) (client_cert client_key : option str) : get_call :=
  {| gc_timeout := timeout; gc_max_redirects := max_redirects; gc_verify_ssl := verify_ssl;
     gc_trust_on_first_use := trust_on_first_use; gc_client_cert := client_cert; gc_client_key := client_key;
     gc_url := url; gc_follow_redirects := negb no_redirects |}.

(* a certificate without its key (or a key without its certificate): exit status 1 before anything is constructed *)
Definition get_precheck (client_cert client_key : option str) : option N :=
  match client_cert, client_key with
  | Some _, None => Some 1%N
  | None, Some _ => Some 1%N
  | _, _ => None
  end.

(* exit status 0 only for a response whose status is below 40 *)
Definition get_exit (o : cli_outcome) : N :=
  match o with
  | OStatus s => if (40 <=? s)%Z then 1%N else 0%N
  | ORaised _ => 1%N
  end.

(* the whole command: `run` is what constructing the client and awaiting client.get produce for the call the command makes;
   result: the call made (None: the command ended before any) and the exit status *)
Definition get_command (run : get_call -> cli_outcome) (url : str) (max_redirects : nat) (no_redirects : bool) (timeout : QArith_base.Q)
                       (verbose trust_on_first_use verify_ssl : bool) (client_cert client_key : option str) : option get_call * N :=
  match get_precheck client_cert client_key with
  | Some c => (None, c)
  | None => let c := get_wiring url max_redirects no_redirects timeout verbose trust_on_first_use verify_ssl client_cert client_key in
            (Some c, get_exit (run c))
  end.

(* the declared defaults of the options *)
Definition default_max_redirects : nat := 5.
Definition default_no_redirects : bool := false.
Definition default_trust_on_first_use : bool := true.
Definition default_verify_ssl : bool := false.

(* ---------- the command on the model of GeminiClient.get (Model/Redirect.v) ---------- *)
(* how the session's failures reach the command: every label of Redirect.follow / get is an exception *)
Definition outcome_view (o : Redirect.outcome) : cli_outcome :=
  match o with
  | Final r => OStatus (r_status r)
  | Fail k => ORaised k
  | OutOfFuel => ORaised (lit "OutOfFuel")
  end.

(* one run of `nauyaca get url [-r max_redirects] [--no-redirects]` against servers that behave as `fetch`:
   (outcome of the fetch, URLs for which a connection was opened in order, exit status) *)
Definition cli_get (fetch : nat -> str -> res response) (url : str) (max_redirects : nat) (no_redirects : bool)
  : Redirect.outcome * list str * N :=
  let c := get_wiring url max_redirects no_redirects (QArith_base.Qmake 30 1) false true false None None in
  let r := Redirect.get fetch (gc_follow_redirects c) (gc_max_redirects c) (gc_url c) in
  (fst r, snd r, get_exit (outcome_view (fst r))).

(* ---------- the tofu sub-commands ---------- *)
(* inputs after the options: what the user answers to typer.confirm, what the TOFUDatabase calls return (only what the command
   looks at), whether a call inside a `try` raises (Some class) *)
Definition tofu_list (nonempty : bool) : list cmd_call * cli_end := ([DbListHosts], EDone).

Definition tofu_revoke (hostname : str) (port : option N) (force : bool) (revoked : bool) (count : nat) (confirm : bool)
  : list cmd_call * cli_end :=
  match port with
  | Some p => ([DbRevoke hostname p], EDone)
  | None =>
      if Nat.eqb count 0 then ([DbCountByHostname hostname], EDone)
      else if force || confirm then ([DbCountByHostname hostname; DbRevokeByHostname hostname], EDone)
      else ([DbCountByHostname hostname], EAbort)
  end.

Definition tofu_clear (force confirm : bool) : list cmd_call * cli_end :=
  if force || confirm then ([DbClear], EDone) else ([], EAbort).

Definition tofu_info (hostname : str) (port : N) (found : bool) : list cmd_call * cli_end :=
  ([DbGetHostInfo hostname port], if found then EDone else EExit 1).

Definition tofu_export (file : str) (force exists_ : bool) (exc : option str) : list cmd_call * cli_end :=
  if exists_ && negb force then ([], EExit 1)
  else ([DbExportToml file], match exc with None => EDone | Some _ => EExit 1 end).

(* --replace is merge=False; without --force it asks first *)
Definition tofu_import (file : str) (replace force confirm : bool) (exc : option str) : list cmd_call * cli_end :=
  if replace && negb force && negb confirm then ([], EAbort)
  else ([DbImportToml file (negb replace)], match exc with None => EDone | Some _ => EExit 1 end).
(* a conflicting fingerprint is accepted under --force, otherwise when the user says so *)
Definition tofu_import_on_conflict (force answer : bool) : bool := force || answer.

(* trust: a connection of its own with verification off, then the certificate presented is pinned *)
Definition tofu_trust (hostname : str) (port : N) (conn : SessionGlue.conn_outcome) (cert : option str) (exc : option str)
  : list cmd_call * cli_end :=
  match conn with
  | SessionGlue.ConnFail _ => ([CClient false false; CConnect hostname port hostname], EExit 1)
  | SessionGlue.ConnOk =>
      match cert with
      | Some c => ([CClient false false; CConnect hostname port hostname; CPeerCert; DbTrust hostname port c; CCloseTransport],
                   match exc with None => EDone | Some _ => EExit 1 end)
      | None => ([CClient false false; CConnect hostname port hostname; CPeerCert; CCloseTransport], EExit 1)
      end
  end.
