(* Model of server/handler.py: StaticFileHandler.handle and FileUploadHandler.handle_upload /
   _handle_delete over the filesystem model (after the fix: commits).  handle, try_indices and handle_upload are
   the definitions the translated source was proved equal to without hypotheses (Equiv/EquivStatic.v). *)
From Coq Require Import List NArith ZArith Bool.
From NV Require Import Prelude.Str Prelude.Res Prelude.Utf8 Model.Fs Model.Listing.
Import ListNotations.
Open Scope N_scope.

Inductive sout :=
| OServe (p : path) (mime : str) (text : str)   (* 20: the file at resolved path p *)
| OListing (d : path)                           (* 20 text/gemini: listing of resolved directory d *)
| OStatus (st : Z) (meta : str)                 (* non-success with a fixed message *)
| ORaise (kind : str)                           (* an exception escapes handle() *)
| OOom.

Record scfg := { s_root : path; s_indices : list str; s_listing : bool; s_max : N }.

Definition lstrip_slash (s : str) : str := lstrip_by (fun c => c =? ch_slash) s.

(* Path.suffix of the final component, lower-cased *)
Definition suffix_of (name : str) : str :=
  match rbreak_at ch_dot name with
  | Some (a, b) => match a, b with
                   | _ :: _, _ :: _ => lower (ch_dot :: b)
                   | _, _ => []
                   end
  | None => []
  end.
Definition mime_of (p : path) : str :=
  let sfx := suffix_of (match rev p with x :: _ => x | [] => [] end) in
  if eqb sfx (lit ".gmi") || eqb sfx (lit ".gemini") then lit "text/gemini" else lit "text/plain".

(* a component of more than 255 bytes (NAME_MAX) *)
Definition name_too_long (p : path) : bool :=
  existsb (fun n => 255 <? N.of_nat (length (encode_replace n))) p.
(* stat() of the completely resolved path p fails with ENAMETOOLONG - the one error that is_dir() / is_file() / exists()
   do not turn into False: the kernel reports it when it looks the FIRST over-long component up in an existing
   directory; below a missing entry or a regular file the walk has failed before (ENOENT / ENOTDIR: False) *)
Fixpoint enametoolong_from (f : fs) (pre rest : path) : bool :=
  match rest with
  | [] => false
  | n :: r =>
      if 255 <? N.of_nat (length (encode_replace n))
      then match pre with [] => true | _ => match lstat f pre with Some Dir => true | _ => false end end
      else enametoolong_from f (pre ++ [n]) r
  end.
Definition enametoolong (f : fs) (p : path) : bool := enametoolong_from f [] p.
(* the components before the first over-long one *)
Fixpoint short_prefix (p : path) : path :=
  match p with
  | [] => []
  | n :: r => if 255 <? N.of_nat (length (encode_replace n)) then [] else n :: short_prefix r
  end.

Definition serve_file (c : scfg) (f : fs) (p : path) : sout :=
  match lstat f p with
  | Some (File content) =>
      if s_max c <? N.of_nat (length content) then OStatus 50 (lit "File too large - use alternative protocol")
      else match read_text content with
           | Some t => OServe p (mime_of p) t
           | None => OStatus 40 (lit "File encoding error (not UTF-8)")
           end
  | _ => OStatus 51 (lit "Not found")
  end.

(* `d / name` as pathlib joins it (no filesystem access): an absolute right operand replaces d, slashes separate
   components.  The result is not resolved yet: (resolved base, components still to be walked). *)
Definition pjoin (p : path) (s : str) : path * list str :=
  if prefixb [ch_slash] s then ([], comps s) else (p, comps s).

Fixpoint try_indices (c : scfg) (f : fs) (d : path) (idx : list str) : option sout :=
  match idx with
  | [] => None
  | i :: rest =>
      let u := pjoin d i in
      (* an embedded NUL makes resolve() raise ValueError: _resolve_fully answers None, the name is skipped *)
      if existsb (mem 0) (snd u) then try_indices c f d rest else
      match resolve_fully f (fst u) (snd u) with
      | FNone => try_indices c f d rest
      | FFuel => Some OOom
      | FPath ip =>
          if path_prefixb (s_root c) ip then
            (* is_file() does not swallow ENAMETOOLONG: the exception leaves handle() *)
            if enametoolong f ip then Some (ORaise (lit "oserror")) else
            match lstat f ip with
            | Some (File _) => Some (serve_file c f ip)
            | _ => try_indices c f d rest
            end
          else try_indices c f d rest
      end
  end.

(* generate_directory_listing raises exactly when stat() of an entry of d fails (Model/Listing.v: has_broken, with the
   kernel's path resolution; Proofs/C02_listing.v listing_static: OListing d <-> the listing text exists) *)
Definition listing (f : fs) (d : path) : sout :=
  if has_broken f d
  then OStatus 40 (lit "Error generating directory listing")
  else OListing d.

Definition handle (c : scfg) (f : fs) (url_path : str) : sout :=
  match unquote url_path with
  | OutOfModel | Err _ _ => OOom
  | Ok up =>
    match canon_strict (comps up) [] with
    | None => OStatus 51 (lit "Not found")
    | Some segs =>
    if existsb (mem 0) segs then OStatus 51 (lit "Not found") else
    match resolve_fully f (s_root c) segs with
    | FNone => OStatus 51 (lit "Not found")
    | FFuel => OOom
    | FPath fp =>
        if negb (path_prefixb (s_root c) fp) then OStatus 51 (lit "Not found")
        else if enametoolong f fp then ORaise (lit "oserror")
        else match lstat f fp with
             | Some Dir =>
                 match try_indices c f fp (s_indices c) with
                 | Some o => o
                 | None => if s_listing c then listing f fp else OStatus 51 (lit "Not found")
                 end
             | _ => serve_file c f fp
             end
    end
    end
  end.

(* ---------------- uploads ---------------- *)
Record ucfg := { u_root : path; u_max : N; u_types : option (list str); u_tokens : list str; u_delete : bool }.
Record ureq := { q_path : str; q_size : N; q_mime : str; q_token : option str; q_content : str }.

(* storage fault: the write of the temporary file fails after k bytes (None = no fault) *)
Definition fault := option N.

Fixpoint set_node (f : fs) (p : path) (n : node) : fs :=
  match f with
  | [] => [(p, n)]
  | (q, m) :: f' => if path_eqb p q then (q, n) :: f' else (q, m) :: set_node f' p n
  end.
Definition remove_node (f : fs) (p : path) : fs := filter (fun e => negb (path_eqb p (fst e))) f.

(* mkdir(parents=True, exist_ok=True) of d: None = error (a component exists and is not a directory) *)
Fixpoint mkdirs (fuel : nat) (f : fs) (pre : path) (rest : path) : option fs :=
  match fuel with O => None | S fu =>
  match rest with
  | [] => Some f
  | n :: rest' =>
      let p := pre ++ [n] in
      match lstat f p with
      | None => mkdirs fu (f ++ [(p, Dir)]) p rest'
      | Some Dir => mkdirs fu f p rest'
      | Some (Link _) => match follow f p with Some Dir => mkdirs fu f p rest' | _ => None end
      | Some (File _) => None
      end
  end end.

Inductive uout := UResp (st : Z) (meta : str) | URaise (kind : str) | UOom.

Definition token_ok (c : ucfg) (t : option str) : bool :=
  match u_tokens c with
  | [] => true
  | _ => match t with Some (x :: tk) => existsb (eqb (x :: tk)) (u_tokens c) | _ => false end
  end.

Definition resolve_target (c : ucfg) (f : fs) (p : str) : res (option path) :=   (* Ok None = unsafe *)
  match unquote p with
  | OutOfModel | Err _ _ => OutOfModel
  | Ok up =>
      match canon_strict (comps up) [] with
      | None => Ok None
      | Some segs =>
      if existsb (mem 0) segs then Ok None else
      match resolve_fully f (u_root c) segs with
      | FNone => Ok None
      | FFuel => OutOfModel
      | FPath t => if path_prefixb (u_root c) t then Ok (Some t) else Ok None
      end
      end
  end.

(* the temporary file of an upload to t: ".<name>.<tok>.tmp" beside t (tok: the value of secrets.token_hex(8)) *)
Definition path_name (p : path) : str := match rev p with x :: _ => x | [] => [] end.
Definition tmp_name (name tok : str) : str := lit "." ++ name ++ lit "." ++ tok ++ lit ".tmp".
Definition tmp_of (t : path) (tok : str) : path := removelast t ++ [tmp_name (path_name t) tok].

Definition handle_upload (c : ucfg) (f : fs) (r : ureq) (flt : fault) (tok : str) : uout * fs :=
  if negb (token_ok c (q_token r)) then (UResp 60 (lit "Valid authentication token required"), f)
  else if u_max c <? q_size r then (UResp 50 (lit "Upload exceeds maximum size"), f)
  else if match u_types c with Some (t :: ts) => negb (existsb (eqb (q_mime r)) (t :: ts)) | _ => false end
       then (UResp 59 (lit "MIME type not allowed"), f)
  else if q_size r =? 0 then
    (* zero-byte request: delete *)
    if negb (u_delete c) then (UResp 50 (lit "Delete operations are disabled"), f)
    else match resolve_target c f (q_path r) with
         | OutOfModel => (UOom, f)
         | Err k _ => (URaise k, f)
         | Ok None => (UResp 59 (lit "Invalid path"), f)
         | Ok (Some t) =>
             if enametoolong f t then (URaise (lit "oserror"), f) else
             match lstat f t with
             | None => (UResp 51 (lit "Resource not found"), f)
             | Some Dir => (UResp 40 (lit "Delete failed"), f)
             | Some _ => (UResp 20 (lit "text/gemini"), remove_node f t)
             end
         end
  else
    match resolve_target c f (q_path r) with
    | OutOfModel => (UOom, f)
    | Err k _ => (URaise k, f)
    | Ok None => (UResp 59 (lit "Invalid path"), f)
    | Ok (Some t) =>
        (* target.parent.mkdir(parents=True, exist_ok=True): only the PARENT's components can stop it; the directories
           before its first over-long component are created before ENAMETOOLONG is met *)
        match mkdirs (S (length t)) f [] (short_prefix (removelast t)) with
        | None => (UResp 40 (lit "Upload failed"), f)
        | Some f1 =>
            if name_too_long (removelast t) then (UResp 40 (lit "Upload failed"), f1) else
            match t with
            | [] => (UResp 40 (lit "Upload failed"), f1)
            | _ =>
                (* the temporary name must be usable (this covers an over-long last component of t: the directories
                   exist by now) and free (open(.., "xb")); nothing but the directories is left behind *)
                if name_too_long (tmp_of t tok) then (UResp 40 (lit "Upload failed"), f1) else
                match lstat f1 (tmp_of t tok) with
                | Some _ => (UResp 40 (lit "Upload failed"), f1)
                | None =>
                    match flt with
                    | Some _ => (UResp 40 (lit "Upload failed"), f1)  (* temp file written partly, then removed *)
                    | None =>
                        match lstat f1 t with
                        | Some Dir => (UResp 40 (lit "Upload failed"), f1)  (* os.replace onto a directory *)
                        | _ => (UResp 20 (lit "text/gemini"), set_node f1 t (File (q_content r)))
                        end
                    end
                end
            end
        end
    end.
Close Scope N_scope.
