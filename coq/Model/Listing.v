(* Model of content/gemtext.py: the TEXT of a directory listing (generate_directory_listing) and the
   human-readable file size (_format_file_size), over the filesystem model Model/Fs.v.

   listing_text fmt f d base : option str      None = generate_directory_listing raises (StaticFileHandler.handle
                                                turns every exception into status 40 "Error generating directory
                                                listing: ...")
   The function is a composition  render fmt base (entries_view f d):  the only thing it reads from the
   filesystem is, for every direct entry of d, its NAME, whether it is a directory after following links, and - for
   what is not a directory - the size after following links.  No file content is read.

   Domain: d is a real directory (lstat f d = Some Dir), which is what the handler passes (a completely resolved
   path on which is_dir() answered True: Props/C02.v C02_listing_inside).  For a d that is itself a symbolic link to
   a directory the real function produces a listing; the model answers None there (resolving `d/name` through a
   link in the middle of a path is kernel path resolution, which Model/Fs.v does not model).
   is_dir() / stat() of an entry are `kstat` below: the KERNEL's resolution of `d/name` (stat(2)), which differs from
   Fs.follow (posixpath.realpath, then lstat) when a link target continues after something that is not a directory:
   for  lnk -> "file.txt/.."  or  "missing/.."  or  "file.txt/"  realpath answers lexically (the parent, the file) while
   stat() fails with ENOTDIR / ENOENT.  The first version of this model used Fs.follow and was wrong about the code on
   exactly these targets (confirmed on a real tree: the real function raises, status 40); the model was corrected.

   This file is proof-free (definitions only); the theorems are in Proofs/C02_listing.v. *)
From Coq Require Import List NArith Bool.
From NV Require Import Prelude.Str Model.Fs.
Import ListNotations.
Open Scope N_scope.

(* ------------------------------------------------------------------ Python's order on str: by code point *)
Fixpoint str_ltb (a b : str) : bool :=
  match a, b with
  | _, [] => false
  | [], _ :: _ => true
  | x :: a', y :: b' => (x <? y) || ((x =? y) && str_ltb a' b')
  end.
Definition str_leb (a b : str) : bool := negb (str_ltb b a).
(* bool: False < True *)
Definition bool_leb (a b : bool) : bool := if a then b else true.
(* tuples compare lexicographically *)
Definition pair_leb {A B} (la : A -> A -> bool) (lb : B -> B -> bool) (x y : A * B) : bool :=
  if la (fst x) (fst y) then (if la (fst y) (fst x) then lb (snd x) (snd y) else true) else false.

(* sorted(xs, key=k): stable; the keys are computed first.  Here on a list of (key, value) pairs. *)
Fixpoint insert_by {K A} (leb : K -> K -> bool) (x : K * A) (l : list (K * A)) : list (K * A) :=
  match l with
  | [] => [x]
  | y :: r => if leb (fst x) (fst y) then x :: y :: r else y :: insert_by leb x r
  end.
Fixpoint sort_by {K A} (leb : K -> K -> bool) (l : list (K * A)) : list (K * A) :=
  match l with [] => [] | x :: r => insert_by leb x (sort_by leb r) end.

(* ------------------------------------------------------------------ str helpers *)
Fixpoint join_with (sep : str) (l : list str) : str :=        (* sep.join(l) *)
  match l with [] => [] | [x] => x | x :: r => x ++ sep ++ join_with sep r end.
Definition join_lf : list str -> str := join_with [ch_lf].
Definition ends_with_slash (s : str) : bool := suffixb [ch_slash] s.          (* s.endswith("/") *)
Definition ensure_slash (s : str) : str := if ends_with_slash s then s else s ++ [ch_slash].

(* ------------------------------------------------------------------ PurePosixPath (CPython 3.12), on strings *)
(* posixpath.splitroot: exactly two leading slashes are kept as the root "//"; one, or three and more, give "/" *)
Definition pp_splitroot (s : str) : str * str :=
  match s with
  | 47 :: 47 :: 47 :: r => ([ch_slash], 47 :: 47 :: r)
  | 47 :: 47 :: r => ([ch_slash; ch_slash], r)
  | 47 :: r => ([ch_slash], r)
  | _ => ([], s)
  end.
(* PurePosixPath(s): (root, parts); empty components and "." are dropped, ".." is kept *)
Definition pp_parse (s : str) : str * list str :=
  let (root, rel) := pp_splitroot s in
  (root, filter (fun x => negb (match x with [] => true | _ => false end || eqb x dot)) (split_on ch_slash rel)).
(* .parent: a path without parts is its own parent *)
Definition pp_parent (p : str * list str) : str * list str := (fst p, removelast (snd p)).
(* str(): root + "/".join(parts), "." when that is empty *)
Definition pp_str (p : str * list str) : str :=
  match fst p ++ join_with [ch_slash] (snd p) with [] => dot | s => s end.
Definition parent_str (s : str) : str := pp_str (pp_parent (pp_parse s)).      (* str(Path(s).parent) *)

(* ------------------------------------------------------------------ _format_file_size *)
(* float(n) for an int n (round to nearest, ties to even, 53 significant bits), as the integer it denotes; exact below
   2^53.  (n >= 2^1024 raises OverflowError in Python: st_size is a 63-bit quantity, such n are outside the model.) *)
Definition rhe (m e : N) : N :=        (* m / 2^e rounded to the nearest integer, ties to even *)
  let q := N.shiftr m e in
  let r := m - N.shiftl q e in
  let twice := 2 * r in
  let one := N.shiftl 1 e in
  if (one <? twice) || ((twice =? one) && N.odd q) then q + 1 else q.
Definition round53 (n : N) : N :=
  if n <? 2 ^ 53 then n else let sh := N.size n - 53 in N.shiftl (rhe n sh) sh.
(* f"{v:.0f}" and f"{v:.1f}" of the float v = m / 2^e (exactly): correctly rounded, ties to even on the exact value *)
Definition f0 (m e : N) : str := dec (rhe m e).
Definition f1 (m e : N) : str := let q := rhe (10 * m) e in dec (q / 10) ++ [ch_dot] ++ dec (q mod 10).

Definition format_file_size (n : N) : str :=
  if n <? 1024 then dec n ++ lit " B"
  else
    let m := round53 n in          (* the first `/= 1024.0` converts the int to a float; the divisions are exact *)
    if m <? 2 ^ 20 then (if m <? 10 * 2 ^ 10 then f1 m 10 else f0 m 10) ++ lit " KB"
    else if m <? 2 ^ 30 then (if m <? 10 * 2 ^ 20 then f1 m 20 else f0 m 20) ++ lit " MB"
    else if m <? 2 ^ 40 then (if m <? 10 * 2 ^ 30 then f1 m 30 else f0 m 30) ++ lit " GB"
    else f1 m 40 ++ lit " TB".

(* ------------------------------------------------------------------ stat(2): the kernel's path resolution *)
(* Model/Fs.v lists the nodes below some top directory only: a path that is a proper prefix of a listed path and is
   not listed itself is an (ancestor) directory *)
Definition implicit_dir (f : fs) (p : path) : bool :=
  match lstat f p with
  | None => match p with [] => true | _ => existsb (fun e => path_prefixb p (fst e)) f end
  | Some _ => false
  end.
Definition k_is_dir (f : fs) (p : path) : bool :=
  match lstat f p with Some Dir => true | Some _ => false | None => implicit_dir f p end.
(* MAXSYMLINKS: at most 40 links are followed in one resolution, then ELOOP *)
Definition max_symlinks : nat := 40.
(* kwalk fuel f links cur rest: walk the components `rest` from the directory cur, following every link (the last one
   too); links = how many may still be followed.  Some (p, links') = the existing object reached; None = ENOENT,
   ENOTDIR or ELOOP.  "" and "." stay, ".." goes up (the root is its own parent); anything after a regular file -
   even "." or the empty component a trailing slash leaves - is ENOTDIR. *)
Fixpoint kwalk (fuel : nat) (f : fs) (links : nat) (cur : path) (rest : list str) : option (path * nat) :=
  match fuel with
  | O => None
  | S fu =>
    match rest with
    | [] => Some (cur, links)
    | n :: rest' =>
      if match n with [] => true | _ => false end || eqb n dot then kwalk fu f links cur rest'
      else if eqb n dotdot then kwalk fu f links (removelast cur) rest'
      else
        let np := cur ++ [n] in
        match lstat f np with
        | None => if implicit_dir f np then kwalk fu f links np rest' else None
        | Some Dir => kwalk fu f links np rest'
        | Some (File _) => match rest' with [] => Some (np, links) | _ => None end
        | Some (Link tgt) =>
            match links with
            | O => None
            | S links1 =>
                let '(start, tc) := match tgt with
                                    | 47 :: t => ([], comps t)
                                    | _ => (cur, comps tgt)
                                    end in
                match kwalk fu f links1 start tc with
                | Some (p, links2) =>
                    match rest' with
                    | [] => Some (p, links2)
                    | _ => if k_is_dir f p then kwalk fu f links2 p rest' else None
                    end
                | None => None
                end
            end
        end
    end
  end.
Definition kwalk_fuel : nat := 4000.
(* stat() of p = parent/name, an entry of a real directory (or that directory itself): what it finds, or None when
   stat() fails.  Only a symbolic link needs the walk. *)
Definition kstat (f : fs) (p : path) : option node :=
  match lstat f p with
  | Some (Link _) =>
      match kwalk kwalk_fuel f max_symlinks (removelast p) (match rev p with x :: _ => [x] | [] => [] end) with
      | Some (q, _) => match lstat f q with
                       | Some (Link _) => None
                       | Some n => Some n
                       | None => if implicit_dir f q then Some Dir else None
                       end
      | None => None
      end
  | o => o
  end.

(* ------------------------------------------------------------------ what a listing looks at *)
Inductive ent :=
| EDir                 (* is_dir() is True (after following links) *)
| EFile (size : N)     (* not a directory; stat().st_size (after following links) *)
| EBroken.             (* is_dir() is False or raises, and stat() raises: dangling link, loop, ... *)
Definition ent_of (o : option node) : ent :=
  match o with
  | Some Dir => EDir
  | Some (File c) => EFile (N.of_nat (length c))
  | _ => EBroken
  end.
Definition ent_is_dir (e : ent) : bool := match e with EDir => true | _ => false end.

(* the direct entries of the real directory d: (name, what following the entry finds) *)
Definition entries_view (f : fs) (d : path) : option (list (str * ent)) :=
  match lstat f d with
  | Some Dir => Some (map (fun ch => (fst ch, ent_of (kstat f (d ++ [fst ch])))) (children f d))
  | _ => None
  end.

(* ------------------------------------------------------------------ the text *)
(* sort key of an entry: (not is_dir, name) *)
Definition key_of (x : str * ent) : bool * str := (negb (ent_is_dir (snd x)), fst x).
Definition key_leb : bool * str -> bool * str -> bool := pair_leb bool_leb str_leb.
Definition sorted_entries (es : list (str * ent)) : list (str * ent) :=
  map snd (sort_by key_leb (map (fun x => (key_of x, x)) es)).

Definition link_prefix : str := lit "=> ".
(* base: already ending in "/" *)
Definition entry_line (fmt : N -> str) (base : str) (x : str * ent) : option str :=
  let name := fst x in
  match snd x with
  | EDir => Some (link_prefix ++ ((base ++ name) ++ [ch_slash]) ++ [ch_space] ++ name ++ [ch_slash])
  | EFile sz => Some (link_prefix ++ (base ++ name) ++ [ch_space] ++ name ++ lit " (" ++ fmt sz ++ lit ")")
  | EBroken => None
  end.
Fixpoint entry_lines (fmt : N -> str) (base : str) (l : list (str * ent)) : option (list str) :=
  match l with
  | [] => Some []
  | x :: r => match entry_line fmt base x with
              | Some ln => match entry_lines fmt base r with Some lns => Some (ln :: lns) | None => None end
              | None => None
              end
  end.
Definition header_line (base : str) : str := lit "# Index of " ++ base.
Definition parent_line (base : str) : str := link_prefix ++ ensure_slash (parent_str base) ++ lit " ..".
Definition empty_line : str := lit "(empty directory)".
Definition head_lines (base : str) : list str :=
  [header_line base; []] ++ (if eqb base [ch_slash] then [] else [parent_line base; []]).

Definition render (fmt : N -> str) (base0 : str) (v : option (list (str * ent))) : option str :=
  match v with
  | None => None                                    (* ValueError: not a directory *)
  | Some es =>
      let base := ensure_slash base0 in
      (* the keys are computed (is_dir() of every entry) before anything else *)
      match sorted_entries es with
      | [] => Some (join_lf (head_lines base ++ [empty_line]))
      | s => match entry_lines fmt base s with
             | Some lns => Some (join_lf (head_lines base ++ lns))
             | None => None
             end
      end
  end.

Definition listing_text (fmt : N -> str) (f : fs) (d : path) (base : str) : option str :=
  render fmt base (entries_view f d).

(* the listing of a real directory fails exactly when stat() of one of its entries fails (Proofs/C02_listing.v) *)
Definition has_broken (f : fs) (d : path) : bool :=
  existsb (fun ch => match kstat f (d ++ [fst ch]) with None => true | Some _ => false end) (children f d).
Close Scope N_scope.
