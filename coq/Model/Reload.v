(* `nauyaca serve --reload ...`: the parent does not start a server.  It filters the reload flags out of sys.argv[2:]
   (src/nauyaca/__main__.py, the `if reload:` branch of `serve`) and the supervisor
   (src/nauyaca/server/reload/supervisor.py, Supervisor._build_command) starts `python -m nauyaca serve <rest>` as a child.
   This file is the executable model of that path, written as the code is: a loop over the arguments with the
   `skip_next` flag.  It is the CODE's behaviour that is modelled - the filter does not know which arguments are option
   values (see the examples in Proofs/C09_reload.v).  Proof-free; the theorems are in Proofs/C09_reload.v, the tie to
   the source in Equiv/EquivReload.v. *)
From Coq Require Import List NArith Bool.
From NV Require Import Prelude.Str.
Import ListNotations.
Open Scope list_scope.

Definition f_reload : str := lit "--reload".
Definition f_dir : str := lit "--reload-dir".
Definition f_dir_eq : str := lit "--reload-dir=".
Definition f_ext : str := lit "--reload-ext".
Definition f_ext_eq : str := lit "--reload-ext=".

(* the five forms the loop recognises; the two `=` forms are tested with str.startswith *)
Definition reloadish (a : str) : bool :=
  eqb a f_reload || eqb a f_dir || prefixb f_dir_eq a || eqb a f_ext || prefixb f_ext_eq a.
(* the two forms after which the NEXT argument is dropped, whatever it is *)
Definition takes_value (a : str) : bool := eqb a f_dir || eqb a f_ext.

(* one iteration of `for arg in sys.argv[2:]` over the state (skip_next, what has been appended so far) *)
Definition strip_step (st : bool * list str) (arg : str) : bool * list str :=
  let '(skip_next, acc) := st in
  if skip_next then (false, acc)
  else if eqb arg f_reload then (false, acc)
  else if eqb arg f_dir then (true, acc)
  else if prefixb f_dir_eq arg then (false, acc)
  else if eqb arg f_ext then (true, acc)
  else if prefixb f_ext_eq arg then (false, acc)
  else (false, acc ++ [arg]).

Definition strip_state (l : list str) : bool * list str := fold_left strip_step l (false, []).
(* what the loop appends to ["serve"] *)
Definition strip_reload (l : list str) : list str := snd (strip_state l).
(* the loop is in skip state after l: l ends in a `--reload-dir` / `--reload-ext` whose value has not been seen *)
Definition dangling (l : list str) : bool := fst (strip_state l).

(* server_args as `serve` hands it to run_with_reload, from sys.argv[2:] *)
Definition server_args (argv_tail : list str) : list str := lit "serve" :: strip_reload argv_tail.

(* Supervisor._build_command: [sys.executable, "-m", "nauyaca"] extended by server_args *)
Definition child_command (exe : str) (server_args : list str) : list str :=
  exe :: lit "-m" :: lit "nauyaca" :: server_args.

(* the child's argv for a parent started as `<exe> -m nauyaca serve <argv_tail>` with --reload among argv_tail *)
Definition child_argv (exe : str) (argv_tail : list str) : list str := child_command exe (server_args argv_tail).
