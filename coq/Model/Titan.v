(* Model of protocol/request.py: GeminiRequest.from_line, TitanRequest.from_line,
   _parse_titan_params, TitanRequest.normalized_url; Python int() on the size parameter. *)
From Coq Require Import List NArith ZArith Bool.
From NV Require Import Prelude.Str Prelude.Res Prelude.Utf8 Model.Url.
Import ListNotations.
Open Scope N_scope.

(* str.isspace() code points (Python 3.12 / Unicode 15) *)
Definition is_uspace (c : N) : bool :=
  ((9 <=? c) && (c <=? 13)) || ((28 <=? c) && (c <=? 32)) || (c =? 133) || (c =? 160) || (c =? 5760) ||
  ((8192 <=? c) && (c <=? 8202)) || (c =? 8232) || (c =? 8233) || (c =? 8239) || (c =? 8287) || (c =? 12288).
Definition ustrip (s : str) : str := strip_by is_uspace s.

(* int(s) for ASCII input: optional sign, decimal digits, single underscores between digits;
   surrounding whitespace already removed by the caller's strip().  Non-ASCII => OutOfModel
   (int() also accepts other Unicode decimal digits). *)
Fixpoint int_digits (s : str) (acc : N) (prev_digit : bool) : option N :=
  match s with
  | [] => if prev_digit then Some acc else None
  | c :: s' =>
      if is_digit c then int_digits s' (acc * 10 + (c - 48)) true
      else if (c =? 95) && prev_digit then
        match s' with
        | d :: _ => if is_digit d then int_digits s' acc false else None
        | [] => None
        end
      else None
  end.
Definition py_int (s0 : str) : res Z :=
  if negb (all_ascii s0) then OutOfModel else
  let s := strip_by is_py_space s0 in
  let '(neg, body) := match s with
                      | 45 :: r => (true, r)
                      | 43 :: r => (false, r)
                      | _ => (false, s)
                      end in
  match int_digits body 0 false with
  | Some n => Ok (if neg then Z.opp (Z.of_N n) else Z.of_N n)
  | None => Err (lit "int") s0
  end.

(* dict built by _parse_titan_params: later duplicates overwrite earlier ones *)
Definition params := list (str * str).
Fixpoint set_param (k v : str) (p : params) : params :=
  match p with
  | [] => [(k, v)]
  | (k', v') :: p' => if eqb k k' then (k, v) :: p' else (k', v') :: set_param k v p'
  end.
Fixpoint get_param (k : str) (p : params) : option str :=
  match p with
  | [] => None
  | (k', v) :: p' => if eqb k k' then Some v else get_param k p'
  end.
Definition parse_params (s : str) : params :=
  fold_left (fun acc part =>
               match break_at ch_eq part with
               | Some (k, v) => set_param (ustrip k) (ustrip v) acc
               | None => acc
               end) (split_on ch_semi s) [].

Record treq := { t_line : str; t_host : str; t_port : N; t_path : str; t_query : str;
                 t_size : N; t_mime : str; t_token : option str }.

Section WithOracle.
Variable ip6_check : str -> option str.

(* validate_url + parse_url *)
Definition gemini_from_line (line : str) : res parsed :=
  match encode line with
  | None => OutOfModel   (* request lines are produced by a strict UTF-8 decode: cannot happen *)
  | Some b =>
      if 1024 <? N.of_nat (length b) + 2
      then Err (lit "too_long") (lit "URL too long")
      else parse_url ip6_check line
  end.

Definition titan_prefix : str := lit "titan://".

Definition titan_from_line (line : str) : res treq :=
  if negb (prefixb titan_prefix line) then Err (lit "titan") (lit "Titan URL must start with titan://") else
  match break_at ch_semi line with
  | None => Err (lit "titan") (lit "Titan URL must contain parameters (;size=...)")
  | Some (url_part, params_str) =>
      let ps := parse_params params_str in
      match get_param (lit "size") ps with
      | None => Err (lit "titan") (lit "Titan URL must contain size parameter")
      | Some sz =>
          match py_int sz with
          | OutOfModel => OutOfModel
          | Err _ _ => Err (lit "titan") (lit "Invalid size parameter: " ++ sz)
          | Ok z =>
              if (z <? 0)%Z then Err (lit "titan") (lit "Size must be non-negative: " ++ str_of_Z z) else
              do p <- parse_url ip6_check (lit "gemini://" ++ drop 8 url_part) ;;
              Ok {| t_line := line; t_host := p_host p; t_port := p_port p; t_path := p_path p;
                    t_query := p_query p; t_size := Z.to_N z;
                    t_mime := match get_param (lit "mime") ps with Some m => m | None => lit "text/gemini" end;
                    t_token := get_param (lit "token") ps |}
          end
      end
  end.

(* TitanRequest.normalized_url *)
Definition titan_normalized (t : treq) : str :=
  let base := match break_at ch_semi (t_line t) with Some (a, _) => a | None => t_line t end in
  base ++ lit ";size=" ++ dec (t_size t) ++ lit ";mime=" ++ t_mime t ++
  match t_token t with Some (c :: tk) => lit ";token=" ++ (c :: tk) | _ => [] end.
End WithOracle.
Close Scope N_scope.
