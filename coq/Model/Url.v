(* Model of nauyaca/utils/url.py (parse_url, validate_url, normalize_url) on top of a
   re-statement of CPython 3.12 urllib.parse.urlsplit / urlunsplit and the netloc
   accessors (DESIGN Appendix A.1/A.2).  Proof-free; strings are code-point lists.
   The IPv6-literal check (ipaddress.ip_address) is an oracle argument. *)
From Coq Require Import List NArith Bool.
From NV Require Import Prelude.Str Prelude.Res Prelude.Repr.
Import ListNotations.
Open Scope N_scope.

Fixpoint span_until (p : N -> bool) (s : str) : str * str :=
  match s with
  | [] => ([], [])
  | x :: s' => if p x then ([], s) else let (a, b) := span_until p s' in (x :: a, b)
  end.

Definition is_c0_or_space (c : N) : bool := c <=? 32.
Definition is_unsafe (c : N) : bool := (c =? 9) || (c =? 10) || (c =? 13).
Definition is_scheme_char (c : N) : bool :=
  is_alpha c || is_digit c || (c =? 43) || (c =? 45) || (c =? 46).
Definition is_netloc_delim (c : N) : bool := (c =? 47) || (c =? 63) || (c =? 35).

Definition clean_url (u : str) : str := remove_chars is_unsafe (lstrip_by is_c0_or_space u).

Definition split_scheme (u : str) : str * str :=
  match break_at ch_colon u with
  | Some (c0 :: a, b) =>
      if is_alpha c0 && forallb is_scheme_char (c0 :: a) then (lower (c0 :: a), b) else ([], u)
  | _ => ([], u)
  end.

(* \Av[a-fA-F0-9]+\..+\Z  (no LF can occur: removed by clean_url) *)
Definition ipvfuture_ok (h : str) : bool :=
  match h with
  | 118 :: r =>
      match span_until (fun c => negb (is_hexdigit c)) r with
      | (_ :: _, 46 :: _ :: _) => true
      | _ => false
      end
  | _ => false
  end.

Record split_t := { u_scheme : str; u_netloc : str; u_path : str; u_query : str; u_fragment : str }.

Section WithOracle.
(* ipaddress.ip_address(h): None = accepted as an IPv6 address; Some msg = the ValueError text
   (not an address at all, or an IPv4 address inside brackets) *)
Variable ip6_check : str -> option str.

Definition check_brackets (netloc : str) : option str :=
  let hasL := mem ch_lbr netloc in
  let hasR := mem ch_rbr netloc in
  if xorb hasL hasR then Some (lit "Invalid IPv6 URL")
  else if hasL then
    let '(_, _, after) := partition ch_lbr netloc in
    let '(bh, _, _) := partition ch_rbr after in
    if prefixb [118] bh then
      (if ipvfuture_ok bh then None else Some (lit "IPvFuture address is invalid"))
    else ip6_check bh
  else None.

Definition urlsplit (u0 : str) : res split_t :=
  let u := clean_url u0 in
  let (scheme, u1) := split_scheme u in
  let '(netloc, u2) :=
    if prefixb [47; 47] u1 then span_until is_netloc_delim (drop 2 u1) else ([], u1) in
  if negb (all_ascii netloc) then OutOfModel else
  match check_brackets netloc with
  | Some m => Err (lit "urlsplit") m
  | None =>
      let '(u3, frag) := match break_at ch_hash u2 with Some (a, b) => (a, b) | None => (u2, []) end in
      let '(path, query) := match break_at ch_qm u3 with Some (a, b) => (a, b) | None => (u3, []) end in
      Ok {| u_scheme := scheme; u_netloc := netloc; u_path := path; u_query := query; u_fragment := frag |}
  end.

(* _userinfo : (username, password), None when absent *)
Definition userinfo (netloc : str) : option str * option str :=
  match rpartition ch_at netloc with
  | (ui, true, _) =>
      match partition ch_colon ui with
      | (un, true, pw) => (Some un, Some pw)
      | (un, false, _) => (Some un, None)
      end
  | _ => (None, None)
  end.

(* _hostinfo : (hostname text, port text) *)
Definition hostinfo (netloc : str) : str * str :=
  let '(_, _, hi) := rpartition ch_at netloc in
  match partition ch_lbr hi with
  | (_, true, bracketed) =>
      let '(h, _, p) := partition ch_rbr bracketed in
      let '(_, _, p') := partition ch_colon p in (h, p')
  | (_, false, _) =>
      let '(h, _, p) := partition ch_colon hi in (h, p)
  end.

Definition lower_host (h : str) : str :=
  match partition ch_pct h with
  | (a, true, z) => lower a ++ ch_pct :: z
  | (a, false, _) => lower a
  end.

Definition hostname (netloc : str) : option str :=
  match fst (hostinfo netloc) with
  | [] => None
  | h => Some (lower_host h)
  end.

Definition port (netloc : str) : res (option N) :=
  match snd (hostinfo netloc) with
  | [] => Ok None
  | p => match undec p with
         | Some n => if n <=? 65535 then Ok (Some n)
                     else Err (lit "port") (lit "Port out of range 0-65535")
         | None => Err (lit "port") (lit "Port could not be cast to integer value as " ++ py_repr p)
         end
  end.

Definition truthy (o : option str) : bool :=
  match o with Some (_ :: _) => true | _ => false end.

(* urlunsplit for scheme "gemini" (not in uses_netloc) with a non-empty netloc and no fragment *)
Definition urlunsplit_gemini (netloc path query : str) : str :=
  let path' := match path with [] => [] | c :: _ => if c =? ch_slash then path else ch_slash :: path end in
  lit "gemini:" ++ lit "//" ++ netloc ++ path' ++
  match query with [] => [] | _ => ch_qm :: query end.

Record parsed := { p_host : str; p_port : N; p_path : str; p_query : str; p_norm : str }.

Definition gemini_s : str := lit "gemini".

Definition parse_url (u : str) : res parsed :=
  match u with
  | [] => Err (lit "empty") (lit "URL cannot be empty")
  | _ =>
    do sp <- urlsplit u ;;
    match u_scheme sp with
    | [] => Err (lit "no_scheme") (lit "URL missing scheme: " ++ u)
    | sch =>
      if negb (eqb sch gemini_s)
      then Err (lit "bad_scheme") (lit "Invalid scheme '" ++ sch ++ lit "': expected 'gemini'")
      else
      match hostname (u_netloc sp) with
      | None => Err (lit "no_host") (lit "URL missing hostname: " ++ u)
      | Some h =>
        let (un, pw) := userinfo (u_netloc sp) in
        if truthy un || truthy pw
        then Err (lit "userinfo") (lit "URL must not contain userinfo (user:password): " ++ u)
        else match u_fragment sp with
        | _ :: _ => Err (lit "fragment") (lit "URL must not contain fragment: " ++ u)
        | [] =>
          do po <- port (u_netloc sp) ;;
          let prt := match po with Some n => n | None => 1965 end in
          let path := match u_path sp with [] => [ch_slash] | p => p end in
          let host := if mem ch_lbr (u_netloc sp) then ch_lbr :: h ++ [ch_rbr] else h in
          let netloc' := if prt =? 1965 then host else host ++ ch_colon :: dec prt in
          Ok {| p_host := h; p_port := prt; p_path := path; p_query := u_query sp;
                p_norm := urlunsplit_gemini netloc' path (u_query sp) |}
        end
      end
    end
  end.

End WithOracle.
Close Scope N_scope.
