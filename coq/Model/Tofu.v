(* Model of security/tofu.py (TOFUDatabase over SQLite) and of the TOFU block of
   client/session.py (_get_single / upload).  DESIGN Appendix D.4, after the fix: commits.
   SQLite is modelled by its documented transaction semantics: statements act on a working
   copy; COMMIT publishes it; a crash or a closed connection discards it. *)
From Coq Require Import List NArith ZArith Bool.
From NV Require Import Prelude.Str Prelude.Res.
Import ListNotations.
Open Scope N_scope.

Record row := { r_host : str; r_port : N; r_fp : str; r_first : str }.   (* last_seen is not modelled *)
Definition store := list row.      (* primary key (host, port): at most one row per key *)

Definition key_eqb (h : str) (p : N) (r : row) : bool := eqb h (r_host r) && (p =? r_port r).
Definition lookup (s : store) (h : str) (p : N) : option row := find (key_eqb h p) s.
Definition delete (s : store) (h : str) (p : N) : store := filter (fun r => negb (key_eqb h p r)) s.
Definition upsert_fp (s : store) (h : str) (p : N) (fp : str) : store :=
  map (fun r => if key_eqb h p r then {| r_host := r_host r; r_port := r_port r; r_fp := fp; r_first := r_first r |} else r) s.

(* ---- statements and transactions ---- *)
Inductive stmt :=
| SInsert (r : row)                    (* fails (IntegrityError) if the key exists *)
| SUpdateFp (h : str) (p : N) (fp : str)
| STouch (h : str) (p : N)             (* UPDATE last_seen only: no modelled effect *)
| SDelete (h : str) (p : N)
| SDeleteHost (h : str)
| SDeleteAll
| SCommit.

Definition exec (working : store) (st : stmt) : option store :=
  match st with
  | SInsert r => match lookup working (r_host r) (r_port r) with Some _ => None | None => Some (working ++ [r]) end
  | SUpdateFp h p fp => Some (upsert_fp working h p fp)
  | STouch _ _ => Some working
  | SDelete h p => Some (delete working h p)
  | SDeleteHost h => Some (filter (fun r => negb (eqb h (r_host r))) working)
  | SDeleteAll => Some []
  | SCommit => Some working
  end.

(* run a statement list on (committed, working); stop after k statements (crash) ; the
   visible state after a crash or an error is the committed one *)
Fixpoint run_stmts (committed working : store) (l : list stmt) (k : nat) : store * store * bool :=
  match k, l with
  | O, _ => (committed, working, true)
  | _, [] => (committed, working, true)
  | S k', st :: l' =>
      match exec working st with
      | None => (committed, committed, false)             (* error: connection closed, rollback *)
      | Some w => match st with
                  | SCommit => run_stmts w w l' k'
                  | _ => run_stmts committed w l' k'
                  end
      end
  end.
Definition after_crash (s : store) (l : list stmt) (k : nat) : store := fst (fst (run_stmts s s l k)).

(* ---- operations ---- *)
Definition trust_stmts (s : store) (h : str) (p : N) (fp now : str) : list stmt :=
  match lookup s h p with
  | None => [SInsert {| r_host := h; r_port := p; r_fp := fp; r_first := now |}; SCommit]
  | Some _ => [SUpdateFp h p fp; SCommit]
  end.

Inductive verdict := VFirstUse | VMatch | VChanged (old : str).
Definition verify (s : store) (h : str) (p : N) (fp : str) : verdict * list stmt :=
  match lookup s h p with
  | None => (VFirstUse, [])
  | Some r => if eqb (r_fp r) fp then (VMatch, [STouch h p; SCommit]) else (VChanged (r_fp r), [])
  end.

(* import: entries in file order; validation failures abort (nothing committed) *)
Record entry := { e_host : str; e_port : Z; e_port_is_int : bool; e_fp : str; e_first : str; e_complete : bool }.
Inductive cb_result := CbUpdate | CbSkip | CbRaise.

(* [0-9a-f]{64} after "sha256:", on the lower-cased text *)
Definition fp_strict (fp : str) : bool :=
  let l := lower fp in
  prefixb (lit "sha256:") l && (length (drop 7 l) =? 64)%nat && forallb (fun c => is_digit c || ((97 <=? c) && (c <=? 102))) (drop 7 l).
Definition ends_lf (s : str) : bool := match rev s with c :: _ => c =? 10 | [] => false end.
(* _validate_fingerprint: re.match(r"^sha256:[0-9a-f]{64}$", fp.lower()) - the `$` of re.match also matches before a final
   line feed, so the code accepts a well-formed fingerprint followed by one "\n" (found by the Gen = Model proof of
   Equiv/EquivTofu.v; no listed property depends on the exact format, the model follows the code) *)
Definition fp_valid (fp : str) : bool := fp_strict fp || (ends_lf fp && fp_strict (removelast fp)).

Section Import.
Variable on_conflict : option (str -> N -> str -> str -> cb_result).

(* returns the statements executed so far and whether the import raised *)
Fixpoint import_loop (working : store) (es : list entry) (acc : list stmt) : list stmt * bool :=
  match es with
  | [] => (acc ++ [SCommit], true)
  | e :: es' =>
      if negb (e_complete e) then (acc, false)
      else if negb (e_port_is_int e) || (e_port e <? 1)%Z || (65535 <? e_port e)%Z then (acc, false)
      else if negb (fp_valid (e_fp e)) then (acc, false)
      else
        let p := Z.to_N (e_port e) in
        match lookup working (e_host e) p with
        | None =>
            let r := {| r_host := e_host e; r_port := p; r_fp := e_fp e; r_first := e_first e |} in
            import_loop (working ++ [r]) es' (acc ++ [SInsert r])
        | Some r =>
            if eqb (r_fp r) (e_fp e) then import_loop working es' acc
            else match on_conflict with
                 | None => import_loop working es' acc
                 | Some cb =>
                     match cb (e_host e) p (r_fp r) (e_fp e) with
                     | CbRaise => (acc, false)
                     | CbSkip => import_loop working es' acc
                     | CbUpdate => import_loop (upsert_fp working (e_host e) p (e_fp e)) es' (acc ++ [SUpdateFp (e_host e) p (e_fp e)])
                     end
                 end
        end
  end.

Definition import_stmts (s : store) (merge : bool) (es : list entry) : list stmt * bool :=
  if merge then import_loop s es [] else import_loop [] es [SDeleteAll].
End Import.

(* the state an operation leaves when it runs to completion (or raises: rollback) *)
Definition finish (s : store) (l : list stmt) (ok : bool) : store :=
  if ok then after_crash s l (length l) else s.

(* ---- export ---- *)
Definition export_key (r : row) : str := r_host r ++ ch_colon :: dec (r_port r).
Definition export_entries (s : store) : list (str * entry) :=
  map (fun r => (export_key r, {| e_host := r_host r; e_port := Z.of_N (r_port r); e_port_is_int := true;
                                  e_fp := r_fp r; e_first := r_first r; e_complete := true |})) s.

(* ---- the TOFU block of the session ---- *)
Inductive presented := PCert (fp : str) | PUnreadable.
Inductive session_result :=
| SAccepted                 (* verification passed: the request is sent and the response awaited *)
| SChanged (old new : str)  (* CertificateChangedError *)
| SRefused.                 (* certificate could not be read *)

Definition tofu_check (s : store) (h : str) (p : N) (c : presented) (now : str) : store * session_result :=
  match c with
  | PUnreadable => (s, SRefused)
  | PCert fp =>
      match verify s h p fp with
      | (VChanged old, _) => (s, SChanged old fp)
      | (VMatch, _) => (s, SAccepted)
      | (VFirstUse, _) => (finish s (trust_stmts s h p fp now) true, SAccepted)
      end
  end.
Close Scope N_scope.
