(* Model of TokenBucket.consume, RateLimiter.process_request and the clean-up pass of
   RateLimiter._cleanup_loop (server/middleware.py) over exact rationals.
   float arithmetic is NOT modelled (trusted base: correspondence runs on a dyadic grid). *)
From Coq Require Import List NArith QArith Bool.
From NV Require Import Prelude.Str.
Import ListNotations.
Open Scope Q_scope.

Record bucket := { tokens : Q; last : Q }.
Record cfg := { cap : Q; rate : Q }.

Definition Qmin' (a b : Q) : Q := if Qle_bool a b then a else b.

Definition refill (c : cfg) (now : Q) (b : bucket) : Q :=
  Qmin' (cap c) (tokens b + (now - last b) * rate c).

Definition consume (c : cfg) (now : Q) (b : bucket) : bool * bucket :=
  let t := refill c now b in
  if Qle_bool 1 t then (true, {| tokens := t - 1; last := now |})
  else (false, {| tokens := t; last := now |}).

Definition state := list (str * bucket).

Fixpoint lookup (ip : str) (st : state) : option bucket :=
  match st with
  | [] => None
  | (k, b) :: st' => if eqb ip k then Some b else lookup ip st'
  end.
Fixpoint update (ip : str) (b : bucket) (st : state) : state :=
  match st with
  | [] => [(ip, b)]
  | (k, b') :: st' => if eqb ip k then (k, b) :: st' else (k, b') :: update ip b st'
  end.

Definition process (c : cfg) (st : state) (now : Q) (ip : str) : bool * state :=
  let b := match lookup ip st with Some b => b | None => {| tokens := cap c; last := now |} end in
  let (ok, b') := consume c now b in (ok, update ip b' st).

(* eviction predicate of the clean-up pass: idle for more than 600 s AND refilled to capacity *)
Definition evictable (c : cfg) (now : Q) (b : bucket) : bool :=
  negb (Qle_bool (now - last b) 600) && Qle_bool (cap c) (tokens b + (now - last b) * rate c).

Definition cleanup (c : cfg) (st : state) (now : Q) : state :=
  filter (fun kb => negb (evictable c now (snd kb))) st.

Inductive event := Req (t : Q) (ip : str) | Cleanup (t : Q).
Definition ev_time (e : event) : Q := match e with Req t _ => t | Cleanup t => t end.

(* run a history; the decision log lists (time, ip, admitted) for every request *)
Fixpoint run (c : cfg) (st : state) (h : list event) : list (Q * str * bool) :=
  match h with
  | [] => []
  | Req t ip :: h' => let (ok, st') := process c st t ip in (t, ip, ok) :: run c st' h'
  | Cleanup t :: h' => run c (cleanup c st t) h'
  end.
Close Scope Q_scope.
