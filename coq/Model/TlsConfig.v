(* Model of TLS-context construction (security/tls.py, security/pyopenssl_tls.py, server/server.py):
   a context is the list of version-related operations applied after its creation.
   The lists themselves are GENERATED from the source (coq/Gen/TlsConfigGen.v). *)
From Coq Require Import List String Bool Arith.
Import ListNotations.

Inductive version := SSL3 | TLS1_0 | TLS1_1 | TLS1_2 | TLS1_3.
Definition vnum (v : version) : nat := match v with SSL3 => 0 | TLS1_0 => 1 | TLS1_1 => 2 | TLS1_2 => 3 | TLS1_3 => 4 end.

Inductive ctx_kind := StdDefault | StdContext | PyOpenSSL.
Inductive op := SetMin (v : version) | SetMax (v : version).
Inductive builder := Creates (k : ctx_kind) (ops : list op) | Delegates (to : string).

(* the library default is NOT trusted: unless the code sets it, the floor is the lowest version *)
Definition effective_min (ops : list op) : version :=
  fold_left (fun acc o => match o with SetMin v => v | SetMax _ => acc end) ops SSL3.
Definition effective_max (ops : list op) : version :=
  fold_left (fun acc o => match o with SetMax v => v | SetMin _ => acc end) ops TLS1_3.

Fixpoint lookup (name : string) (bs : list (string * builder)) : option builder :=
  match bs with
  | [] => None
  | (n, b) :: r => if String.eqb n name then Some b else lookup name r
  end.

(* resolve delegation (bounded by the number of builders) *)
Fixpoint resolve (fuel : nat) (bs : list (string * builder)) (name : string) : option (list op) :=
  match fuel with
  | O => None
  | S f => match lookup name bs with
           | Some (Creates _ ops) => Some ops
           | Some (Delegates to) => resolve f bs to
           | None => None
           end
  end.

Definition floor_ok (bs : list (string * builder)) (name : string) : bool :=
  match resolve (S (List.length bs)) bs name with
  | Some ops => Nat.leb (vnum TLS1_2) (vnum (effective_min ops)) && Nat.leb (vnum TLS1_2) (vnum (effective_max ops))
  | None => false
  end.

(* highest common version, or none: the negotiation oracle assumed of OpenSSL *)
Definition negotiate (ops : list op) (offered_max : version) : option version :=
  if Nat.leb (vnum (effective_min ops)) (vnum offered_max)
  then Some (if Nat.leb (vnum offered_max) (vnum (effective_max ops)) then offered_max else effective_max ops)
  else None.
