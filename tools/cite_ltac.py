#!/usr/bin/env python3
"""cite_ltac.py <pid> <module, e.g. Equiv.EquivCerts> <tag: code|model> <comment> <name> [<name> ...]
Appends to coq/Props/<pid>.v citations of theorems by type (`ltac:(let t := type of @M.n in exact t)`), under the names
<pid>_<tag>_<name>; used for theorems stated inside Sections, whose generalised statement is long.  The result is committed."""
import sys, os
ROOT = os.path.dirname(os.path.dirname(os.path.abspath(__file__)))
pid, mod, tag, comment = sys.argv[1:5]
names = sys.argv[5:]
short = mod.split(".")[-1]
p = os.path.join(ROOT, "coq", "Props", pid + ".v")
s = open(p).read()
block = ["", "(* ---- %s (coq/%s.v)%s ---- *)" % (comment, mod.replace(".", "/"),
         ": re-checked here against the definitions regenerated from /repo's working tree; see DESIGN.md 11.8" if tag == "code" else ""),
         "From NV Require %s." % mod]
for n in names:
    nm = "%s_%s_%s" % (pid, tag, n)
    if ("Theorem %s " % nm) in s: continue
    block += ["Theorem %s : ltac:(let t := type of @%s.%s in exact t)." % (nm, short, n),
              "Proof. exact (@%s.%s). Qed." % (short, n), "Print Assumptions %s." % nm, ""]
open(p, "w").write(s.rstrip("\n") + "\n" + "\n".join(block))
print("appended %d citations to %s" % (len(names), p))
