#!/bin/bash
# usage: try_seeded.sh <property id> [<seed name>]   -- confirms a seeded change from /tmp/mut/<id>/_seeded and runs the check against it
set -u
ID=$1; NAME=${2:-$1}; WT=/tmp/mut/$NAME; DEST=/verif/seeded/$NAME
mkdir -p $DEST; cp $WT/_seeded/patch.diff $WT/_seeded/demo.py $WT/_seeded/meta.json $DEST/ 2>/dev/null
cd $WT
echo "== demo on modified tree (must fail)"; PYTHONPATH=$WT/src /venv/bin/python $DEST/demo.py > $DEST/demo_modified.out 2>&1; DM=$?; tail -2 $DEST/demo_modified.out
echo "== demo on original tree (must pass)"; PYTHONPATH=/repo/src /venv/bin/python $DEST/demo.py > $DEST/demo_original.out 2>&1; DO=$?; tail -1 $DEST/demo_original.out
echo "== test suite on modified tree"; PYTHONPATH=$WT/src /venv/bin/python -m pytest -q -p no:cacheprovider --timeout=900 2>&1 | tail -1 | tee $DEST/tests.out
echo "== check against the change applied to /repo"
git -C /repo apply $DEST/patch.diff || { echo "patch does not apply"; exit 3; }
python3 /verif/check.py $ID --tier quick > $DEST/check.out 2>&1; CK=$?
git -C /repo checkout -- . ; git -C /repo status --short
grep -E "VIOLATION|^OK|KNOWN" $DEST/check.out | head -3
echo "RESULT id=$ID demo_modified_rc=$DM demo_original_rc=$DO check_rc=$CK"
