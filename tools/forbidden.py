#!/usr/bin/env python3
"""Scan the Coq development for anything that would declare an axiom or switch off a kernel check.
Comments and string literals are stripped; Variable/Hypothesis/Context are allowed only inside a Section."""
import re, sys, os

def strip(text):
    out, i, depth, n = [], 0, 0, len(text)
    while i < n:
        if text.startswith("(*", i): depth += 1; i += 2; continue
        if depth and text.startswith("*)", i): depth -= 1; i += 2; continue
        if depth: 
            if text[i] == "\n": out.append("\n")
            i += 1; continue
        if text[i] == '"':
            j = i + 1
            while j < n and text[j] != '"': j += 1
            out.append('""'); i = j + 1; continue
        out.append(text[i]); i += 1
    return "".join(out)

ALWAYS = re.compile(r"\b(Admitted|admit|Axiom|Axioms|Parameter|Parameters|Conjecture|Conjectures|Abort All)\b|Admit\s+Obligations|Unset\s+Guard\s+Checking|Unset\s+Positivity\s+Checking|Unset\s+Universe\s+Checking|bypass_check|type-in-type|impredicative-set|native_compute")
SECTION_ONLY = re.compile(r"^\s*(Variable|Variables|Hypothesis|Hypotheses|Context|Let)\b")

def main(root):
    bad = []
    for d, _, files in os.walk(root):
        for f in sorted(files):
            if not f.endswith(".v"): continue
            p = os.path.join(d, f)
            depth = 0
            for ln, line in enumerate(strip(open(p).read()).split("\n"), 1):
                if re.match(r"^\s*Section\b", line): depth += 1
                if re.match(r"^\s*End\b", line) and depth: depth -= 1   # module ends also decrement only if inside; development uses no Modules
                m = ALWAYS.search(line)
                if m: bad.append("%s:%d: %s" % (p, ln, m.group(0)))
                if depth == 0 and SECTION_ONLY.match(line) and not line.strip().startswith("Let"):
                    bad.append("%s:%d: %s outside a Section" % (p, ln, line.strip()[:40]))
    for f in ("_CoqProject",):
        t = open(os.path.join(root, f)).read()
        if re.search(r"type-in-type|impredicative-set|-vos|-vok", t): bad.append("_CoqProject: forbidden flag")
    if bad:
        print("\n".join(bad)); print("forbidden token found"); sys.exit(1)
    print("forbidden-token scan: clean")

if __name__ == "__main__":
    main(sys.argv[1] if len(sys.argv) > 1 else "/verif/coq")
