#!/bin/bash
# usage: try_refactor_scratch.sh <name>   -- a HARMLESS refactor in the worktree /tmp/mut/<name>: every quick check is run by a scratch
# copy of /verif against it (NV_REPO).  Expected: OK, or a VIOLATION ending in no-failing-input-found (a tie that no longer matches
# the rewritten text); a VIOLATION with a concrete replay on unchanged behaviour would be a false alarm of the machinery.
NAME=$1; WT=/tmp/mut/$NAME; DEST=/verif/seeded/refactors/$NAME; VF=/var/tmp/vf_$NAME
mkdir -p $DEST; cp $WT/_seeded/patch.diff $WT/_seeded/meta.json $DEST/ 2>/dev/null
rm -rf $VF; cp -r ${VF_SNAPSHOT:-/verif} $VF; rm -rf $VF/.git $VF/replays; mkdir -p $VF/replays
: > $DEST/checks.out
for p in C01 C02 C03 C04 C05 C06 C07 C08 C09 C10 C11 C12 C13 C14 C15 C16 C17 C18 C19 C20; do
  NV_REPO=$WT python3 $VF/check.py $p --tier quick 2>&1 | grep -E "VIOLATION|^OK" | sed "s|$VF/||" >> $DEST/checks.out
done
mkdir -p $DEST/replays; cp $VF/replays/*.json $DEST/replays/ 2>/dev/null
rm -rf $VF
echo "RESULT name=$NAME ok=$(grep -c '^OK' $DEST/checks.out) tie_only=$(grep -c 'no-failing-input-found' $DEST/checks.out) concrete=$(grep 'VIOLATION' $DEST/checks.out | grep -vc 'no-failing-input-found')"
