#!/bin/bash
# usage: merge_from.sh <scratch copy of /verif> <base commit>   -- three-way merge of a builder's scratch copy into /verif
# (new files are copied, files changed on both sides are merged with git merge-file; evidence/, replays/, seeded/, Gen/, build
#  products and MANIFEST.json are never taken)
V=$1; BASE=$2
cd /verif
(cd $V && find . -type f \( -name '*.v' -o -name '*.py' -o -name '*.json' -o -name '*.sh' -o -name '*.ml' -o -name '_CoqProject' -o -name 'Makefile' -o -name '*.md' \) \
   | grep -v '^./\(evidence\|replays\|seeded\|\.git\|ocaml/gen\)/' | grep -v '^./coq/Gen/' | grep -v 'MANIFEST.json\|DESIGN.md\|__pycache__' | sed 's|^\./||') | sort > /var/tmp/merge_files.txt
while read f; do
  if [ ! -e "$f" ]; then mkdir -p $(dirname $f); cp $V/$f $f; echo "NEW   $f"; continue; fi
  if cmp -s $V/$f $f; then continue; fi
  if git cat-file -e $BASE:$f 2>/dev/null; then
    git show $BASE:$f > /var/tmp/merge_base.tmp
    if cmp -s /var/tmp/merge_base.tmp $V/$f; then continue; fi     # builder did not touch it
    cp $V/$f /var/tmp/merge_theirs.tmp
    if git merge-file -q $f /var/tmp/merge_base.tmp /var/tmp/merge_theirs.tmp; then echo "MERGE $f"; else echo "CONFLICT $f"; fi
  else
    echo "BOTH-NEW-DIFFER $f"
  fi
done < /var/tmp/merge_files.txt
