#!/usr/bin/env python3
"""Run every translator of translate/chains.json (regenerating coq/Gen/*.v from /repo's working tree), or print the
stems of the files that depend on generated definitions (--gendep).  Used by the Makefile."""
import json, os, subprocess, sys
ROOT = os.path.dirname(os.path.dirname(os.path.abspath(__file__)))
chains = json.load(open(os.path.join(ROOT, "translate", "chains.json")))
if "--gendep" in sys.argv:
    stems = []
    for c in chains.values():
        for f in c["chain"]:
            if f[:-2] not in stems: stems.append(f[:-2])
    stems += ["Props/C%02d" % i for i in range(1, 21)]
    print(" ".join(stems))
    sys.exit(0)
bad = 0
os.makedirs(os.path.join(ROOT, "coq", "Gen"), exist_ok=True)
for name, c in chains.items():
    r = subprocess.run(["python3", os.path.join(ROOT, "translate", c["script"]), os.path.join(ROOT, "coq", c["gen"])], capture_output=True, text=True)
    print("%s: %s" % (name, (r.stdout + r.stderr).strip().splitlines()[-1] if (r.stdout + r.stderr).strip() else "ok"))
    if r.returncode != 0:
        bad += 1
        # leave a file that cannot compile, so that nothing silently keeps using a stale generated file
        open(os.path.join(ROOT, "coq", c["gen"]), "w").write("(* translator %s refused the source:\n%s\n*)\nUNTRANSLATABLE.\n" % (c["script"], (r.stdout + r.stderr)[-2000:].replace("*)", "* )")))
sys.exit(0)
