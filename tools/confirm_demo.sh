#!/bin/bash
# usage: confirm_demo.sh <seed name>   -- phase A of the confirmation of a seeded change (does not touch /repo): the demo fails on
# the modified worktree /tmp/mut/<name>, passes on /repo/src, and the project's test suite passes on the modified worktree
NAME=$1; WT=/tmp/mut/$NAME; DEST=/verif/seeded/$NAME
mkdir -p $DEST; cp $WT/_seeded/patch.diff $WT/_seeded/demo.py $WT/_seeded/meta.json $DEST/ 2>/dev/null
cd $WT
PYTHONPATH=$WT/src /venv/bin/python $DEST/demo.py > $DEST/demo_modified.out 2>&1; DM=$?
PYTHONPATH=/repo/src /venv/bin/python $DEST/demo.py > $DEST/demo_original.out 2>&1; DO=$?
PYTHONPATH=$WT/src /venv/bin/python -m pytest -q -p no:cacheprovider --timeout=900 2>&1 | tail -1 > $DEST/tests.out
echo "RESULT name=$NAME demo_modified_rc=$DM demo_original_rc=$DO tests=$(cat $DEST/tests.out)"
