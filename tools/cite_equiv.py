#!/usr/bin/env python3
"""cite_equiv.py <pid> <Equiv module, e.g. EquivClient> <prefix> <name> [<name> ...]
Appends to coq/Props/<pid>.v a block that restates the named theorems of coq/Equiv/<module>.v (same statement,
`exact <module>.<name>`) under the names <pid>_code_<name>, so that the property's check re-verifies the tie between the
model its theorems are about and the definitions regenerated from the source.  Used once per wiring; the result is
committed."""
import re, sys, os
ROOT = os.path.dirname(os.path.dirname(os.path.abspath(__file__)))
pid, mod, comment = sys.argv[1], sys.argv[2], sys.argv[3]
names = sys.argv[4:]
src = open(os.path.join(ROOT, "coq", "Equiv", mod + ".v")).read()
# imports of the Equiv file (minus its proofs module)
imps = []
for m in re.finditer(r"^From (Coq|NV) Require (Import )?([^.]*(?:\.[A-Za-z][^.]*)*)\.\s*$", src, re.M):
    line = m.group(0).strip()
    if "_proofs" in line or "Reenc_exists" in line: continue
    imps.append(line)
thms = {}
for m in re.finditer(r"^(?:Theorem|Lemma) (\w+) : (.*?)\nProof\. exact", src, re.S | re.M):
    thms[m.group(1)] = m.group(2).rstrip()
defs = {}
for m in re.finditer(r"^(?:Definition|Fixpoint|Inductive|Record) (\w+)", src, re.M): defs[m.group(1)] = 1
block = ["", "(* ---- tie to the code (%s): the statements of coq/Equiv/%s.v, re-checked here against the definitions regenerated" % (comment, mod),
         "   from /repo's working tree (coq/Gen); see DESIGN.md 11.8 ---- *)"]
block += imps
block.append("From NV Require Equiv.%s." % mod)
for n in names:
    st = thms[n]
    for d in defs:
        st = re.sub(r"(?<![\w.])%s(?![\w])" % d, "%s.%s" % (mod, d), st)
    nm = "%s_code_%s" % (pid, n)
    block.append("Theorem %s : %s\nProof. exact %s.%s. Qed.\nPrint Assumptions %s.\n" % (nm, st, mod, n, nm))
p = os.path.join(ROOT, "coq", "Props", pid + ".v")
s = open(p).read()
if ("Equiv.%s." % mod) in s:
    print("already cited"); sys.exit(0)
m = re.search(r"\nClose Scope [A-Za-z_]+\.\s*$", s)
text = "\n".join(block) + "\n"
s = s[:m.start()] + "\n" + text + s[m.start():] if m else s.rstrip("\n") + "\n" + text
open(p, "w").write(s)
print("appended %d theorems to Props/%s.v" % (len(names), pid))
