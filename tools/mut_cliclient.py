#!/usr/bin/env python3
"""Mutation check of the cliclient tie: for each edit of src/nauyaca/__main__.py (scratch copy, NV_SRC) run the translator and,
if it accepts, re-check the chain in a scratch copy of the coq tree; report the first failing file / lemma."""
import os, re, shutil, subprocess, sys
VF = os.path.dirname(os.path.dirname(os.path.abspath(__file__)))
WORK = "/var/tmp/cli_mutwork"
COQ = os.path.join(WORK, "coq")
CHAIN = ["Gen/CliClientGen.v", "Proofs/EquivCliClient_proofs.v", "Equiv/EquivCliClient.v", "Proofs/C16_cli.v"]

def nth_replace(s, old, new, n=0):
    idx = -1
    for _ in range(n + 1):
        idx = s.index(old, idx + 1)
    return s[:idx] + new + s[idx + len(old):]

GET_CTOR_TRUST = "                trust_on_first_use=trust_on_first_use,\n"
M = [
 ("seeded: follow = max_redirects > 0 and not no_redirects", "sem", [("follow_redirects=not no_redirects,", "follow_redirects=max_redirects > 0 and not no_redirects,", 0)]),
 ("max_redirects not passed to GeminiClient", "sem", [("                max_redirects=max_redirects,\n", "", 0)]),
 ("trust_on_first_use inverted", "sem", [(GET_CTOR_TRUST, "                trust_on_first_use=not trust_on_first_use,\n", 0)]),
 ("trust_on_first_use dropped", "sem", [(GET_CTOR_TRUST, "", 0)]),
 ("verify_ssl and trust swapped in the constructor call", "sem", [("                verify_ssl=verify_ssl,\n" + GET_CTOR_TRUST, "                verify_ssl=trust_on_first_use,\n                trust_on_first_use=verify_ssl,\n", 0)]),
 ("status >= 40 -> > 40", "sem", [("if response.status >= 40:", "if response.status > 40:", 0)]),
 ("CertificateChangedError swallowed (no raise: exit 0)", "sem", [("            error_console.print(f\"  nauyaca tofu trust {e.hostname} --port {e.port}\")\n            raise typer.Exit(code=1) from e\n", "            error_console.print(f\"  nauyaca tofu trust {e.hostname} --port {e.port}\")\n", 0)]),
 ("tofu import: merge flag inverted", "sem", [("merge=not replace", "merge=replace", 0)]),
 ("tofu clear: confirmation only under --force", "sem", [("    if not force:\n        confirm = typer.confirm(\"Clear all known hosts", "    if force:\n        confirm = typer.confirm(\"Clear all known hosts", 0)]),
 ("tofu revoke --port revokes every port", "sem", [("if db.revoke(hostname, port):", "if db.revoke_by_hostname(hostname):", 0)]),
 ("tofu trust: pins the default port", "sem", [("db.trust(hostname, port, cert)", "db.trust(hostname, DEFAULT_PORT, cert)", 0)]),
 ("tofu trust: client built with the pin check on", "sem", [("                verify_ssl=False,\n                trust_on_first_use=False,\n", "                verify_ssl=False,\n                trust_on_first_use=True,\n", 0)]),
 ("option strings of --trust and --verify-ssl swapped", "sem", [('"--trust/--no-trust"', '"--verify-ssl/--no-verify-ssl"', 0), ('"--verify-ssl/--no-verify-ssl"', '"--trust/--no-trust"', 1)]),
 ("default of --trust is False", "sem", [("    trust_on_first_use: bool = typer.Option(\n        True,", "    trust_on_first_use: bool = typer.Option(\n        False,", 0)]),
 ("default of -r is 10", "sem", [("    max_redirects: int = typer.Option(\n        MAX_REDIRECTS,", "    max_redirects: int = typer.Option(\n        10,", 0)]),
 ("pre-check cert-without-key removed", "sem", [("    if client_cert and not client_key:\n        error_console.print(\n            \"[red]Error:[/] --client-key is required when --client-cert is provided\"\n        )\n        raise typer.Exit(code=1)\n", "", 0)]),
 ("timeout not passed", "sem", [("                timeout=timeout,\n", "", 0)]),
 ("conflict handler accepts every conflict", "sem", [("        if force:\n            # Auto-accept in force mode\n            return True\n", "        return True\n", 0)]),
 ("tofu export overwrites without --force", "sem", [("if file.exists() and not force:", "if file.exists() and force:", 0)]),
 ("except ValueError exits 0", "sem", [("            error_console.print(f\"Error: {e}\")\n            raise typer.Exit(code=1) from e", "            error_console.print(f\"Error: {e}\")\n            raise typer.Exit(code=0) from e", 0)]),
 ("follow_redirects always True (--no-redirects ignored)", "sem", [("follow_redirects=not no_redirects,", "follow_redirects=True,", 0)]),
 ("client_key passed as client_cert", "sem", [("                client_cert=client_cert,\n", "                client_cert=client_key,\n", 0)]),
 ("tofu info exits 0 for an unknown host", "sem", [("        console.print(f\"[yellow]Host {hostname}:{port} not in database[/]\")\n        raise typer.Exit(code=1)", "        console.print(f\"[yellow]Host {hostname}:{port} not in database[/]\")\n        raise typer.Exit(code=0)", 0)]),
 ("tofu revoke without --port skips the confirmation", "sem", [("        if not force:\n            confirm = typer.confirm(f\"Revoke all", "        if False:\n            confirm = typer.confirm(f\"Revoke all", 0)]),
 # harmless refactors
 ("refactor: rename client -> c, response -> resp", "ok", [(") as client:\n                response = await client.get(", ") as c:\n                resp = await c.get(", 0),
                                                         ("_format_response(response, verbose=verbose)", "_format_response(resp, verbose=verbose)", 0), ("if response.status >= 40:", "if resp.status >= 40:", 0)]),
 ("refactor: keyword order, conditional expression, not <", "ok", [("                timeout=timeout,\n                max_redirects=max_redirects,\n", "                max_redirects=max_redirects,\n                timeout=timeout,\n", 0),
                                                                   ("follow_redirects=not no_redirects,", "follow_redirects=False if no_redirects else True,", 0), ("if response.status >= 40:", "if not response.status < 40:", 0)]),
 ("refactor: pre-checks swapped, messages reworded, extra display line", "ok", [
     ("    if client_cert and not client_key:\n        error_console.print(\n            \"[red]Error:[/] --client-key is required when --client-cert is provided\"\n        )\n        raise typer.Exit(code=1)\n    if client_key and not client_cert:\n        error_console.print(\n            \"[red]Error:[/] --client-cert is required when --client-key is provided\"\n        )\n        raise typer.Exit(code=1)\n",
      "    if client_key and not client_cert:\n        error_console.print(\"[red]Error:[/] certificate missing\")\n        raise typer.Exit(code=1)\n    if client_cert and not client_key:\n        error_console.print(\"[red]Error:[/] key missing\")\n        error_console.print(\"see --help\")\n        raise typer.Exit(code=1)\n", 0),
     ("            error_console.print(f\"Timeout: {e}\")\n", "            error_console.print(f\"Timed out: {e}\")\n            error_console.print(\"try -t\")\n", 0)]),
 ("refactor: tofu clear with early return", "ok", [("    if not force:\n        confirm = typer.confirm(\"Clear all known hosts from TOFU database?\")\n        if not confirm:\n            raise typer.Abort()\n",
                                                     "    if force:\n        pass\n    else:\n        confirm = typer.confirm(\"Clear all known hosts from TOFU database?\")\n        if not confirm:\n            raise typer.Abort()\n", 0)]),
]

def enclosing_lemma(vfile, line):
    name = None
    for i, l in enumerate(open(vfile).read().split("\n"), 1):
        m = re.match(r"\s*(?:Lemma|Theorem|Example|Definition)\s+([A-Za-z0-9_']+)", l)
        if m: name = m.group(1)
        if i >= line: break
    return name

def main():
    if os.path.exists(WORK): shutil.rmtree(WORK)
    os.makedirs(WORK)
    subprocess.run(["rsync", "-a", VF + "/coq/", COQ + "/"], check=True)
    src0 = open("/repo/src/nauyaca/__main__.py").read()
    rows = []
    only = sys.argv[1:]
    for idx, (name, kind, edits) in enumerate(M):
        if only and str(idx) not in only: continue
        srcdir = os.path.join(WORK, "src")
        if os.path.exists(srcdir): shutil.rmtree(srcdir)
        shutil.copytree("/repo/src/nauyaca", srcdir)
        s = src0
        try:
            for old, new, n in edits: s = nth_replace(s, old, new, n)
        except ValueError:
            rows.append((idx, name, kind, "EDIT DID NOT APPLY")); continue
        compile(s, "__main__.py", "exec")
        open(os.path.join(srcdir, "__main__.py"), "w").write(s)
        r = subprocess.run(["python3", os.path.join(VF, "translate", "py2coq_cliclient.py"), os.path.join(COQ, "Gen/CliClientGen.v")],
                           env=dict(os.environ, NV_SRC=srcdir), capture_output=True, text=True)
        if r.returncode != 0:
            rows.append((idx, name, kind, "translator refuses: " + (r.stdout + r.stderr).strip().splitlines()[-1][:150])); continue
        verdict = "chain checks"
        for v in CHAIN:
            c = subprocess.run("timeout 600 coqc -Q . NV " + v, shell=True, cwd=COQ, capture_output=True, text=True)
            if c.returncode != 0:
                out = c.stdout + c.stderr
                m = re.search(r'File "\./([^"]+)", line (\d+)', out)
                lemma = enclosing_lemma(os.path.join(COQ, m.group(1)), int(m.group(2))) if m else "?"
                verdict = "breaks %s: %s" % (v, lemma)
                break
        rows.append((idx, name, kind, verdict))
    for idx, name, kind, verdict in rows:
        good = (kind == "sem" and verdict != "chain checks" and "DID NOT" not in verdict) or (kind == "ok" and verdict == "chain checks")
        print("%2d | %-70s | %s | %s%s" % (idx, name, "semantic" if kind == "sem" else "harmless", verdict, "" if good else "   <<<<<< UNEXPECTED"))

if __name__ == "__main__":
    main()
