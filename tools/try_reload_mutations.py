#!/usr/bin/env python3
"""Mutation check of the `reload` tie (translate/py2coq_reload.py + coq/Equiv/EquivReload.v): each edit is applied to a scratch
copy of /repo/src/nauyaca (NV_SRC), the translator is run and the chain compiled in a scratch copy of coq/.  Semantic edits
must be refused or break a named lemma; harmless refactors must pass."""
import os, shutil, subprocess, sys, tempfile
ROOT = os.path.dirname(os.path.dirname(os.path.abspath(__file__)))
M, S = "__main__.py", "server/reload/supervisor.py"
LOOP_OLD = '''            if arg == "--reload-dir":
                skip_next = True
                continue
            if arg.startswith("--reload-dir="):
                continue
            if arg == "--reload-ext":
                skip_next = True
                continue
            if arg.startswith("--reload-ext="):
                continue
'''
SEMANTIC = [
 ("seeded: _build_command drops arguments containing 'reload'", S, "cmd.extend(self.server_args)", 'cmd.extend(arg for arg in self.server_args if "reload" not in arg)'),
 ("skip_next never reset", M, "            if skip_next:\n                skip_next = False\n                continue", "            if skip_next:\n                continue"),
 ("startswith('--reload') instead of ==", M, 'if arg == "--reload":', 'if arg.startswith("--reload"):'),
 ("sys.argv[1:]", M, "for arg in sys.argv[2:]:", "for arg in sys.argv[1:]:"),
 ("sys.argv[3:]", M, "for arg in sys.argv[2:]:", "for arg in sys.argv[3:]:"),
 ("dropping 'serve'", M, 'server_args: list[str] = ["serve"]', "server_args: list[str] = []"),
 ("Popen(shell=True)", S, "                cmd,\n                stdout=sys.stdout,", "                cmd,\n                shell=True,\n                stdout=sys.stdout,"),
 ("__init__ stores list(reversed(..))", S, "self.server_args = server_args", "self.server_args = list(reversed(server_args))"),
 ("--reload-ext no longer skips its value", M, '            if arg == "--reload-ext":\n                skip_next = True\n                continue', '            if arg == "--reload-ext":\n                continue'),
 ("--reload-dir= test becomes a substring-free prefix '--reload-d'", M, 'arg.startswith("--reload-dir=")', 'arg.startswith("--reload-d")'),
 ("kept arguments are prepended (order reversed)", M, "server_args.append(arg)", "server_args.insert(0, arg)"),
 ("append only arguments that start with '-'", M, "            server_args.append(arg)", "            if arg.startswith(\"-\"):\n                server_args.append(arg)"),
 ("serve removes --config before the call", M, "            run_with_reload(reload_config, server_args)", "            run_with_reload(reload_config, [a for a in server_args if not a.startswith(\"--config\")])"),
 ("serve passes sys.argv[2:] unfiltered? no: passes a fresh ['serve']", M, "            run_with_reload(reload_config, server_args)", "            run_with_reload(reload_config, [\"serve\"])"),
 ("run_with_reload truncates", S, "supervisor = Supervisor(config, server_args)", "supervisor = Supervisor(config, server_args[:2])"),
 ("another method rewrites self.server_args", S, "        cmd = self._build_command()\n", "        self.server_args = [a for a in self.server_args if a != \"--config\"]\n        cmd = self._build_command()\n"),
 ("_start_server edits cmd", S, "        cmd = self._build_command()\n", "        cmd = self._build_command()\n        cmd = cmd[:4]\n"),
 ("_start_server passes cmd[:4]", S, "                cmd,\n                stdout=sys.stdout,", "                cmd[:4],\n                stdout=sys.stdout,"),
 ("Popen gets a joined string", S, "                cmd,\n                stdout=sys.stdout,", "                \" \".join(cmd),\n                stdout=sys.stdout,"),
 ("Popen(cwd='/')", S, "                stderr=sys.stderr,", "                stderr=sys.stderr,\n                cwd=\"/\","),
 ("_build_command: -m nauyaca.server", S, 'cmd = [sys.executable, "-m", "nauyaca"]', 'cmd = [sys.executable, "-m", "nauyaca.server"]'),
 ("_build_command: extend(self.server_args[1:])", S, "cmd.extend(self.server_args)", "cmd.extend(self.server_args[1:])"),
 ("--reload gets a short alias the filter does not know", M, '        False,\n        "--reload",\n', '        False,\n        "--reload",\n        "-r",\n'),
 ("== on --reload-dir replaced by `in` with a wrong constant", M, 'if arg == "--reload-dir":', 'if arg in ("--reload-dir", "--config"):'),
]
HARMLESS = [
 ("rename loop variable and state variables", M, None, None),
 ("merge the two value-taking tests with `in`, elif chain", M, LOOP_OLD, '''            if arg in ("--reload-dir", "--reload-ext"):
                skip_next = True
                continue
            elif arg.startswith("--reload-dir=") or arg.startswith("--reload-ext="):
                continue
'''),
 ("_build_command as one return expression", S, '        cmd = [sys.executable, "-m", "nauyaca"]\n        cmd.extend(self.server_args)\n        return cmd', '        return [sys.executable, "-m", "nauyaca", *self.server_args]'),
 ("_start_server passes the call in place; run_with_reload chained", S, None, None),
 ("swap the two initialisers, reorder tests (= forms first)", M, None, None),
]
def edit(src, label, rel, old, new):
    p = os.path.join(src, rel)
    t = open(p).read()
    if label.startswith("rename loop"):
        a, b = t.index("        server_args: list[str] = [\"serve\"]"), t.index("        # Build watch extensions")
        seg = t[a:b].replace("server_args", "child_args").replace("skip_next", "drop_following").replace("arg ", "token ").replace("arg.", "token.").replace("(arg)", "(token)")
        t = t[:a] + seg + t[b:]
        t = t.replace("run_with_reload(reload_config, server_args)", "run_with_reload(reload_config, child_args)")
    elif label.startswith("_start_server passes the call"):
        t = t.replace("        cmd = self._build_command()\n\n        logger.info(\"starting_server\", command=\" \".join(cmd))\n", "")
        t = t.replace("                cmd,\n                stdout=sys.stdout,", "                self._build_command(),\n                stdout=sys.stdout,")
        t = t.replace("    supervisor = Supervisor(config, server_args)\n    supervisor.run()", "    Supervisor(config, server_args=server_args).run()")
    elif label.startswith("swap the two"):
        t = t.replace('        server_args: list[str] = ["serve"]\n        skip_next = False\n', '        skip_next = False\n        server_args: list[str] = ["serve"]\n')
        t = t.replace(LOOP_OLD, '''            if arg.startswith("--reload-dir=") or arg.startswith("--reload-ext="):
                continue
            if arg == "--reload-ext" or arg == "--reload-dir":
                skip_next = True
                continue
''')
    else:
        if t.count(old) != 1: raise SystemExit("edit %r: anchor found %d times" % (label, t.count(old)))
        t = t.replace(old, new)
    compile(t, p, "exec")
    open(p, "w").write(t)

def trial(label, rel, old, new):
    tmp = tempfile.mkdtemp(prefix="reload-mut-", dir="/var/tmp")
    try:
        src = os.path.join(tmp, "nauyaca"); shutil.copytree(os.path.join(os.environ.get("NV_REPO", "/repo"), "src", "nauyaca"), src)
        if label != "unchanged": edit(src, label, rel, old, new)
        coq = os.path.join(tmp, "coq"); os.makedirs(os.path.join(coq, "Gen")); 
        for d in ("Prelude", "Model", "Proofs", "Equiv"):
            os.makedirs(os.path.join(coq, d), exist_ok=True)
        for f in ("Prelude/Str", "Model/Reload", "Proofs/C09_reload"):
            for ext in (".v", ".vo", ".glob"):
                if os.path.exists(os.path.join(ROOT, "coq", f + ext)): shutil.copy(os.path.join(ROOT, "coq", f + ext), os.path.join(coq, f + ext))
        for f in ("Proofs/EquivReload_proofs.v", "Equiv/EquivReload.v"): shutil.copy(os.path.join(ROOT, "coq", f), os.path.join(coq, f))
        env = dict(os.environ, NV_SRC=src)
        r = subprocess.run([sys.executable, os.path.join(ROOT, "translate", "py2coq_reload.py"), os.path.join(coq, "Gen", "ReloadGen.v")], capture_output=True, text=True, env=env)
        if r.returncode != 0: return "refused", (r.stdout + r.stderr).strip().splitlines()[-1][:150]
        for v in ("Gen/ReloadGen.v", "Proofs/EquivReload_proofs.v", "Equiv/EquivReload.v"):
            c = subprocess.run("timeout 300 coqc -Q . NV " + v, shell=True, cwd=coq, capture_output=True, text=True)
            if c.returncode != 0:
                out = c.stdout + c.stderr
                import re
                m = re.search(r'File "\./([^"]+)", line (\d+)', out)
                lemma = "?"
                if m:
                    lines = open(os.path.join(coq, m.group(1))).read().split("\n")[:int(m.group(2))]
                    for ln in reversed(lines):
                        mm = re.match(r"\s*(?:Lemma|Theorem|Definition)\s+(\w+)", ln)
                        if mm: lemma = mm.group(1); break
                return "breaks", "%s: %s" % (m.group(1) if m else v, lemma)
        return "passes", r.stdout.strip().splitlines()[-1][:120]
    finally:
        shutil.rmtree(tmp, ignore_errors=True)

if __name__ == "__main__":
    bad = 0
    r = trial("unchanged", None, None, None); print("unchanged source: %s (%s)" % r)
    if r[0] != "passes": bad += 1
    print("--- semantic edits (must be refused or break a named lemma)")
    for m in SEMANTIC:
        r = trial(*m); print("%-8s %-70s %s" % (r[0], m[0][:70], r[1]))
        if r[0] == "passes": bad += 1
    print("--- harmless refactors (must pass)")
    for m in HARMLESS:
        r = trial(*m); print("%-8s %-70s %s" % (r[0], m[0][:70], r[1]))
        if r[0] != "passes": bad += 1
    print("RESULT: %s" % ("all as expected" if not bad else "%d unexpected" % bad))
    sys.exit(1 if bad else 0)
