#!/bin/bash
# usage: confirm_check.sh <property id> <seed name>   -- phase B: the patch applied to /repo, the property's quick check, /repo restored
ID=$1; NAME=$2; DEST=/verif/seeded/$NAME
git -C /repo apply $DEST/patch.diff || { echo "RESULT name=$NAME patch does not apply"; exit 3; }
python3 /verif/check.py $ID --tier quick > $DEST/check.out 2>&1; CK=$?
git -C /repo checkout -- . ; git -C /repo clean -fdq -- src 2>/dev/null
mkdir -p $DEST/replays; for r in $(grep -o 'replay=[^ ]*' $DEST/check.out | cut -d= -f2); do cp $r $DEST/replays/ 2>/dev/null; done
echo "RESULT name=$NAME id=$ID check_rc=$CK $(grep -E 'VIOLATION|^OK' $DEST/check.out | head -1 | cut -c1-120) status=$(git -C /repo status --short | wc -l)"
