#!/bin/bash
# usage: try_seeded_scratch.sh <property id> <seed name>
# Triage of a seeded change WITHOUT touching /repo: the change lives in the worktree /tmp/mut/<name>; a scratch copy of
# /verif is run against it (NV_REPO).  The confirmation against /repo itself is tools/try_seeded.sh.
set -u
ID=$1; NAME=$2; WT=/tmp/mut/$NAME; DEST=/verif/seeded/$NAME; VF=/var/tmp/vf_$NAME
mkdir -p $DEST; cp $WT/_seeded/patch.diff $WT/_seeded/demo.py $WT/_seeded/meta.json $DEST/ 2>/dev/null
rm -rf $VF; cp -r ${VF_SNAPSHOT:-/verif} $VF; rm -rf $VF/.git $VF/replays
NV_REPO=$WT python3 $VF/check.py $ID --tier quick > $DEST/check_scratch.out 2>&1; CK=$?
grep -E "VIOLATION|^OK|KNOWN" $DEST/check_scratch.out | head -3
mkdir -p $DEST/replays; cp $VF/replays/*.json $DEST/replays/ 2>/dev/null | true
cp $VF/evidence/$ID.json $DEST/evidence_scratch.json 2>/dev/null
rm -rf $VF
echo "RESULT name=$NAME id=$ID check_rc=$CK"
