#!/usr/bin/env python3
"""Regenerates MANIFEST.json from tools/manifest_src.json (claimed checks) and properties.jsonl."""
import json, os
V = os.path.dirname(os.path.dirname(os.path.abspath(__file__)))
props = [json.loads(l) for l in open(os.path.join(V, "properties.jsonl"))]
src = json.load(open(os.path.join(V, "tools", "manifest_src.json")))
claimed = src["claimed"]
checks = []
for p in props:
    c = claimed.get(p["id"])
    if not c: continue
    checks.append({
        "property_id": p["id"],
        "quick_cmd": "python3 /verif/check.py %s --tier quick" % p["id"],
        "thorough_cmd": "python3 /verif/check.py %s --tier thorough" % p["id"],
        "evidence_file": "/verif/evidence/%s.json" % p["id"],
        "replay_cmd_template": "python3 /verif/check.py %s --replay {path}" % p["id"],
        "engine": "coq-proof+correspondence",
        "level_claimed": {"category": "proof", "text": c["text"], "design_ref": c.get("design_ref", "DESIGN.md section 6, " + p["id"])},
        "level_note": c["note"],
        "technique": c["technique"],
    })
na = [{"property_id": p["id"], "reason": src["pending"].get(p["id"], "check not built yet (work in progress; see DESIGN.md section 6)")}
      for p in props if p["id"] not in claimed]
m = {"version": 1, "setup_cmd": "make -C /verif setup",
     "hooks": {"guard": "NAUYACA_VERIF", "enable": "no hooks are needed: the harness imports /repo/src directly (PYTHONPATH=/repo/src) and drives the real classes with fake transports / virtual clocks",
               "baseline_off_cmd": "cd /repo && /venv/bin/python -m pytest -q -p no:cacheprovider --timeout=900", "source_commits": [], "add_only": True},
     "engines": [{"name": "coq-proof+correspondence", "path": "/verif/check.py",
                  "serves_properties": sorted(claimed),
                  "kind_free_text": "Coq 8.16.1 theorems about executable Gallina models (coq/), tied to /repo by differential execution of the extracted models (ocaml/modelrun) against the real code (harness/), with the Coq property predicates run as monitors on implementation traces"}],
     "checks": checks, "notes": src.get("notes", ""), "not_applicable": na}
json.dump(m, open(os.path.join(V, "MANIFEST.json"), "w"), indent=1)
print("claimed:", sorted(claimed), "pending:", [x["property_id"] for x in na])
