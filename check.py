#!/usr/bin/env python3
"""Per-property check: re-checks the Coq theorems of the property, runs the correspondence
between the extracted model and /repo's working tree, runs the property monitor on the
implementation's traces, and reports per the VIOLATION / KNOWN-FINDING protocol (DESIGN section 4)."""
import os, sys, json, time, subprocess, re, hashlib, argparse, fcntl, importlib, traceback

VERIF = os.path.dirname(os.path.abspath(__file__))
PY = "/venv/bin/python"

def reexec():
    if os.environ.get("NV_REEXEC") != "1" or os.path.realpath(sys.executable) != os.path.realpath(PY):
        env = dict(os.environ)
        env.update({"NV_REEXEC": "1", "PYTHONPATH": os.path.join(os.environ.get("NV_REPO", "/repo"), "src") + ":" + os.path.join(VERIF, "harness"),
                    "PYTHONHASHSEED": "0", "PYTHONDONTWRITEBYTECODE": "1"})
        os.execve(PY, [PY, os.path.abspath(__file__)] + sys.argv[1:], env)

TRUSTED_BASE = [
    "Coq 8.16.1 kernel (coqc; coqchk in the thorough tier); vm_compute is used, native_compute is not",
    "Extraction (ExtrOcamlBasic directives only: bool, list, option, prod, unit, sumbool; N/Z/positive stay Coq datatypes) and OCaml 4.13.1",
    "ocaml/modelrun.ml (s-expression parsing/printing) and harness/*.py (drivers, fake transports, generators, canonicalisers)",
    "Hand-written Gallina re-statements of library behaviour (urllib.parse, str methods, int(), realpath, UTF-8, sqlite3 transaction semantics), validated only by the correspondence runs",
    "Oracle arguments (Section variables) listed per property in DESIGN.md section 8",
]

def sh(cmd, timeout=3600, cwd=None):
    p = subprocess.run(cmd, shell=True, capture_output=True, text=True, timeout=timeout, cwd=cwd)
    return p.returncode, p.stdout + p.stderr

def ensure_build():
    """Build the hand-written development + extraction if out of date (content hash stamp)."""
    lock = open(os.path.join(VERIF, ".build.lock"), "w")
    fcntl.flock(lock, fcntl.LOCK_EX)
    try:
        h = hashlib.sha1()
        # the hand-written development = the files listed in coq/_CoqProject (generated coq/Gen files excluded: they are
        # regenerated and re-checked per property), plus the OCaml driver and the build description
        proj = os.path.join(VERIF, "coq", "_CoqProject")
        files = [proj, os.path.join(VERIF, "ocaml", "modelrun.ml"), os.path.join(VERIF, "Makefile"),
                 os.path.join(VERIF, "coq", "Extract", "Extract.v")]
        for line in open(proj).read().split():
            if line.endswith(".v") and not line.startswith("Gen/"):
                files.append(os.path.join(VERIF, "coq", line))
        for f in files:
            h.update(f.encode())
            h.update(open(f, "rb").read() if os.path.exists(f) else b"<missing>")
        stamp = os.path.join(VERIF, ".build.stamp")
        cur = h.hexdigest()
        if os.path.exists(stamp) and open(stamp).read() == cur and os.path.exists(os.path.join(VERIF, "ocaml", "modelrun")):
            return True, ""
        rc, out = sh("make -C %s setup" % VERIF, timeout=3600)
        if rc != 0:
            return False, out[-3000:]
        open(stamp, "w").write(cur)
        return True, ""
    finally:
        fcntl.flock(lock, fcntl.LOCK_UN); lock.close()

def check_props(pid):
    """Re-compile Props/<pid>.v, parse theorem names and Print Assumptions output."""
    src = os.path.join(VERIF, "coq", "Props", pid + ".v")
    info = {"theorems": [], "assumptions": {}, "ok": False, "log": "", "refuted": [], "partial": []}
    if not os.path.exists(src):
        info["log"] = "no Props file"
        return info
    text = open(src).read()
    names = re.findall(r"^\s*(?:Theorem|Lemma|Corollary|Example)\s+([A-Za-z0-9_']+)", text, re.M)
    info["theorems"] = names
    rc, out = sh("timeout 900 coqc -Q . NV Props/%s.v" % pid, cwd=os.path.join(VERIF, "coq"), timeout=1000)
    info["log"] = out[-4000:]
    if rc != 0:
        return info
    # Print Assumptions blocks appear in order
    blocks = re.split(r"(?=Closed under the global context|Axioms:)", out)
    blocks = [b for b in blocks if b.startswith("Closed under") or b.startswith("Axioms:")]
    printed = re.findall(r"Print Assumptions\s+([A-Za-z0-9_'.]+)\s*\.", text)
    allowed = ALLOWED_AXIOMS
    ok = True
    for n, b in zip(printed, blocks):
        if b.startswith("Closed"):
            info["assumptions"][n] = []
        else:
            ax = re.findall(r"^([A-Za-z0-9_'.]+)\s*:", b, re.M)
            info["assumptions"][n] = ax
            if any(a not in allowed for a in ax):
                ok = False
    if len(printed) != len(blocks) or set(n for n in names if not n.startswith("ex_")) - set(printed):
        # every theorem must be followed by Print Assumptions
        missing = set(n for n in names if not n.startswith("ex_")) - set(printed)
        if missing:
            info["log"] += "\nmissing Print Assumptions for: %s" % sorted(missing)
            ok = False
    info["ok"] = ok
    info["refuted"] = [n for n in names if n.endswith("_refuted")]
    info["partial"] = [n for n in names if n.endswith("_partial")]
    return info

ALLOWED_AXIOMS = set()   # the development is intended to be axiom-free; stdlib axioms would be listed here by name

def load_known():
    try:
        return json.load(open(os.path.join(VERIF, "known_findings.json")))
    except Exception:
        return {"findings": [], "fixed": []}

def write_replay(pid, obj):
    os.makedirs(os.path.join(VERIF, "replays"), exist_ok=True)
    blob = json.dumps(obj, indent=1, sort_keys=True, default=str)
    name = "%s-%s.json" % (pid, hashlib.sha1(blob.encode()).hexdigest()[:10])
    path = os.path.join(VERIF, "replays", name)
    open(path, "w").write(blob)
    return path

def main():
    reexec()
    ap = argparse.ArgumentParser()
    ap.add_argument("property")
    ap.add_argument("--tier", default=os.environ.get("VERIF_TIER", "quick"), choices=["quick", "thorough"])
    ap.add_argument("--replay", default=None)
    args = ap.parse_args()
    pid = args.property
    seed = int(os.environ.get("VERIF_SEED", "20261001"))
    t0 = time.time()
    sys.path.insert(0, os.path.join(VERIF, "harness"))
    os.makedirs(os.path.join(VERIF, "evidence"), exist_ok=True)
    evidence_path = os.path.join(VERIF, "evidence", pid + ".json")
    violations_out = []   # (replay_path, suffix)
    known_lines = []
    notes = []
    gen_info = {}

    ok_build, blog = ensure_build()
    props = {"theorems": [], "assumptions": {}, "ok": False, "log": blog, "refuted": [], "partial": []}
    res = None
    if ok_build:
        # properties with a translator regenerate their Gen file from /repo's working tree first
        try:
            mod0 = importlib.import_module(pid.lower())
            if hasattr(mod0, "pre_props"):
                okg, msg = mod0.pre_props()
                if not okg:
                    notes.append("translator/Gen: " + msg)
            import gen
            for which in gen.translators_for(pid):
                okg, msg, ginfo = gen.regen(which)
                gen_info[which] = ginfo
                if not okg:
                    notes.append("translator/Gen: " + msg)
        except Exception:
            notes.append("pre_props crashed: " + traceback.format_exc()[-1500:])
        props = check_props(pid)
        if not props["ok"] and "inconsistent assumptions" in props["log"]:
            # stale .vo files of the generated chain (a dependency was rebuilt): rebuild the chain once and retry
            try:
                for which in gen.translators_for(pid):
                    gen.regen(which, force=True)
                if hasattr(mod0, "pre_props"): mod0.pre_props()
            except Exception:
                pass
            props = check_props(pid)
        if notes and any(n.startswith("translator/Gen") for n in notes):
            props["ok"] = False; props["log"] = "\n".join(notes) + "\n" + props["log"]
        if args.tier == "thorough":
            rc, out = sh("timeout 3000 coqchk -silent -o -Q . NV NV.Props.%s" % pid, cwd=os.path.join(VERIF, "coq"), timeout=3100)
            props["coqchk_rc"] = rc
            props["coqchk_tail"] = out[-1500:]
            if rc != 0:
                props["ok"] = False
                props["log"] += "\ncoqchk failed:\n" + out[-1500:]
        try:
            mod = importlib.import_module(pid.lower())
            if args.replay:
                res = mod.replay(json.load(open(args.replay)))
            else:
                res = mod.run(args.tier, seed)
        except Exception:
            notes.append("harness crashed: " + traceback.format_exc()[-3000:])
            res = None

    known = load_known()
    known_sigs = {f["signature"]: f for f in known.get("findings", []) if f.get("property") == pid}

    # 1. broken build / proofs: reported below, unless the monitor produces a concrete failing input
    proof_broken = (not ok_build) or (not props["ok"])
    if res is None and ok_build:
        rp = write_replay(pid, {"property": pid, "kind": "harness-failure", "notes": notes})
        violations_out.append((rp, " no-failing-input-found"))

    n_viol = 0
    if res is not None:
        seen_known = set()
        new_viol = {}
        for v in res.violations:
            sig = v.get("signature", "?")
            if sig in known_sigs:
                seen_known.add(sig)
            else:
                new_viol.setdefault(sig, v)
        for sig, v in new_viol.items():
            rp = write_replay(pid, {"property": pid, "kind": "property-violation-on-implementation", **v})
            violations_out.append((rp, ""))
        n_viol = len(new_viol)
        for sig, f in known_sigs.items():
            known_lines.append("KNOWN-FINDING: property=%s %s" % (pid, f.get("text", sig)))
        if proof_broken and new_viol:
            proof_broken = False      # the concrete violation(s) above are the report; the broken obligation is recorded in the evidence
            notes.append("proof obligation / Gen of %s no longer checks: %s" % (pid, props["log"][-600:]))
        if res.disagreements and not new_viol:
            d = res.disagreements[0]
            rp = write_replay(pid, {"property": pid, "kind": "correspondence-broken",
                                    "what": "model (coq/Model, extracted) and implementation disagree; the property monitor found no failing input among %d evaluated cases" % res.evaluations,
                                    "correspondence": d.get("driver"), "first_disagreement": d,
                                    "disagreements": len(res.disagreements), "more": res.disagreements[1:6]})
            violations_out.append((rp, " no-failing-input-found"))

    if proof_broken:
        rp = write_replay(pid, {"property": pid, "kind": "proof-obligation-broken",
                                "what": "Coq development / Gen / Props/%s.v no longer checks against the current source; the search "
                                        "(%s evaluated cases, monitor on implementation traces) found no failing input" % (pid, res.evaluations if res is not None else 0),
                                "log": props["log"][-3000:]})
        violations_out.append((rp, " no-failing-input-found"))

    # evidence
    obligations = len([n for n in props["theorems"] if not n.startswith("ex_")])
    discharged = obligations if props["ok"] else 0
    cov = {
        "obligations": max(obligations, 0), "discharged": discharged,
        "checker_cmd": "coqc -Q /verif/coq NV /verif/coq/Props/%s.v (after make -C /verif setup: full .vo build of the development)" % pid
                       + ("; coqchk -o -Q . NV NV.Props.%s" % pid if args.tier == "thorough" else ""),
        "trusted_base": TRUSTED_BASE,
        "theorems": props["theorems"], "assumptions": props["assumptions"],
        "refuted_theorems": props.get("refuted", []), "partial_theorems": props.get("partial", []),
    }
    if "coqchk_tail" in props:
        cov["coqchk"] = props["coqchk_tail"]
    if gen_info:
        cov["translated_from_source"] = dict(gen_info, note="definitions regenerated from /repo's working tree by translate/py2coq*.py; Gen = Model lemmas (coq/Equiv/Equiv*.v) re-checked before the Props file")
        cov["trusted_base"] = TRUSTED_BASE + ["translate/py2coq*.py, translate/tlsconf.py (Python-ast to Gallina translators for the functions named in coq/Equiv/Equiv*.v, with the attribute / call / idiom / skip tables listed in their docstrings and the hand-written coq/Equiv/*Glue.v, ServerLoop.v; fail-closed outside the subset)"]
    if res is not None:
        cov.update({
            "evaluations": res.evaluations, "distinct_nontrivial": len(res.nontrivial), "rule": res.rule,
            "samples": res.samples[:12] or ["(none)"], "distribution": res.distribution, "out_of_model": res.out_of_model,
            "exhaustive": bool(res.exhaustive), "traces_validated_against_impl": res.evaluations,
            "disagreements": len(res.disagreements), "monitor_violations": len(res.violations),
            "notes": res.notes + notes,
        })
    else:
        cov.update({"evaluations": 0, "distinct_nontrivial": 0, "samples": ["(harness did not run)"], "notes": notes})
    ev = {"property_id": pid, "tier": args.tier, "seed": seed, "level": "proof", "coverage": cov,
          "assumptions": ASSUMPTIONS.get(pid, []) + ["see DESIGN.md section 8 (trusted base)"],
          "wall_s": round(time.time() - t0, 2), "violations": len(violations_out),
          "known_findings": [f.get("text") for f in known_sigs.values()]}
    json.dump(ev, open(evidence_path, "w"), indent=1, default=str)

    for l in known_lines:
        print(l)
    for rp, suffix in violations_out:
        print("VIOLATION property=%s replay=%s%s" % (pid, rp, suffix))
    if violations_out:
        sys.exit(1)
    print("OK property=%s tier=%s theorems=%d evaluations=%s distinct=%s wall=%.1fs" % (
        pid, args.tier, obligations, cov.get("evaluations"), cov.get("distinct_nontrivial"), time.time() - t0))
    sys.exit(0)

ASSUMPTIONS = {}
try:
    ASSUMPTIONS = json.load(open(os.path.join(VERIF, "assumptions.json")))
except Exception:
    pass

if __name__ == "__main__":
    main()
